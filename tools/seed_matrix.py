#!/usr/bin/env python3
"""Runs every kept seeded change (/verif/seeded/<name>/patch.diff) against the checks of its package group,
on a scratch worktree (VERIF_REPO), and writes /verif/seeded/RESULTS.tsv."""
import json, os, subprocess, sys, shutil, tempfile, time, concurrent.futures as cf
ENV = dict(os.environ, GOFLAGS="-mod=mod", GOPROXY="off", GOSUMDB="off", GOTOOLCHAIN="local")
GROUP = {"C01": ["C01","C02","C03","C04"], "C02": ["C01","C02","C04"], "C03": ["C03","C04","C01"], "C04": ["C04","C01","C03"],
         "C05": ["C05","C06","C08"], "C06": ["C06","C05","C08"], "C07": ["C07"], "C08": ["C08","C09","C06"], "C09": ["C09","C08"],
         "C10": ["C10"], "C11": ["C11","C12","C13"], "C12": ["C12","C11"], "C13": ["C13","C14"], "C14": ["C14","C13"],
         "C15": ["C15","C16"], "C16": ["C16","C15"], "C17": ["C17","C07"], "C18": ["C18","C19"], "C19": ["C19"], "C20": ["C20"]}
def run(name):
    meta = json.load(open("/verif/seeded/%s/meta.json" % name))
    prop = meta["property"]
    wt = tempfile.mkdtemp(prefix="seed-", dir="/tmp/scr"); os.rmdir(wt)
    res = {}
    try:
        subprocess.run(["git","-C","/repo","worktree","add","-q","--detach",wt,"HEAD"],check=True)
        ap = subprocess.run(["git","-C",wt,"apply","/verif/seeded/%s/patch.diff" % name])
        if ap.returncode != 0:
            # the patch no longer applies (a later fix: commit rewrote the same lines)
            return name, prop, {"patch-no-longer-applies": (9, 0, "")}
        for pr in GROUP[prop]:
            out = "/tmp/scr/out-%s-%s" % (os.path.basename(wt), pr)
            e = dict(ENV, VERIF_REPO=wt, VERIF_OUT=out)
            t0=time.time()
            tier = meta.get("check_tier", "quick") if pr == prop else "quick"
            r = subprocess.run(["/verif/check", pr, "--tier", tier], env=e, capture_output=True, text=True)
            first=""
            lines=r.stdout.splitlines()
            for i,ln in enumerate(lines):
                if ln.startswith("VIOLATION"):
                    first=" | ".join(x.strip() for x in lines[i+1:i+3])[:260]; break
            res[pr]=(r.returncode, round(time.time()-t0,1), first)
            shutil.rmtree(out, ignore_errors=True)
    finally:
        subprocess.run(["git","-C","/repo","worktree","remove","--force",wt],capture_output=True)
        shutil.rmtree(wt, ignore_errors=True)
    return name, prop, res
names = sorted(os.listdir("/verif/seeded"))
names = [n for n in names if os.path.isdir("/verif/seeded/"+n) and (len(sys.argv)<2 or sys.argv[1] in n)]
if os.environ.get("MATRIX_FROM"):
    names = [n for n in names if n >= os.environ["MATRIX_FROM"]]
os.makedirs("/tmp/scr", exist_ok=True)
rows=[]
with cf.ThreadPoolExecutor(max_workers=3) as ex:
    for name, prop, res in ex.map(run, names):
        own = res.get(prop, (None,))[0]
        caught=[p for p,(rc,_,_) in res.items() if rc==1]
        missed=[p for p,(rc,_,_) in res.items() if rc==0]
        other=[p for p,(rc,_,_) in res.items() if rc not in (0,1)]
        line="%s\tproperty=%s\tcaught_by=%s\tnot_fired=%s\tother=%s\t%s" % (name, prop, ",".join(caught), ",".join(missed), ",".join(other), res.get(prop,("","",""))[2])
        print(line, flush=True); rows.append(line)
if len(sys.argv) < 2:
    open("/verif/seeded/RESULTS.tsv","w").write("\n".join(rows)+"\n")
