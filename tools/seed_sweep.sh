#!/bin/bash
# seed_sweep.sh <tier> <seed>...: run every check on the unchanged /repo at the given seeds,
# results to /tmp/scr/sweep (the committed evidence is not touched). Prints only non-green runs.
cd /verif
tier=$1; shift
mkdir -p /tmp/scr/sweep
for seed in "$@"; do
  for id in $(python3 -c "import json;print(' '.join(c['property_id'] for c in json.load(open('MANIFEST.json'))['checks']))"); do
    out=$(VERIF_SEED=$seed VERIF_OUT=/tmp/scr/sweep/s$seed ./check $id --tier $tier 2>&1); rc=$?
    if [ $rc -ne 0 ]; then echo "seed=$seed $id rc=$rc"; echo "$out" | grep -A4 '^VIOLATION\|^INCONCLUSIVE' | head -12; fi
  done
  echo "seed $seed done"
done
