#!/bin/bash
cd /verif
for id in "$@"; do
  t0=$(date +%s)
  out=$(VERIF_OUT=/tmp/scr/thorough ./check $id --tier thorough 2>&1); rc=$?
  t1=$(date +%s)
  echo "$id rc=$rc $((t1-t0))s $(echo "$out" | tail -1 | cut -c1-160)"
  if [ $rc -ne 0 ]; then echo "$out" | grep -A4 '^VIOLATION\|^INCONCLUSIVE' | head -20; fi
done
