#!/usr/bin/env python3
"""mk_seed_prompts.py <prev_prompt_dir> <new_prompt_dir> <prev_round_no> <new_round_no> <prev_letters> <new_letters>
Derives the prompts for the next round of seeded changes from those of the previous round: paths
/tmp/seed<prev> -> /tmp/seed<new>, the summaries of the previous round's kept changes (seeded/<id><letter>/meta.json)
are appended to the do-not-repeat list, the list of trigger kinds known to be caught is extended (NEWKINDS below) and
the list of ideas is replaced (IDEAS below). The sub-agents get the property text, the list of earlier changes and of
caught kinds, and a scratch worktree - nothing else from /verif."""
import json, os, sys, glob
prev_dir, new_dir, prev_no, new_no, prev_letters, new_letters = sys.argv[1:7]
NEWKINDS = open(os.path.join(os.path.dirname(__file__), "seed_newkinds_%s.txt" % new_no)).read().strip()
IDEAS = open(os.path.join(os.path.dirname(__file__), "seed_ideas_%s.txt" % new_no)).read().strip()
words = {"4": "Four", "5": "Five", "6": "Six", "7": "Seven", "8": "Eight", "9": "Nine", "10": "Ten"}
os.makedirs(new_dir, exist_ok=True)
for f in sorted(glob.glob(prev_dir + "/C*.txt")):
    pid = os.path.basename(f)[:-4]
    s = open(f).read()
    s = s.replace("/tmp/seed%s_out" % prev_no, "/tmp/seed%s_out" % new_no).replace("/tmp/seed%s" % prev_no, "/tmp/seed%s" % new_no)
    s = s.replace("%s earlier rounds" % words[prev_no], "%s earlier rounds" % words[new_no])
    extra = ""
    for x in prev_letters:
        m = "/verif/seeded/%s%s/meta.json" % (pid, x)
        if os.path.exists(m):
            extra += "  - " + (json.load(open(m)).get("summary") or "")[:420].replace("\n", " ") + "\n"
    s = s.replace("Across all properties the harness is known to catch", extra + "Across all properties the harness is known to catch", 1)
    i = s.index("Across all properties the harness is known to catch"); j = s.index("\n", i)
    line = s[i:j].rstrip(".")
    s = s[:i] + line + ", " + NEWKINDS + "." + s[j:]
    s = s.replace('("%s", optionally "%s")' % tuple(prev_letters), '("%s", optionally "%s")' % tuple(new_letters))
    a = s.index("Ideas:"); b = s.index("Stay with violations you can actually demonstrate")
    s = s[:a] + "Ideas: " + IDEAS + " " + s[b:]
    open(os.path.join(new_dir, pid + ".txt"), "w").write(s)
print("wrote", len(glob.glob(new_dir + "/C*.txt")), "prompts")
