#!/bin/bash
# validate_seed.sh <srcdir> <name>: confirm a seeded change in a scratch
# worktree (suite passes with it, demo fails with it, demo passes without it)
# and, if so, keep it as /verif/seeded/<name>/.
set -u
export GOFLAGS=-mod=mod GOPROXY=off GOSUMDB=off GOTOOLCHAIN=local
src="$1"; name="$2"
wt="/tmp/vseed-$name-$$"
log="/tmp/vseed-$name.log"
: > "$log"
git -C /repo worktree add -q --detach "$wt" HEAD || exit 3
cleanup() { git -C /repo worktree remove --force "$wt" >/dev/null 2>&1; rm -rf "$wt"; }
trap cleanup EXIT
meta="$src/meta.json"
ddir=$(python3 -c "import json;print(json.load(open('$meta'))['demo_dir'])")
dcmd=$(python3 -c "import json;print(json.load(open('$meta'))['demo_cmd'])")
demo=$(ls "$src"/demo*_test.go "$src"/demo*.go 2>/dev/null | head -1)
cd "$wt"
git apply "$src/patch.diff" || { echo "$name: PATCH DOES NOT APPLY"; exit 1; }
if git diff --name-only | grep -q '_test.go\|verif_'; then echo "$name: touches tests or hooks"; exit 1; fi
go build ./... >>"$log" 2>&1 || { echo "$name: does not build"; exit 1; }
go build -tags verif ./... >>"$log" 2>&1 || { echo "$name: does not build with -tags verif"; }
go test -vet=off -count=1 ./... >>"$log" 2>&1 || { echo "$name: SUITE FAILS with change"; exit 1; }
cp "$demo" "$wt/$ddir/" 
( timeout 600 bash -c "$dcmd" ) >>"$log" 2>&1
with=$?
git checkout -q -- . 
( timeout 600 bash -c "$dcmd" ) >>"$log" 2>&1
without=$?
if [ $with -ne 0 ] && [ $without -eq 0 ]; then
  mkdir -p /verif/seeded/$name
  cp "$src/patch.diff" /verif/seeded/$name/patch.diff
  cp "$demo" /verif/seeded/$name/
  python3 - "$meta" "/verif/seeded/$name/meta.json" "$name" <<'PY'
import json,sys
m=json.load(open(sys.argv[1]))
out={"id":sys.argv[3],"property":m.get("property"),"summary":m.get("summary"),"needs":m.get("needs"),
 "demo_dir":m.get("demo_dir"),"demo_cmd":m.get("demo_cmd"),
 "author":"independent sub-agent given only the property text and a scratch worktree",
 "confirmed":"tools/validate_seed.sh in a fresh scratch worktree of /repo HEAD: go build ./... ok; go test -vet=off -count=1 ./... passes with the change; demo fails with the change (non-zero exit) and passes without it",
 "agent_notes":m.get("verified")}
json.dump(out,open(sys.argv[2],"w"),indent=1)
PY
  echo "$name: OK (demo with=$with without=$without)"
else
  echo "$name: REJECTED (demo with=$with without=$without)"; exit 1
fi
