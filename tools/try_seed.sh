#!/bin/bash
# try_seed.sh <seedname> <prop> [tier]: apply a seeded change to /repo, run the check, undo.
cd /verif
git -C /repo diff --quiet || { echo "/repo dirty"; exit 3; }
git -C /repo apply /verif/seeded/$1/patch.diff || exit 3
VERIF_SEED=${VERIF_SEED:-1} VERIF_OUT=${VERIF_OUT:-/tmp/scr/try} ./check $2 --tier ${3:-quick} > /tmp/try_$1_$2.out 2>&1
rc=$?
git -C /repo checkout -- .
echo "$1 vs $2: exit=$rc $(grep -c '^VIOLATION' /tmp/try_$1_$2.out) violation line(s); $(grep -m1 -A3 '^VIOLATION' /tmp/try_$1_$2.out | tr '\n' ' ' | cut -c1-400)"
