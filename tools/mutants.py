#!/usr/bin/env python3
"""Validation of the monitors against hand-written mutants (DESIGN.md §8).

Each mutant is a textual replacement in a scratch worktree of /repo (never in
/repo itself). For each mutant: does the repository's own suite still pass
(only then is it an interesting mutant), and do the listed checks fire?

usage: mutants.py [--only NAME_SUBSTR] [--props C05,C08] [--jobs N] [--tier quick]
Results: /verif/mutants/results.tsv (appended) and a summary on stdout.
"""
import json, os, subprocess, sys, shutil, tempfile, time, argparse, concurrent.futures as cf

ENV = dict(os.environ, GOFLAGS="-mod=mod", GOPROXY="off", GOSUMDB="off", GOTOOLCHAIN="local")

# (name, file, old, new, [properties expected to fire])
M = []
def m(name, file, old, new, props):
    M.append((name, file, old, new, props))

# --- stree
m("stree-popMinRight-wrong-child", "stree/node.go", "par.left = goat.right", "par.left = goat.left", ["C01"])
m("stree-extract-midpoint", "stree/node.go", "mid := (len(nodes) - 1) / 2", "mid := len(nodes) / 2", ["C02"])
m("stree-height-lt", "stree/stree.go", "if bw := t.limit(rootSize); height <= bw {", "if bw := t.limit(rootSize); height < bw {", [])
m("stree-limit-max", "stree/stree.go", "ins, ok, _, _ := t.insert(key, false, t.root, t.limit(t.size+1))", "ins, ok, _, _ := t.insert(key, false, t.root, t.limit(t.max+1))", ["C02"])
m("stree-no-goat", "stree/stree.go", "root = rewrite(root, rootSize)\n\t\t\tsize = 0", "size = 0", ["C02"])
m("stree-replace-noop", "stree/stree.go", "if replace {\n\t\t\troot.X = key\n\t\t}", "", ["C01", "C04"])
m("stree-remove-size", "stree/stree.go", "t.root = rewrite(t.root, t.size)\n\t\t\tt.max = t.size", "t.root = rewrite(t.root, t.size)", [])
m("stree-clone-shallow", "stree/stree.go", "cp.root = t.root.clone() // deep copy of the contents", "", ["C01"])
m("stree-inorderAfter-lt", "stree/node.go", "if compare(cur.X, key) < 0 {\n\t\t\tcontinue", "if compare(cur.X, key) <= 0 {\n\t\t\tcontinue", ["C01", "C04"])
m("stree-min-right", "stree/stree.go", "for cur.left != nil {\n\t\tcur = cur.left\n\t}\n\treturn cur.X\n}\n\n// Max", "for cur.left != nil && cur.left.left != nil {\n\t\tcur = cur.left\n\t}\n\treturn cur.X\n}\n\n// Max", ["C01"])
# --- cursor
m("cursor-findNext-right", "stree/cursor.go", "if c.path[i] == c.path[j].left {\n\t\t\treturn nil, j", "if c.path[i] != c.path[j].right {\n\t\t\treturn nil, j", [])
m("cursor-findNext-wrong", "stree/cursor.go", "if c.path[i] == c.path[j].left {", "if c.path[i] == c.path[j].right {", ["C03", "C04"])
m("cursor-min-stop", "stree/cursor.go", "for min.left != nil {\n\t\t\tmin = min.left\n\t\t\tc.path = append(c.path, min)", "for min.left != nil && len(c.path) < 6 {\n\t\t\tmin = min.left\n\t\t\tc.path = append(c.path, min)", ["C03"])
m("cursor-up-invalid", "stree/cursor.go", "c.path = c.path[:len(c.path)-1]", "if len(c.path) > 1 {\n\t\t\tc.path = c.path[:len(c.path)-1]\n\t\t}", ["C03"])
# --- omap
m("omap-seek-first", "omap/omap.go", "it.c = it.m.Cursor(kv)\n\t\t\tbreak", "it.c = it.m.Cursor(kv)", ["C04"])
m("omap-last-min", "omap/omap.go", "it.c = m.m.Root().Max()", "it.c = m.m.Root().Min().Max()", ["C04"])
m("omap-len-zero", "omap/omap.go", "if m.m == nil || m.m.Len() == 0 {\n\t\treturn nil", "if m.m == nil || m.m.Len() <= 1 {\n\t\treturn nil", ["C04"])
# --- heapq
m("heapq-pushDown-skip-right", "heapq/heapq.go", "if rc := lc + 1; rc < len(q.data) && q.cmp(q.data[rc], q.data[min]) < 0 {", "if rc := lc + 1; rc < len(q.data)-1 && q.cmp(q.data[rc], q.data[min]) < 0 {", ["C05", "C08"])
m("heapq-swap-one-report", "heapq/heapq.go", "q.move(q.data[i], i)\n\tq.move(q.data[j], j)", "q.move(q.data[i], i)", ["C06", "C08"])
m("heapq-revert-F2", "heapq/heapq.go", "if i < n && q.pushDown(i) == i {", "if q.pushDown(i); false {", ["C05", "C08"])
m("heapq-set-no-heapify-last", "heapq/heapq.go", "for i := len(q.data) - 1; i >= 0; i-- {\n\t\tq.move(q.data[i], i)\n\t\tq.pushDown(i)", "for i := len(q.data) - 1; i >= 0; i-- {\n\t\tq.move(q.data[i], i)\n\t\tif i > 0 {\n\t\t\tq.pushDown(i)\n\t\t}", ["C05"])
m("heapq-newwithdata-half", "heapq/heapq.go", "q := &Queue[T]{data: data, cmp: cmp, move: nmove[T]}\n\tfor i := len(q.data) / 2; i >= 0; i-- {", "q := &Queue[T]{data: data, cmp: cmp, move: nmove[T]}\n\tfor i := len(q.data)/2 - 1; i > 0; i-- {", ["C05"])
m("heapq-add-return-n", "heapq/heapq.go", "return q.pushUp(n)", "q.pushUp(n)\n\treturn n", ["C05", "C06", "C08"])
m("heapq-parent-third", "heapq/heapq.go", "par := i / 2\n", "par := i / 3\n", ["C05"])
# --- cache
m("cache-forget-delete-present", "cache/lru.go", "c.access.Remove(pos)\n\t\tdelete(c.present, key)", "c.access.Remove(pos)", ["C08"])
m("cache-size-not-decremented", "cache/cache.go", "c.store.Remove(key)\n\t\tc.onEvict(key, old)\n\t\tc.size -= c.sizeOf(old)\n\t\tc.count--\n\t}\n\n\t// If necessary", "c.store.Remove(key)\n\t\tc.onEvict(key, old)\n\t\tc.count--\n\t}\n\n\t// If necessary", ["C08"])
m("cache-get-unlocked", "cache/cache.go", "func (c *Cache[K, V]) Get(key K) (V, bool) {\n\tc.μ.Lock()\n\tdefer c.μ.Unlock()\n", "func (c *Cache[K, V]) Get(key K) (V, bool) {\n", ["C09"])
m("cache-len-unlocked", "cache/cache.go", "func (c *Cache[K, V]) Len() int {\n\tc.μ.Lock()\n\tdefer c.μ.Unlock()\n", "func (c *Cache[K, V]) Len() int {\n", ["C09"])
m("cache-has-counts-as-access", "cache/cache.go", "_, ok := c.store.Check(key)\n\treturn ok\n}", "_, ok := c.store.Access(key)\n\treturn ok\n}", ["C08", "C09"])
m("cache-toolarge-removes-old", "cache/cache.go", "valSize := c.sizeOf(val)\n\tif valSize > c.limit {\n\t\treturn false // this value will never fit\n\t}\n\n\t// If there is an existing item for this key, remove it.\n\tif old, ok := c.store.Check(key); ok {\n\t\tc.store.Remove(key)\n\t\tc.onEvict(key, old)\n\t\tc.size -= c.sizeOf(old)\n\t\tc.count--\n\t}",
  "valSize := c.sizeOf(val)\n\n\t// If there is an existing item for this key, remove it.\n\tif old, ok := c.store.Check(key); ok {\n\t\tc.store.Remove(key)\n\t\tc.onEvict(key, old)\n\t\tc.size -= c.sizeOf(old)\n\t\tc.count--\n\t}\n\tif valSize > c.limit {\n\t\treturn false // this value will never fit\n\t}", ["C08"])
m("cache-remove-no-callback", "cache/cache.go", "c.store.Remove(key)\n\t\tc.onEvict(key, old)\n\t\tc.size -= c.sizeOf(old)\n\t\tc.count--\n\t\treturn true", "c.store.Remove(key)\n\t\tc.size -= c.sizeOf(old)\n\t\tc.count--\n\t\treturn true", ["C08", "C09"])
m("cache-evict-unlock-before-callback", "cache/cache.go", "\t\tek, ev := c.store.Evict()\n\t\tc.onEvict(ek, ev)\n\t\tc.count--\n\t\tnewSize -= c.sizeOf(ev)", "\t\tek, ev := c.store.Evict()\n\t\tc.μ.Unlock()\n\t\tc.onEvict(ek, ev)\n\t\tc.μ.Lock()\n\t\tc.count--\n\t\tnewSize -= c.sizeOf(ev)", ["C09"])
m("cache-size-unlocked", "cache/cache.go", "func (c *Cache[K, V]) Size() int64 {\n\tc.μ.Lock()\n\tdefer c.μ.Unlock()\n", "func (c *Cache[K, V]) Size() int64 {\n", ["C09"])
# --- queue
m("queue-rotate-sign", "queue/queue.go", "slice.Rotate(q.vs, -q.head)\n\t\tq.head = 0\n\t}\n\n\t// The buffer is in the initial regime", "slice.Rotate(q.vs, q.head)\n\t\tq.head = 0\n\t}\n\n\t// The buffer is in the initial regime", ["C07"])
m("queue-missing-head-reset", "queue/queue.go", "slice.Rotate(q.vs, -q.head) // as in Add\n\t\tq.head = 0", "slice.Rotate(q.vs, -q.head) // as in Add", [])
m("queue-pop-no-reset", "queue/queue.go", "if q.n == 0 {\n\t\tq.head = 0 // reset to initial conditions\n\t} else {\n\t\tq.head = (q.head + 1) % len(q.vs)\n\t}", "q.head = (q.head + 1) % len(q.vs)", [])
m("queue-each-nomod", "queue/queue.go", "if !f(q.vs[cur]) {\n\t\t\treturn\n\t\t}\n\t\tcur = (cur + 1) % len(q.vs)", "if !f(q.vs[cur]) {\n\t\t\treturn\n\t\t}\n\t\tcur = (cur + 1) % cap(q.vs)", [])
# --- mlink / ring / stack
m("mlink-remove-no-selflink", "mlink/list.go", "c.pred.link.link = c.pred.link // invalidate the outgoing (but not all)\n", "", ["C10"])
m("mlink-revert-F7", "mlink/list.go", "c.pred.checkValid().link.invalidate(); c.pred.link = nil", "c.pred.link.invalidate(); c.pred.link = nil", ["C10"])
m("mlink-queue-clear-back", "mlink/queue.go", "func (q *Queue[T]) Clear() { q.list.Clear(); q.back = q.list.cfirst(); q.size = 0 }", "func (q *Queue[T]) Clear() { q.list.Clear(); q.size = 0 }", ["C10"])
m("mlink-last-offbyone", "mlink/list.go", "for cur.pred.link.link != nil {", "for cur.pred.link.link != nil && cur.pred.link.link.link != nil {", ["C10"])
m("ring-join-swapped", "ring/ring.go", "sprev.next = rnext // successor of s end is now rnext\n\trnext.prev = sprev // predecessor of rnext is now s end", "sprev.next = rnext // successor of s end is now rnext\n\trnext.prev = s // predecessor of rnext is now s end", ["C10"])
m("ring-pop-noselflink", "ring/ring.go", "r.prev = r\n\t\tr.next = r", "r.prev = r", ["C10"])
m("ring-at-neg", "ring/ring.go", "n = -n\n\t\tnext = (*Ring[T]).Prev", "n = -n", ["C10"])
m("stack-slice-order", "stack/stack.go", "cp[i] = s.list[e]\n\t\te--", "cp[i] = s.list[i]\n\t\te--", [])
# --- slice edit / lis
m("lcs-tiebreak", "slice/edit.go", "} else if c[i-1].n >= p[i].n {", "} else if c[i-1].n > p[i].n {", [])
m("lcs-row-typo", "slice/edit.go", "c[i] = &seq{i - 1, p[i-1].n + 1, p[i-1]}", "c[i] = &seq{i - 1, c[i-1].n + 1, p[i-1]}", ["C11", "C12"])
m("edit-no-fuse", "slice/edit.go", "if lend > lpos && rend > rpos {\n\t\t\tout = append(out, Edit[T]{Op: OpReplace, X: lhs[lpos:lend], Y: rhs[rpos:rend]})\n\t\t\trpos = rend\n\t\t} else if lend > lpos {", "if lend > lpos {", ["C11"])
m("edit-emit-run-overextend", "slice/edit.go", "for i+m < len(lcs) && eq(lhs[lpos+m], rhs[rpos+m]) {", "for lpos+m < len(lhs) && rpos+m < len(rhs) && eq(lhs[lpos+m], rhs[rpos+m]) {", ["C11"])
m("lis-bisect-ge", "slice/lis.go", "if cmp(vs[mid], target) > 0 {", "if cmp(vs[mid], target) >= 0 {", ["C12"])
m("lis-fastpath-ge", "slice/lis.go", "if cmp(vs[i], vs[idxOfBestTail]) > 0 {\n\t\t\tprev[i] = idxOfBestTail", "if cmp(vs[i], vs[idxOfBestTail]) >= 0 {\n\t\t\tprev[i] = idxOfBestTail", ["C12"])
m("lnds-fastpath-gt", "slice/lis.go", "if cmp(vs[i], vs[idxOfBestTail]) >= 0 {", "if cmp(vs[i], vs[idxOfBestTail]) > 0 {", [])
# --- slice utils
m("rotate-gcd-start", "slice/slice.go", "g := gcd(k, len(ss))\n\tfor j := range g {", "g := gcd(k, len(ss))\n\tfor j := range max(g-1, 1) {", ["C17", "C07"])
m("batches-remainder", "slice/slice.go", "if rem > 0 {\n\t\t\tend++\n\t\t\trem--\n\t\t}", "if rem > 1 {\n\t\t\tend++\n\t\t\trem--\n\t\t}", ["C17"])
m("chunks-noclip", "slice/slice.go", "out = append(out, vs[i:end:end])\n\t\ti = end\n\t}\n\treturn out\n}\n\n// Batches", "out = append(out, vs[i:end])\n\t\ti = end\n\t}\n\treturn out\n}\n\n// Batches", ["C17"])
m("tail-offbyone", "slice/slice.go", "if len(vs) < n {\n\t\treturn vs\n\t}\n\treturn vs[len(vs)-n:]", "if len(vs) <= n+1 {\n\t\treturn vs\n\t}\n\treturn vs[len(vs)-n:]", ["C17"])
m("partition-unstable", "slice/slice.go", "vs[i], vs[j] = vs[j], vs[i]\n\t\ti++\n\t\tj++", "vs[i], vs[j] = vs[j], vs[i]\n\t\ti++", [])
# --- mdiff
m("mdiff-revert-F4-pre", "mdiff/mdiff.go", "if gap := max(c.LStart-prevEnd, 0); len(pre) > gap {", "if gap := max(c.LStart-prevEnd, 0); false && len(pre) > gap {", ["C13", "C14"])
m("mdiff-dspan-offbyone", "mdiff/format.go", "return fmt.Sprintf(\"%d,%d\", start, end-1)", "return fmt.Sprintf(\"%d,%d\", start, end)", ["C14"])
m("mdiff-normal-lpos", "mdiff/format.go", "fmt.Fprintf(w, \"%da%s\\n\", lpos-1, dspan(rpos, rpos+len(e.Y)))", "fmt.Fprintf(w, \"%da%s\\n\", lpos, dspan(rpos, rpos+len(e.Y)))", ["C14"])
m("mdiff-revert-F6-writer", "mdiff/format.go", "return fmt.Sprintf(\"%s%d,0\", side, start-1)", "return fmt.Sprintf(\"%s%d,0\", side, start)", ["C14"])
m("mdiff-reader-normal-rlo", "mdiff/reader.go", "rlo++ // Deletes happen after the marked line.", "", ["C14"])
m("mdiff-unify-lap", "mdiff/mdiff.go", "end.X = end.X[:len(end.X)-lap] // drop the overlap", "end.X = end.X[:len(end.X)-lap+1] // drop the overlap", [])
m("mdiff-context-bang", "mdiff/format.go", "case slice.OpReplace:\n\t\t\t\t\twriteLines(w, \"! \", e.Y)", "case slice.OpReplace:\n\t\t\t\t\twriteLines(w, \"+ \", e.Y)", [])
m("mdiff-header-time-trunc", "mdiff/format.go", "const TimeFormat = \"2006-01-02 15:04:05.999999 -0700\"", "const TimeFormat = \"2006-01-02 15:04:05.999 -0700\"", ["C14"])
# --- shell
m("shell-mustQuote-dollar", "shell/shell.go", "const mustQuote = \"|&;<>()$`\\\\\\\"\\t\\n\"", "const mustQuote = \"|&;<>()`\\\\\\\"\\t\\n\"", ["C15"])
m("shell-shouldQuote-star", "shell/shell.go", "const shouldQuote = `*?[#~=%`", "const shouldQuote = `?[#~=%`", ["C15"])
m("shell-quote-inq", "shell/shell.go", "buf.WriteByte('\\'')\n\t\t\t\tinq = false", "buf.WriteByte('\\'')", ["C15"])
m("shell-rest-state", "shell/shell.go", "s.st = stNone\n\ts.cur.Reset()\n\ts.err = io.EOF", "s.st = stNone\n\ts.cur.Reset()", ["C16"])
m("shell-reset-state", "shell/shell.go", "s.cur.Reset()\n\ts.st = stBreak\n\ts.err = nil\n}", "s.cur.Reset()\n\ts.err = nil\n}", ["C16", "C15"])
# --- mapset
m("mapset-issubset-len", "mapset/mapset.go", "} else if len(s) > len(t) {\n\t\treturn false", "} else if len(s) >= len(t) {\n\t\treturn false", ["C18"])
m("mapset-equals-onesided", "mapset/mapset.go", "if len(s) != len(t) {\n\t\treturn false\n\t}", "if len(s) > len(t) {\n\t\treturn false\n\t}", ["C18"])
m("mapset-intersect-min", "mapset/mapset.go", "if len(s) < len(min) {\n\t\t\tmin = s", "if len(s) > len(min) {\n\t\t\tmin = s", [])
m("mapset-remove-break", "mapset/mapset.go", "for _, item := range items {\n\t\tif len(s) == 0 {\n\t\t\tbreak\n\t\t}\n\t\tdelete(s, item)", "for _, item := range items {\n\t\tif len(s) <= 1 {\n\t\t\tbreak\n\t\t}\n\t\tdelete(s, item)", ["C18"])
m("mapset-clone-nil", "mapset/mapset.go", "if s == nil {\n\t\treturn make(Set[T])\n\t}", "", ["C18"])
# --- distinct
m("distinct-shift2", "distinct/distinct.go", "c.p >>= 1", "c.p >>= 2", ["C19"])
m("distinct-no-remove-on-fail", "distinct/distinct.go", "c.buf.Remove(v)\n\t\treturn", "return", ["C19"])
m("distinct-revert-F8", "distinct/distinct.go", "for c.buf.Len() >= c.cap && c.p != 0 {", "if c.buf.Len() >= c.cap && c.p != 0 {", ["C19"])
m("distinct-reset-p", "distinct/distinct.go", "func (c *Counter[T]) Reset() { c.buf.Clear(); c.p = math.MaxUint64 }", "func (c *Counter[T]) Reset() { c.buf.Clear() }", ["C19"])
m("distinct-keep-odd", "distinct/distinct.go", "if rnd&1 == 0 {", "if rnd&3 == 0 {", ["C19"])
# --- mbits / mstr
m("mbits-zero-roundup", "mbits/mbits.go", "n := len(data)\n\tm := n &^ 7 // end of 64-bit chunks spanned by data", "n := len(data)\n\tm := (n + 7) &^ 7 // end of 64-bit chunks spanned by data", ["C20"])
m("mbits-leading-roundup", "mbits/mbits.go", "n := len(data)\n\tm := n &^ 7 // end of full 64-bit chunks spanned by data", "n := len(data)\n\tm := (n + 7) &^ 7 // end of full 64-bit chunks spanned by data", ["C20"])
m("mstr-trunc-one-byte-less", "mstr/mstr.go", "for n > 0 && s[n-1]&0xc0 == 0x80 { // 0b10... is a continuation byte\n\t\tn--\n\t}", "for n > 1 && s[n-1]&0xc0 == 0x80 { // 0b10... is a continuation byte\n\t\tn--\n\t}", [])
m("mstr-trunc-no-lead-check", "mstr/mstr.go", "if n > 0 && s[n-1]&0xc0 == 0xc0 { // 0b11... starts a multibyte encoding\n\t\tn--\n\t}", "", ["C20"])
m("mstr-natural-lex-mixed", "mstr/mstr.go", "} else if aok != bok {\n\t\t\t// One begins with digits, the other does not.\n\t\t\t// They cannot be equal, so compare them lexicographically.\n\t\t\treturn cmp.Compare(a, b)", "} else if aok != bok {\n\t\t\tif aok {\n\t\t\t\treturn -1\n\t\t\t}\n\t\t\treturn 1", ["C20"])

def table_mutants():
    """One mutant per transition-table entry of shell's tokenizer (42 entries)."""
    src = open("/repo/shell/shell.go").read()
    start = src.index("var update = [...][]struct {")
    end = src.index("var classOf")
    lines = src[start:end].split("\n")
    state = None
    states = ["stBreak", "stBreakQ", "stWord", "stWordQ", "stSingle", "stDouble", "stDoubleQ"]
    actions = ["drop", "push", "xpush", "emit"]
    out = []
    import re
    for ln in lines:
        mm = re.match(r"\t(st\w+): \{$", ln)
        if mm:
            state = mm.group(1)
            continue
        mm = re.match(r"\t\t(cl\w+):\s+\{(st\w+), (\w+)\},$", ln)
        if mm and state:
            cl, st, act = mm.groups()
            # two variants: change the target state, change the action
            ns = states[(states.index(st) + 2) % len(states)]
            na = actions[(actions.index(act) + 1) % len(actions)]
            if na == "emit":
                na = "drop" if act != "drop" else "push"
            anchor_old = "\t%s: {\n" % state
            # the entry text is unique only within its state block: replace inside the block
            out.append(("shell-table-%s-%s-state" % (state, cl), state, ln, ln.replace("{%s," % st, "{%s," % ns)))
            out.append(("shell-table-%s-%s-action" % (state, cl), state, ln, ln.replace(", %s}" % act, ", %s}" % na)))
    return out

def apply_table(wt, state, old, new):
    p = os.path.join(wt, "shell/shell.go")
    s = open(p).read()
    i = s.index("\t%s: {\n" % state, s.index("var update = [...]"))
    j = s.index(old, i)
    s = s[:j] + new + s[j + len(old):]
    open(p, "w").write(s)

def run_one(job):
    name, kind, spec, props, tier = job
    wt = tempfile.mkdtemp(prefix="mut-", dir="/tmp/scr")
    os.rmdir(wt)
    res = {"name": name, "props": {}, "suite": None}
    try:
        subprocess.run(["git", "-C", "/repo", "worktree", "add", "-q", "--detach", wt, "HEAD"], check=True)
        if kind == "text":
            f, old, new = spec
            p = os.path.join(wt, f)
            s = open(p).read()
            if old not in s:
                res["error"] = "pattern not found"
                return res
            open(p, "w").write(s.replace(old, new, 1))
        else:
            apply_table(wt, *spec)
        b = subprocess.run(["go", "build", "./..."], cwd=wt, env=ENV, capture_output=True, text=True)
        if b.returncode != 0:
            res["error"] = "does not build: " + b.stderr[:200]
            return res
        t = subprocess.run(["go", "test", "-vet=off", "-count=1", "./..."], cwd=wt, env=ENV, capture_output=True, text=True)
        res["suite"] = "pass" if t.returncode == 0 else "FAIL"
        for pr in props:
            out = os.path.join("/tmp/scr", "out-" + os.path.basename(wt) + "-" + pr)
            e = dict(ENV, VERIF_REPO=wt, VERIF_OUT=out)
            t0 = time.time()
            r = subprocess.run(["/verif/check", pr, "--tier", tier], env=e, capture_output=True, text=True)
            first = ""
            for ln in r.stdout.splitlines():
                if ln.startswith("VIOLATION"):
                    idx = r.stdout.splitlines().index(ln)
                    first = " | ".join(x.strip() for x in r.stdout.splitlines()[idx + 1:idx + 3])[:300]
                    break
            res["props"][pr] = {"exit": r.returncode, "violations": r.stdout.count("\nVIOLATION") + r.stdout.startswith("VIOLATION"), "first": first, "secs": round(time.time() - t0, 1)}
            shutil.rmtree(out, ignore_errors=True)
    finally:
        subprocess.run(["git", "-C", "/repo", "worktree", "remove", "--force", wt], capture_output=True)
        shutil.rmtree(wt, ignore_errors=True)
    return res

def main():
    ap = argparse.ArgumentParser()
    ap.add_argument("--only", default="")
    ap.add_argument("--props", default="")
    ap.add_argument("--jobs", type=int, default=3)
    ap.add_argument("--tier", default="quick")
    ap.add_argument("--table", action="store_true", help="the 84 tokenizer-table mutants against C16")
    ap.add_argument("--all-props", default="", help="run these checks for every mutant regardless of the expected list")
    a = ap.parse_args()
    os.makedirs("/tmp/scr", exist_ok=True)
    os.makedirs("/verif/mutants", exist_ok=True)
    jobs = []
    if a.table:
        for name, state, old, new in table_mutants():
            if a.only in name:
                jobs.append((name, "table", (state, old, new), ["C16"], a.tier))
    else:
        for name, f, old, new, props in M:
            if a.only not in name:
                continue
            ps = a.props.split(",") if a.props else (props or [])
            if a.all_props:
                ps = a.all_props.split(",")
            if not ps:
                ps = guess_props(f)
            jobs.append((name, "text", (f, old, new), ps, a.tier))
    with cf.ThreadPoolExecutor(max_workers=a.jobs) as ex, open("/verif/mutants/results.tsv", "a") as out:
        for res in ex.map(run_one, jobs):
            caught = [p for p, r in res["props"].items() if r["exit"] == 1]
            missed = [p for p, r in res["props"].items() if r["exit"] == 0]
            other = [p for p, r in res["props"].items() if r["exit"] not in (0, 1)]
            line = "%s\tsuite=%s\tcaught=%s\tmissed=%s\tother=%s\t%s" % (res["name"], res.get("suite"), ",".join(caught), ",".join(missed), ",".join(other), res.get("error", ""))
            for p, r in res["props"].items():
                if r["first"]:
                    line += "\t%s: %s" % (p, r["first"])
            print(line, flush=True)
            out.write(line + "\n")
            out.flush()

def guess_props(f):
    d = f.split("/")[0]
    return {"stree": ["C01", "C02", "C03", "C04"], "omap": ["C04"], "heapq": ["C05", "C06", "C08"], "cache": ["C08", "C09"], "queue": ["C07"],
            "mlink": ["C10"], "ring": ["C10"], "stack": ["C10"], "slice": ["C11", "C12", "C17"], "mdiff": ["C13", "C14"], "shell": ["C15", "C16"],
            "mapset": ["C18"], "distinct": ["C19"], "mbits": ["C20"], "mstr": ["C20"]}[d]

if __name__ == "__main__":
    main()
