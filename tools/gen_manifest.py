#!/usr/bin/env python3
"""Regenerates /verif/MANIFEST.json from the table below. A property is listed
under checks only once its monitor exists in harness/props; the rest are listed
under not_applicable with the reason "not built yet"."""
import json, os, subprocess
ROOT = os.path.dirname(os.path.dirname(os.path.abspath(__file__)))

CHECKS = {
 # id: (technique, level text, level note, design ref)
 "C01": ("reference-model monitor (sorted slice with tags) after every call; phase-structured adversarial histories over several betas; clone population; shape-derived reach counters",
         "Runs the real stree.Tree against a sorted-slice reference under the same comparator (including a coarser comparator so that the stored representative is observable) and compares Len, IsEmpty, Min, Max, the full Inorder with stored tags, early stop, Get and InorderAfter after every single call of histories that force scapegoat rebuilds, delete-side rebuilds and two-child removals, on up to three live clones at once. Held = no divergence on the executions listed in the evidence.",
         "Trusts the sorted-slice reference and the Go runtime; tree shape (used only for reach counters) is read through stree.Cursor.",
         "DESIGN.md §5 C01"),
 "C02": ("invariant monitor: measured depth (through Root/Left/Right/Up) against the real-valued scapegoat bound after every operation, with the monitor's own peak-size tracking; comparator-call counter on Get; height of bulk-built trees",
         "After every Add/Replace/Remove of adversarial and random histories (sorted, reverse, zig-zag, bisection, bit-reversal, sliding window, drain-to-empty-then-regrow) for many betas the monitor measures the depth of the deepest key and checks it against log_{2000/(1000+beta)}(P)+1 with P tracked by the monitor, counts the comparator calls of Get, and checks floor(log2 n) for bulk New. Held = bound respected at every one of the listed steps.",
         "Trusts float64 log with 1e-9 slack in the code's favour; depth is read through the cursor API (C03).",
         "DESIGN.md §5 C02"),
 "C03": ("shadow-position monitor: structure read twice through the cursor API and validated as a BST over the reference set, then scripted sweeps and random walks of a cursor population checked after every move",
         "For thousands of tree shapes (vines at beta=1000 to perfectly balanced at beta=0, with removals) checks Cursor(k) for every key and absent neighbours, full forward/backward sweeps with HasNext/HasPrev, subtree order/Inorder/Min/Max/Up at every node, random walks of up to four cloned cursors with all cursors re-checked after every move, and no-op behaviour of nil/invalid cursors. Held = no disagreement on the listed shapes and moves.",
         "The shadow structure is itself read through the cursor API; it is accepted only if two independent readings agree and form a BST over exactly Tree.Inorder.",
         "DESIGN.md §5 C03"),
 "C04": ("reference-model monitor (sorted slice of pairs) after every mutation; iterator sweeps from First/Last/Seek for every target in both directions; re-Seek of live iterators; delete-while-iterating idiom; zero Map; shared copies",
         "Runs omap.Map with four comparators against a sorted reference and, after every Set/Delete/Clear (through the map or a copy of it), compares Len/Get/GetOK/Keys/String and sweeps iterators from First, Last and Seek(k) for every k around the key range in both directions, re-seeks positioned iterators to every kind of target, and runs the documented delete-while-iterating idiom; histories drain below 1/8 of their peak. Held = no divergence on the listed executions.",
         "Trusts the sorted-slice reference; key spelling under a case-folding comparator is compared with the map's own comparator only.",
         "DESIGN.md §5 C04"),
 "C05": ("reference-model monitor (held multiset, minimality under the current comparison) after every operation and over a final drain; every history run twice: as is and with a counterfactual hook that substitutes the correct parent index, to attribute violations to known finding F1; exhaustive small inputs for Sort",
         "Executes tens of thousands of Add/Pop/Remove(i)/Set/Reorder/Clear/NewWithData histories across several heap levels, three comparison orders and many duplicate keys, checking after every operation that Front/Pop are minimal among held elements, Remove(i) returns what Peek(i) showed and contents are conserved, then drains. Real-run violations are reported as KNOWN-FINDING F1 only if they vanish when the one expression F1 names is corrected by the hook; the counterfactual runs excuse nothing. heapq.Sort: all inputs of length <= 7 over 4 values plus random. Held (with KNOWN-FINDING lines) = nothing beyond F1 on the listed executions.",
         "Trusts the reference multiset and the counterfactual hook (one added line in pushUp). A defect that needs F1's wrong layout to manifest AND vanishes with the corrected parent would be mis-attributed to F1.",
         "DESIGN.md §5 C05, §4"),
 "C06": ("event-log monitor: update-callback arguments recorded into tag->position and checked against Peek after every operation; removals through reported positions; consumer-side invariant hook on the LRU store",
         "With an update callback installed, after every operation of tens of thousands of histories (keys with many ties, removals by raw offset and by reported position, Set of every length 0..64, Reorder, drains) every held element that entered through Add or Set must sit at its last reported position, Add must return it, and Remove(reported position) must remove exactly that element; the cache's LRU index is cross-checked against its heap after every cache call. Held = no stale position on the listed executions.",
         "Trusts the recorded callback log; elements placed by NewWithData are not tracked (statement covers Add/Set only).",
         "DESIGN.md §5 C06"),
 "C08": ("reference-model monitor (recency list) after every call, exact per-call eviction-callback sequences, accounting invariant hook under the cache lock; counterfactual attribution of residual F1",
         "Runs sequential Put/Get/Has/Remove/Clear histories over unit and variable sizes (including zero-size and too-large values), limits 1..40 and Remove-then-access bursts against a reference LRU; after every call compares result, Len, Size, Has of every key, the callbacks fired by that call (evictions in exact LRU order) and the accounting hook. Residual F1 violations (>= 5 entries) are excused only via the counterfactual switch. Held = nothing beyond F1 on the listed executions.",
         "Trusts the reference LRU and the hooks cache.VerifCheck / heapq.VerifFixParent.",
         "DESIGN.md §5 C08, §4"),
 "C09": ("Go race detector over a stress workload without harness synchronisation; offline linearizability checking (porcupine) of recorded client-boundary histories against the reference LRU; in-flight counter proxy on the Store (serialisation); exactly-once accounting over the eviction log; Size<=limit probes under the cache lock",
         "Runs tens of thousands of short concurrent histories (2-4 goroutines, 3-5 shared keys, GOMAXPROCS 1/2/4/16, injected yields) and checks each for linearizability, serialised store access, exactly-once eviction reports after a final Clear and Size <= limit, plus stress rounds of 2-8 goroutines under the race detector with a concurrent observer. Held = no race report, no illegal history, no accounting discrepancy in the interleavings that were observed (their number is in the evidence).",
         "Trusts porcupine v1.3.0, the Go race detector, and the reference LRU; says nothing about schedules the Go scheduler did not produce.",
         "DESIGN.md §5 C09"),
 "C10": ("reference-model monitors (slices; list cursors modelled by predecessor identity; rings as cyclic id sequences compared with the documented Join/Pop results) after every operation; stale-cursor probes announced to a hang watchdog; exhaustive small ring configurations",
         "Runs stack, mlink.Queue, mlink.List (4-10 live cursors obtained through At/Last/End/Find, every edit method at every position, every cursor re-checked and every stale cursor probed with every method after each edit: must panic 'invalid cursor', not hang, not alter the list) and ring.Ring (every Join over every pair of elements of every configuration of <= 7 elements in <= 2 rings, random Join/Pop histories, bounded structural walks, At/Peek/Len/Each) against reference sequences. Held = no disagreement, no hang, on the listed executions.",
         "Trusts the slice/cycle reference models; a hang is decided by the worker's own heartbeat ticks (30 s of its running time without a completed step), not by wall-clock.",
         "DESIGN.md §5 C10"),
 "C11": ("interpreter oracle over the returned script (by offset and by address) + independent O(mn) LCS table + canonical-form checks; exhaustive enumeration of all pairs over small alphabets/lengths, random long pairs",
         "Every pair of sequences over alphabet 3 x length <= 7, alphabet 2 x length <= 9 and alphabet 4 x length <= 5 (13.7 M pairs in quick, ~10^8 more in thorough) plus random pairs up to length 400 is run through slice.EditScript; the script is executed against lhs/rhs by offset and by storage identity, its kept-element count compared with an independent LCS table, its canonical form and the immutability of the inputs checked. Held = no violation on the enumerated space (complete for the stated alphabets and lengths) and the sampled long pairs.",
         "Trusts the quadratic LCS reference and the interpreter.",
         "DESIGN.md §5 C11"),
 "C12": ("position-tagged elements (subsequence = strictly increasing positions) + quadratic reference optima; exhaustive small inputs under natural, reversed and non-unit ('wide') comparators; random large inputs",
         "All sequences over alphabet 4 x length <= 8, 3 x length <= 11, 2 x length <= 13 under three comparators for LIS/LNDS, all pairs over alphabet 2 x length <= 7 and 3 x length <= 5 for LCS/LCSFunc, plus random inputs to 1500 (5000 thorough): outputs must be subsequences by position, ordered strictly / non-strictly, of optimal length, with inputs untouched. Held = no violation on that space.",
         "Trusts the quadratic DP references.",
         "DESIGN.md §5 C12"),
 "C17": ("definitional oracles with guard-filled buffers and address checks; exhaustive enumeration of arguments for small sizes, including out-of-range and empty arguments; expected-panic monitoring",
         "Partition (every keep mask for n <= 16 on exact and windowed slices), Rotate (every n <= 64, every k in [-n-2,n+2] and far out of range), Chunks/Batches (every len <= 40 x n in [-1,len+3]), Head/Tail/Stripe/At/PtrAt are compared with their definitions; 'capacity-clipped' is checked by appending to each result and looking for clobbered cells; documented panics must occur and undocumented ones must not. Held = no violation on the enumerated arguments.",
         "Reads 'capacity-clipped' behaviourally (append cannot overwrite a cell outside the subslice).",
         "DESIGN.md §5 C17"),
 "C13": ("chunk interpreter (edits executed against Left[LStart,LEnd) / Right[RStart,REnd)) at three observation points, context-width and disjointness invariants, whole-patch application; exhaustive small inputs x all context sizes, random repetitive inputs",
         "For every pair of line sequences over small alphabets/lengths and every n in 0..5 (about 2.5 M triples in quick) plus random repetitive inputs, the chunks after New, after AddContext(n) and after Unify are interpreted line by line against both inputs, context widths, ordering, non-adjacency and the Left->Right replacement are checked, and Edits must stay untouched. Held = no violation on that space.",
         "Trusts the chunk interpreter written from the Chunk documentation.",
         "DESIGN.md §5 C13"),
 "C14": ("independent reference parsers and strict reference appliers for the normal, unified and context formats (line-counting, both line numbers checked); reader round trips compared with the reference parse; byte-identical re-formatting; external oracles GNU patch (applier) and GNU diff (generator); text-level signature for known finding F5",
         "Every rendering (Normal, Unified, Context; from New and from New.AddContext(n).Unify()) of tens of thousands of diffs over an adversarial line alphabet is parsed by reference parsers written from the format descriptions, must describe the original changes at the original ranges, and must turn Left into Right under strict appliers; Read/ReadUnified/ReadGitPatch must return the reference parse and re-format to identical bytes with names and timestamps preserved; a sample is applied with GNU patch and GNU diff output is fed to the readers. Unified read failures with an omitted count that match the F5 signature are KNOWN-FINDING; everything else is a VIOLATION.",
         "Trusts my reading of the GNU diffutils manual, GNU patch 2.7 / GNU diff 3.x as installed, and the F5 signature.",
         "DESIGN.md §5 C14, §4"),
 "C15": ("three independent oracles on the quoted text: the package's own Split, an independent XCU-2.2 scanner requiring every special byte to be quoted, and real shells (dash, bash +B) evaluating it in a bait directory; kept results re-verified later (pool aliasing); concurrent phase under the race detector; exhaustive short strings over a metacharacter alphabet and all single bytes",
         "Every single byte value alone and embedded, every string of length <= 3 over a 24-symbol alphabet of all shell metacharacters, and random lists/byte strings are quoted/joined; Split must invert, an independent scanner must find no unquoted special byte and recover the input, and dash and bash must obtain exactly the input as argument words in a directory where an unprotected glob/tilde/comment would change the result; Quote/Join calls are interleaved and results re-checked later; 8 goroutines repeat this under -race. Held = no disagreement on the enumerated space and samples.",
         "Trusts dash/bash as installed (LC_ALL=C, bash with +B) and the independent scanner.",
         "DESIGN.md §5 C15"),
 "C16": ("independent directly-coded reference tokenizer (with consumed offsets and situation coverage) compared with Split and with Scanner under every reader fragmentation and every Rest point; real shells on the inputs the statement covers; exhaustive strings over the tokenizer's byte classes; concurrent pooled use under the race detector",
         "Every byte string of length <= 7 over one representative byte per tokenizer class (960 k inputs), every byte value in several contexts and random longer inputs are tokenised by shell.Split and by Scanner over one-byte and random fragmentations, with Complete/Err/Each/Scanner.Split and Rest after every token, and compared with an independent tokenizer that must see all 42 (state, class) situations; complete metacharacter-free inputs without unquoted newlines are also split by dash and bash. Held = no disagreement on that space.",
         "Trusts the reference tokenizer (written from XCU 2.2 plus the package's documented treatment of backslash inside double quotes) and dash/bash as installed.",
         "DESIGN.md §5 C16"),
 "C18": ("bitmask reference over a 5-element universe; exhaustive enumeration of receiver/argument combinations including nil and empty operands and argument lists with repetitions; aliasing probes by mutating results and arguments; two-set histories",
         "All 34x34 operand pairs for the binary predicates and AddAll/RemoveAll, all receivers x all argument lists of length <= 3 for HasAll/HasAny/Add/Remove/New, all 0..3-operand Intersect combinations, and every constructor/accessor on every operand are compared with bit arithmetic; returned sets must be non-nil where promised and must not alias arguments; histories over two sets check both after every step. Held = no disagreement on the enumerated space.",
         "Trusts 5-bit mask arithmetic as the reference.",
         "DESIGN.md §5 C18"),
 "C19": ("invariant monitor after every Add of seeded runs (exact regime, Len <= size, Count = Len*2^j with j monotone, Reset) + seeded mean test with a 7-standard-error tolerance for unbiasedness",
         "24 000 seeded runs (sizes 2..64 and larger, streams below/at/far above capacity with repeats and Resets) are checked after every Add for the deterministic clauses; 16 statistical configurations (sizes 4,5,6 with 200 000 counters each; sizes 8,16,64 with 4 000 each) compare the mean of Count with the true distinct count. Verdict deterministic for a given VERIF_SEED. Held = clauses held at every checked Add and every mean within tolerance.",
         "CLT-based tolerance (7 SE + 0.2 % D); skewness is measured and reported; bias smaller than the tolerance is not detected; sizes 2-3 get deterministic clauses only.",
         "DESIGN.md §5 C19"),
 "C20": ("byte-loop oracles with guard bytes and end-of-allocation layouts at all 8 alignments, run plain, under -race (checkptr) and (thorough) under AddressSanitizer; definitional oracles for Trunc; order axioms of CompareNatural on all pairs and triples of short strings",
         "mbits: every length 0..16 x alignment x zero/non-zero pattern and structured/random patterns to length 40 in two memory layouts, with results compared to byte loops, guard bytes checked, and sanitizers watching for accesses that leave the allocation; mstr.Trunc on every string of <= 5 runes of mixed width x every n; CompareNatural: range, antisymmetry, transitivity on all triples of 259 strings, zero iff canonically equal, numeric order of digit runs. Held = no disagreement, no sanitizer report.",
         "An over-read that stays inside one allocation and does not change the answer is invisible; digit runs kept <= 18 digits.",
         "DESIGN.md §5 C20"),
 "C07": ("reference-model monitor (slice) after every operation; exhaustive short histories + scripted wrap/regrow scenarios + PRNG histories; internal-state reach counters via hook",
         "Runs the real queue.Queue against a slice reference and compares the full observable state (Len, IsEmpty, Front, Slice, Each, every Peek offset) after every single operation, over every history of bounded length for small preallocated sizes, scripted rotate-then-grow scenarios for every capacity 1..24 and head position, and tens of thousands of PRNG histories. Held = no divergence on the executions listed in the evidence file; nothing is proved beyond them.",
         "Trusts the slice reference model and the Go runtime. The VerifState hook feeds reach counters only.",
         "DESIGN.md §5 C07"),
}

WIDENED = " Since the seeded-change rounds the workload of every check also includes, where the API allows it: sizes around power-of-two and buffer thresholds up to tens of thousands, arguments at the ends of the int range, several comparator styles and element types, inputs that alias each other, sparse as well as dense observation, returned results re-verified after later calls, a concurrent phase under the race detector for functions that should be pure, verified calls interleaved with calls abandoned half-way (callbacks that panic, recovered by the caller), optional configuration left out, value patterns that look like other notations, repeated and re-entrant calls, read-only calls from inside scans, method values bound at construction, structs moved by value, quiescent instances read by many goroutines, a different P count per block, a second build of every worker for a 32-bit target (GOARCH=386), huge inputs and containers, dense sweeps over lengths and positions, callbacks that check what they are called with, element types whose == is not reflexive, arguments that share storage, other local time zones, readers that react to the consumer, independent instances busy at the same time, objects used again after reaching a terminal state, and documented no-op calls under open cursors (DESIGN.md 11.6-11.6h)."

def built(pid):
    return os.path.exists(os.path.join(ROOT, "harness", "props", pid.lower() + ".go"))

props = [json.loads(l) for l in open(os.path.join(ROOT, "properties.jsonl"))]
hook_commits = subprocess.run(["git", "-C", "/repo", "log", "--format=%H %s", "--grep=^verif hook"], capture_output=True, text=True).stdout.strip().splitlines()
man = {
 "version": 1,
 "setup_cmd": "./setup.sh",
 "hooks": {
  "guard": "verif",
  "enable": "go build -tags 'verif p<ID>' in /verif/harness, whose go.mod has `replace github.com/creachadair/mds => /repo`; every check rebuilds the worker this way from /repo's current working tree",
  "baseline_off_cmd": "cd /repo && GOFLAGS=-mod=mod GOPROXY=off GOSUMDB=off GOTOOLCHAIN=local go test -json -vet=off -count=1 -timeout 25m ./...",
  "source_commits": [c.split()[0] for c in hook_commits],
  "add_only": True,
 },
 "engines": [
  {"name": "vcheck", "path": "harness/cmd/vcheck", "serves_properties": [p["id"] for p in props if p["id"] in CHECKS and built(p["id"])],
   "kind_free_text": "driver: rebuilds the worker from /repo (tags verif,p<ID>; flavours plain/-race/-asan/-cover), runs blocks of cases in child processes, heartbeat-based crash and hang pinning, known-finding classification, evidence writer"},
  {"name": "worker", "path": "harness/cmd/worker", "serves_properties": [p["id"] for p in props if p["id"] in CHECKS and built(p["id"])],
   "kind_free_text": "runtime monitors: reference models checked after every operation, invariant hooks, offline history checkers (porcupine), external oracles (dash, bash, GNU patch/diff)"},
 ],
 "checks": [],
 "not_applicable": [],
 "notes": "Technique family: runtime monitoring and sanitizers. Every verdict is 'held on the executions listed in the evidence file'. Exit 0 held / 1 violated (VIOLATION lines) / 2 inconclusive (INCONCLUSIVE lines, never a VIOLATION). known_findings.json lists genuine defects: open ones print KNOWN-FINDING lines, fixed ones suppress nothing.",
}
for p in props:
    pid = p["id"]
    if pid in CHECKS and built(pid):
        tech, text, note, ref = CHECKS[pid]
        man["checks"].append({
            "property_id": pid,
            "quick_cmd": "./check %s --tier quick" % pid,
            "thorough_cmd": "./check %s --tier thorough" % pid,
            "evidence_file": "/verif/evidence/%s.json" % pid,
            "replay_cmd_template": "./check %s --replay {path}" % pid,
            "engine": "vcheck",
            "level_claimed": {"category": "exploration", "text": text + WIDENED, "design_ref": ref + ", 11.6"},
            "level_note": note,
            "technique": tech,
        })
    else:
        man["not_applicable"].append({"property_id": pid, "reason": "monitor not built yet in this session (planned in DESIGN.md §5; runtime monitoring applies to it)"})
json.dump(man, open(os.path.join(ROOT, "MANIFEST.json"), "w"), indent=1)
print("checks:", [c["property_id"] for c in man["checks"]])
