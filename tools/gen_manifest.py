#!/usr/bin/env python3
"""Regenerates /verif/MANIFEST.json from the table below. A property is listed
under checks only once its monitor exists in harness/props; the rest are listed
under not_applicable with the reason "not built yet"."""
import json, os, subprocess
ROOT = os.path.dirname(os.path.dirname(os.path.abspath(__file__)))

CHECKS = {
 # id: (technique, level text, level note, design ref)
 "C07": ("reference-model monitor (slice) after every operation; exhaustive short histories + scripted wrap/regrow scenarios + PRNG histories; internal-state reach counters via hook",
         "Runs the real queue.Queue against a slice reference and compares the full observable state (Len, IsEmpty, Front, Slice, Each, every Peek offset) after every single operation, over every history of bounded length for small preallocated sizes, scripted rotate-then-grow scenarios for every capacity 1..24 and head position, and tens of thousands of PRNG histories. Held = no divergence on the executions listed in the evidence file; nothing is proved beyond them.",
         "Trusts the slice reference model and the Go runtime. The VerifState hook feeds reach counters only.",
         "DESIGN.md §5 C07"),
}

def built(pid):
    return os.path.exists(os.path.join(ROOT, "harness", "props", pid.lower() + ".go"))

props = [json.loads(l) for l in open(os.path.join(ROOT, "properties.jsonl"))]
hook_commits = subprocess.run(["git", "-C", "/repo", "log", "--format=%H %s", "--grep=^verif hook"], capture_output=True, text=True).stdout.strip().splitlines()
man = {
 "version": 1,
 "setup_cmd": "./setup.sh",
 "hooks": {
  "guard": "verif",
  "enable": "go build -tags 'verif p<ID>' in /verif/harness, whose go.mod has `replace github.com/creachadair/mds => /repo`; every check rebuilds the worker this way from /repo's current working tree",
  "baseline_off_cmd": "cd /repo && GOFLAGS=-mod=mod GOPROXY=off GOSUMDB=off GOTOOLCHAIN=local go test -json -vet=off -count=1 -timeout 25m ./...",
  "source_commits": [c.split()[0] for c in hook_commits],
  "add_only": True,
 },
 "engines": [
  {"name": "vcheck", "path": "harness/cmd/vcheck", "serves_properties": [p["id"] for p in props if p["id"] in CHECKS and built(p["id"])],
   "kind_free_text": "driver: rebuilds the worker from /repo (tags verif,p<ID>; flavours plain/-race/-asan/-cover), runs blocks of cases in child processes, heartbeat-based crash and hang pinning, known-finding classification, evidence writer"},
  {"name": "worker", "path": "harness/cmd/worker", "serves_properties": [p["id"] for p in props if p["id"] in CHECKS and built(p["id"])],
   "kind_free_text": "runtime monitors: reference models checked after every operation, invariant hooks, offline history checkers (porcupine), external oracles (dash, bash, GNU patch/diff)"},
 ],
 "checks": [],
 "not_applicable": [],
 "notes": "Technique family: runtime monitoring and sanitizers. Every verdict is 'held on the executions listed in the evidence file'. Exit 0 held / 1 violated (VIOLATION lines) / 2 inconclusive (INCONCLUSIVE lines, never a VIOLATION). known_findings.json lists genuine defects: open ones print KNOWN-FINDING lines, fixed ones suppress nothing.",
}
for p in props:
    pid = p["id"]
    if pid in CHECKS and built(pid):
        tech, text, note, ref = CHECKS[pid]
        man["checks"].append({
            "property_id": pid,
            "quick_cmd": "./check %s --tier quick" % pid,
            "thorough_cmd": "./check %s --tier thorough" % pid,
            "evidence_file": "/verif/evidence/%s.json" % pid,
            "replay_cmd_template": "./check %s --replay {path}" % pid,
            "engine": "vcheck",
            "level_claimed": {"category": "exploration", "text": text, "design_ref": ref},
            "level_note": note,
            "technique": tech,
        })
    else:
        man["not_applicable"].append({"property_id": pid, "reason": "monitor not built yet in this session (planned in DESIGN.md §5; runtime monitoring applies to it)"})
json.dump(man, open(os.path.join(ROOT, "MANIFEST.json"), "w"), indent=1)
print("checks:", [c["property_id"] for c in man["checks"]])
