#!/bin/bash
# run_all.sh [tier]: run every registered check on /repo as it is, print one line per property.
cd /verif
tier=${1:-quick}
for id in $(python3 -c "import json;print(' '.join(c['property_id'] for c in json.load(open('MANIFEST.json'))['checks']))"); do
  t0=$(date +%s.%N)
  out=$(./check $id --tier $tier 2>&1); rc=$?
  t1=$(date +%s.%N)
  printf "%s rc=%d %.1fs  %s\n" $id $rc $(echo "$t1 - $t0" | bc) "$(echo "$out" | grep -c '^VIOLATION') viol, $(echo "$out" | grep -c '^KNOWN-FINDING') known, $(echo "$out" | grep -c '^INCONCLUSIVE') incon"
done
