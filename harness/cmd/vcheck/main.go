// Command vcheck is the driver of the monitoring harness. For one property it
// rebuilds the worker from /repo's current working tree (hooks enabled), runs
// the property's blocks in child processes, watches their progress logs for
// crashes and hangs, classifies what they report against known_findings.json,
// writes the evidence file and prints the verdict.
//
//	vcheck <ID> [--tier quick|thorough] [--replay <file>]
//
// Exit status: 0 held, 1 violated (VIOLATION lines on stdout), 2 inconclusive.
package main

import (
	"bufio"
	"bytes"
	"encoding/binary"
	"encoding/json"
	"fmt"
	"os"
	"os/exec"
	"path/filepath"
	"sort"
	"strconv"
	"strings"
	"sync"
	"syscall"
	"time"
)

type violation struct {
	Prop    string `json:"property"`
	Kind    string `json:"kind"`
	Flavour string `json:"flavour"`
	Tier    string `json:"tier"`
	Seed    uint64 `json:"seed"`
	Block   int    `json:"block"`
	Index   int    `json:"index"`
	Case    any    `json:"case"`
	Detail  string `json:"detail"`
	Known   string `json:"known,omitempty"`
}

type result struct {
	Prop         string           `json:"property"`
	Flavour      string           `json:"flavour"`
	Blocks       []int            `json:"blocks"`
	Evaluations  int64            `json:"evaluations"`
	EnumDistinct int64            `json:"enum_distinct"`
	Counters     map[string]int64 `json:"counters"`
	Samples      []any            `json:"samples"`
	Notes        []string         `json:"notes"`
	Inconclusive []string         `json:"inconclusive"`
	HashFile     string           `json:"hash_file"`
	NHashes      int              `json:"n_hashes"`
}

type meta struct {
	ID           string   `json:"id"`
	Flavours     []string `json:"flavours"`
	Blocks       int      `json:"blocks"`
	Procs        int      `json:"procs"`
	Rule         string   `json:"rule"`
	Required     []string `json:"required"`
	Exhaustive   bool     `json:"exhaustive"`
	Assumptions  []string `json:"assumptions"`
	CoverPkgs    []string `json:"cover_pkgs"`
	CoverAnchors []string `json:"cover_anchors"`
	HangTicks    int      `json:"hang_ticks"`
}

type finding struct {
	ID         string   `json:"id"`
	Status     string   `json:"status"` // open | fixed
	Properties []string `json:"properties"`
	Site       string   `json:"site"`
	What       string   `json:"what"`
	Commit     string   `json:"commit,omitempty"`
	Witness    any      `json:"witness,omitempty"`
	Note       string   `json:"note,omitempty"`
}

var (
	root     = "/verif"
	buildDir string
	goEnv    []string
	outRoot  string // where evidence/ and replays/ are written (root, unless a scratch repo is being checked)
	modfile  string // alternative go.mod pointing at a scratch copy of the repository (VERIF_REPO), else ""
)

func main() {
	if r := os.Getenv("VERIF_ROOT"); r != "" {
		root = r
	}
	args := os.Args[1:]
	if len(args) < 1 {
		fmt.Fprintln(os.Stderr, "usage: vcheck <ID> [--tier quick|thorough] [--replay file]")
		os.Exit(2)
	}
	id := args[0]
	tier := os.Getenv("VERIF_TIER")
	if tier == "" {
		tier = "quick"
	}
	replay := ""
	for i := 1; i < len(args); i++ {
		switch args[i] {
		case "--tier":
			i++
			if i < len(args) {
				tier = args[i]
			}
		case "--replay":
			i++
			if i < len(args) {
				replay = args[i]
			}
		default:
			fmt.Fprintln(os.Stderr, "vcheck: unknown argument", args[i])
			os.Exit(2)
		}
	}
	if tier != "quick" && tier != "thorough" {
		fmt.Fprintln(os.Stderr, "vcheck: tier must be quick or thorough")
		os.Exit(2)
	}
	seed := uint64(1)
	if s := os.Getenv("VERIF_SEED"); s != "" {
		if v, err := strconv.ParseUint(s, 10, 64); err == nil {
			seed = v
		} else if v, err := strconv.ParseInt(s, 10, 64); err == nil {
			seed = uint64(v)
		}
	}

	buildDir = filepath.Join(root, ".build", fmt.Sprintf("%d", os.Getpid()))
	if err := os.MkdirAll(buildDir, 0o755); err != nil {
		fmt.Fprintln(os.Stderr, "vcheck:", err)
		os.Exit(2)
	}
	goEnv = append(os.Environ(),
		"GOFLAGS=-mod=mod", "GOPROXY=off", "GOSUMDB=off", "GOTOOLCHAIN=local", "GONOSUMDB=*", "GONOSUMCHECK=1", "GOWORK=off")

	outRoot = root
	if alt := os.Getenv("VERIF_REPO"); alt != "" && alt != "/repo" {
		// Checking a scratch copy of the repository (used only for validating
		// the monitors against seeded changes; registered commands never set
		// this). Results go to a scratch directory so that the committed
		// evidence is not touched.
		data, err := os.ReadFile(filepath.Join(root, "harness", "go.mod"))
		if err != nil {
			fmt.Fprintln(os.Stderr, "vcheck:", err)
			os.Exit(2)
		}
		mod := strings.Replace(string(data), "=> /repo", "=> "+alt, 1)
		modfile = filepath.Join(buildDir, "alt.mod")
		os.WriteFile(modfile, []byte(mod), 0o644)
		sum, _ := os.ReadFile(filepath.Join(root, "harness", "go.sum"))
		os.WriteFile(filepath.Join(buildDir, "alt.sum"), sum, 0o644)
		outRoot = os.Getenv("VERIF_OUT")
		if outRoot == "" {
			outRoot = filepath.Join(os.TempDir(), fmt.Sprintf("verif-out-%d", os.Getpid()))
		}
		os.MkdirAll(outRoot, 0o755)
	}

	if o := os.Getenv("VERIF_OUT"); o != "" && modfile == "" {
		// seed sweeps on the unchanged tree: keep the committed evidence untouched
		outRoot = o
		os.MkdirAll(outRoot, 0o755)
	}

	code := 2
	func() {
		defer os.RemoveAll(buildDir)
		if replay != "" {
			code = doReplay(id, replay)
		} else {
			code = doCheck(id, tier, seed)
		}
	}()
	os.Exit(code)
}

// ---------------------------------------------------------------------------
// building

var builtMu sync.Mutex
var built = map[string]string{}

func flavourFlags(fl string, m *meta) []string {
	switch fl {
	case "race":
		return []string{"-race"}
	case "asan":
		return []string{"-asan"}
	case "cover":
		pk := "github.com/creachadair/mds/..."
		if m != nil && len(m.CoverPkgs) > 0 {
			pk = strings.Join(m.CoverPkgs, ",")
		}
		return []string{"-cover", "-coverpkg=verif/harness/cmd/worker," + pk}
	}
	return nil
}

func buildWorker(id, fl string, m *meta) (string, string, error) {
	builtMu.Lock()
	defer builtMu.Unlock()
	if p, ok := built[fl]; ok {
		return p, "", nil
	}
	out := filepath.Join(buildDir, "worker-"+fl)
	args := []string{"build", "-tags", "verif p" + id}
	if modfile != "" {
		args = append(args, "-modfile="+modfile)
	}
	args = append(args, flavourFlags(fl, m)...)
	args = append(args, "-o", out, "./cmd/worker")
	cmd := exec.Command("go", args...)
	cmd.Dir = filepath.Join(root, "harness")
	cmd.Env = goEnv
	if fl == "386" {
		// the same monitors in a 32-bit build (int, uintptr and alignment of
		// 64-bit fields differ): the only other target this machine can run
		cmd.Env = append(append([]string(nil), goEnv...), "GOARCH=386", "CGO_ENABLED=0")
	}
	var buf bytes.Buffer
	cmd.Stdout, cmd.Stderr = &buf, &buf
	if err := cmd.Run(); err != nil {
		return "", buf.String(), err
	}
	built[fl] = out
	return out, buf.String(), nil
}

func getMeta(bin, id, tier string) (*meta, error) {
	cmd := exec.Command(bin, "-prop", id, "-tier", tier, "-meta")
	out, err := cmd.Output()
	if err != nil {
		return nil, fmt.Errorf("worker -meta: %v", err)
	}
	var m meta
	if err := json.Unmarshal(out, &m); err != nil {
		return nil, err
	}
	if m.Procs <= 0 {
		m.Procs = 16
	}
	if m.Blocks <= 0 {
		m.Blocks = 1
	}
	if len(m.Flavours) == 0 {
		m.Flavours = []string{"plain"}
	}
	return &m, nil
}

// ---------------------------------------------------------------------------
// running workers

type runOutcome struct {
	results     []result
	violations  []violation
	incon       []string // reasons for an inconclusive verdict
	raceReports int
	asanReports int
}

type procSpec struct {
	bin       string
	id        string
	tier      string
	flavour   string
	seed      uint64
	blocks    []int
	trace     bool
	replay    int
	tag       string
	hangTicks int
}

type procResult struct {
	exitErr    error
	exitCode   int
	hung       bool
	stalled    bool // machine gave the process no CPU
	timedOut   bool
	curBlock   int    // block in progress when the process ended (-1 if none)
	lastCase   int    // last case index announced in trace mode (-1 if none)
	lastCall   string // last announced call in trace mode
	doneBlocks map[int]bool
	res        *result
	viols      []violation
	stderrTail string
	raceLog    string
	races      int
}

const defaultHangTicks = 300 // 30 s of the child's own running time without a completed step

func runProc(sp procSpec) procResult {
	prefix := filepath.Join(buildDir, sp.tag)
	bl := make([]string, len(sp.blocks))
	for i, b := range sp.blocks {
		bl[i] = strconv.Itoa(b)
	}
	args := []string{"-prop", sp.id, "-tier", sp.tier, "-flavour", sp.flavour, "-seed", strconv.FormatUint(sp.seed, 10),
		"-blocks", strings.Join(bl, ","), "-out", prefix}
	if sp.trace {
		args = append(args, "-trace")
	}
	if sp.replay >= 0 {
		args = append(args, "-replay-index", strconv.Itoa(sp.replay))
	}
	cmd := exec.Command(sp.bin, args...)
	cmd.Env = append(os.Environ(), "GOTRACEBACK=all")
	if sp.flavour == "race" {
		cmd.Env = append(cmd.Env, "GORACE=halt_on_error=0 log_path="+prefix+".race history_size=3")
	}
	if sp.flavour == "asan" {
		cmd.Env = append(cmd.Env, "ASAN_OPTIONS=halt_on_error=1:abort_on_error=0:detect_leaks=0")
	}
	if sp.flavour == "cover" {
		cd := prefix + ".cov"
		os.MkdirAll(cd, 0o755)
		cmd.Env = append(cmd.Env, "GOCOVERDIR="+cd)
	}
	cmd.Dir = buildDir
	errFile, _ := os.Create(prefix + ".stderr")
	cmd.Stdout, cmd.Stderr = errFile, errFile
	cmd.SysProcAttr = &syscall.SysProcAttr{Setpgid: true}
	pr := procResult{curBlock: -1, lastCase: -1, doneBlocks: map[int]bool{}}
	if err := cmd.Start(); err != nil {
		pr.exitErr = err
		pr.exitCode = -1
		return pr
	}
	done := make(chan error, 1)
	go func() { done <- cmd.Wait() }()

	hangTicks := sp.hangTicks
	if hangTicks <= 0 {
		hangTicks = defaultHangTicks
	}
	wallLimit := 40 * time.Minute
	if sp.tier == "thorough" {
		wallLimit = 6 * time.Hour
	}
	start := time.Now()
	var off int64
	var partial string
	lastTick, lastProgTick := 0, 0
	var lastCases, lastSteps int64 = -1, -1
	var cpuNow, cpuAtProg int64
	lastTickWall := time.Now()
	scan := func() {
		f, err := os.Open(prefix + ".progress")
		if err != nil {
			return
		}
		defer f.Close()
		f.Seek(off, 0)
		data := make([]byte, 1<<20)
		for {
			n, _ := f.Read(data)
			if n == 0 {
				break
			}
			off += int64(n)
			s := partial + string(data[:n])
			lines := strings.Split(s, "\n")
			partial = lines[len(lines)-1]
			for _, ln := range lines[:len(lines)-1] {
				if ln == "" {
					continue
				}
				switch ln[0] {
				case 'S':
					pr.curBlock, _ = strconv.Atoi(strings.TrimSpace(ln[1:]))
					pr.lastCase, pr.lastCall = -1, ""
					lastProgTick = lastTick
				case 'E':
					b, _ := strconv.Atoi(strings.TrimSpace(ln[1:]))
					pr.doneBlocks[b] = true
					pr.curBlock = -1
					lastProgTick = lastTick
				case 'C':
					f := strings.Fields(ln)
					if len(f) == 3 {
						pr.lastCase, _ = strconv.Atoi(f[2])
						pr.lastCall = ""
					}
				case 'K':
					pr.lastCall = ln[2:]
				case 'H':
					f := strings.Fields(ln)
					if len(f) >= 5 {
						t, _ := strconv.Atoi(f[1])
						cs, _ := strconv.ParseInt(f[2], 10, 64)
						st, _ := strconv.ParseInt(f[3], 10, 64)
						or, _ := strconv.Atoi(f[4])
						if len(f) >= 6 {
							cpuNow, _ = strconv.ParseInt(f[5], 10, 64)
						}
						lastTick = t
						lastTickWall = time.Now()
						if cs != lastCases || st != lastSteps || or > 0 {
							lastCases, lastSteps = cs, st
							lastProgTick = t
							cpuAtProg = cpuNow
						}
					}
				}
			}
		}
	}
	kill := func() {
		// SIGQUIT first so that the goroutine dump lands in the stderr file.
		syscall.Kill(-cmd.Process.Pid, syscall.SIGQUIT)
		select {
		case <-done:
		case <-time.After(5 * time.Second):
			syscall.Kill(-cmd.Process.Pid, syscall.SIGKILL)
			<-done
		}
	}
	tk := time.NewTicker(200 * time.Millisecond)
	defer tk.Stop()
loop:
	for {
		select {
		case err := <-done:
			pr.exitErr = err
			break loop
		case <-tk.C:
			scan()
			// A hang: no monitored step completed while the worker was alive
			// for hangTicks heartbeats AND burned >= 20 s of CPU (it was
			// running, not starved by other jobs on this machine); or, for a
			// worker that is blocked rather than spinning (a deadlock burns no
			// CPU), no step for four times as long.
			stuck := lastTick - lastProgTick
			if (stuck >= hangTicks && cpuNow-cpuAtProg >= 20000) || stuck >= 4*hangTicks {
				pr.hung = true
				kill()
				break loop
			}
			if time.Since(lastTickWall) > 10*time.Minute {
				pr.stalled = true
				kill()
				break loop
			}
			if time.Since(start) > wallLimit {
				pr.timedOut = true
				kill()
				break loop
			}
		}
	}
	scan()
	errFile.Close()
	if pr.exitErr != nil {
		if ee, ok := pr.exitErr.(*exec.ExitError); ok {
			pr.exitCode = ee.ExitCode()
		} else {
			pr.exitCode = -1
		}
	}
	if data, err := os.ReadFile(prefix + ".res.json"); err == nil {
		var r result
		if json.Unmarshal(data, &r) == nil {
			pr.res = &r
		}
	}
	if f, err := os.Open(prefix + ".viol.jsonl"); err == nil {
		sc := bufio.NewScanner(f)
		sc.Buffer(make([]byte, 1<<20), 1<<26)
		for sc.Scan() {
			var v violation
			if json.Unmarshal(sc.Bytes(), &v) == nil {
				pr.viols = append(pr.viols, v)
			}
		}
		f.Close()
	}
	if data, err := os.ReadFile(prefix + ".stderr"); err == nil {
		pr.stderrTail = tail(string(data), 6000)
	}
	// race detector logs: <prefix>.race.<pid>
	if matches, _ := filepath.Glob(prefix + ".race.*"); len(matches) > 0 {
		var sb strings.Builder
		for _, m := range matches {
			data, _ := os.ReadFile(m)
			pr.races += strings.Count(string(data), "WARNING: DATA RACE")
			if sb.Len() < 8000 {
				sb.WriteString(tail(string(data), 8000-sb.Len()))
			}
		}
		pr.raceLog = sb.String()
	}
	return pr
}

func tail(s string, n int) string {
	if len(s) <= n {
		return s
	}
	return "...\n" + s[len(s)-n:]
}

func head(s string, n int) string {
	if len(s) <= n {
		return s
	}
	return s[:n] + "\n..."
}

// runFlavour runs all blocks of one flavour and pins crashes and hangs.
func runFlavour(bin string, m *meta, id, tier, fl string, seed uint64, out *runOutcome) {
	nprocs := m.Procs
	if nprocs > m.Blocks {
		nprocs = m.Blocks
	}
	nblocks := m.Blocks
	if fl == "386" && nblocks >= 4 {
		// the 32-bit build is about integer widths, word size and alignment, not
		// about covering the case space a second time: a quarter of the blocks
		nblocks = m.Blocks / 4
	}
	assign := make([][]int, nprocs)
	for b := 0; b < nblocks; b++ {
		assign[b%nprocs] = append(assign[b%nprocs], b)
	}
	var mu sync.Mutex
	var wg sync.WaitGroup
	for w := 0; w < nprocs; w++ {
		wg.Add(1)
		go func(w int) {
			defer wg.Done()
			blocks := assign[w]
			gen := 0
			for len(blocks) > 0 {
				gen++
				sp := procSpec{bin: bin, id: id, tier: tier, flavour: fl, seed: seed, blocks: blocks, replay: -1,
					tag: fmt.Sprintf("%s-w%d-g%d", fl, w, gen), hangTicks: m.HangTicks}
				pr := runProc(sp)
				mu.Lock()
				out.violations = append(out.violations, pr.viols...)
				if pr.races > 0 {
					out.raceReports += pr.races
					out.violations = append(out.violations, violation{Prop: id, Kind: "race", Flavour: fl, Tier: tier, Seed: seed,
						Block: firstOr(blocks, -1), Index: -1, Case: map[string]any{"blocks": blocks},
						Detail: fmt.Sprintf("%d DATA RACE report(s) from the Go race detector:\n%s", pr.races, head(pr.raceLog, 6000))})
				}
				mu.Unlock()
				if pr.res != nil && pr.exitErr == nil && !pr.hung {
					mu.Lock()
					out.results = append(out.results, *pr.res)
					mu.Unlock()
					return
				}
				// The worker did not finish. Decide why.
				if pr.stalled || pr.timedOut {
					mu.Lock()
					why := "worker stopped getting CPU (no heartbeat for 10 min)"
					if pr.timedOut {
						why = "worker exceeded the wall-clock limit"
					}
					out.incon = append(out.incon, fmt.Sprintf("%s: %s in block %d", fl, why, pr.curBlock))
					mu.Unlock()
					return
				}
				bad := pr.curBlock
				if bad < 0 {
					// Died outside any block (startup or Finish): cannot attribute.
					mu.Lock()
					out.incon = append(out.incon, fmt.Sprintf("%s: worker exited abnormally outside a block (exit %d): %s", fl, pr.exitCode, tail(pr.stderrTail, 1500)))
					mu.Unlock()
					return
				}
				kind := "crash"
				if pr.hung {
					kind = "hang"
				}
				v := pinBlock(bin, m, id, tier, fl, seed, bad, kind, pr, fmt.Sprintf("%s-w%d-g%d-trace", fl, w, gen))
				mu.Lock()
				out.violations = append(out.violations, v...)
				mu.Unlock()
				if kind == "hang" && len(v) > 0 {
					// A hang costs a full watchdog period per block; the verdict
					// is already "violated", so do not pay it again for the
					// remaining blocks of this worker.
					return
				}
				// Carry on with the blocks after the bad one.
				var rest []int
				seen := false
				for _, b := range blocks {
					if b == bad {
						seen = true
						continue
					}
					if seen && !pr.doneBlocks[b] {
						rest = append(rest, b)
					}
				}
				// Results of blocks completed before the crash are lost (the
				// worker reports only at the end); re-run them too so that the
				// evidence counts are complete.
				for _, b := range blocks {
					if b == bad {
						break
					}
					rest = append(rest, b)
				}
				blocks = rest
			}
		}(w)
	}
	wg.Wait()
}

func firstOr(v []int, d int) int {
	if len(v) > 0 {
		return v[0]
	}
	return d
}

// pinBlock re-runs one block in trace mode to find the case at which the
// worker crashed or hung, and returns the resulting violation records.
func pinBlock(bin string, m *meta, id, tier, fl string, seed uint64, block int, kind string, first procResult, tag string) []violation {
	sp := procSpec{bin: bin, id: id, tier: tier, flavour: fl, seed: seed, blocks: []int{block}, trace: true, replay: -1, tag: tag, hangTicks: m.HangTicks}
	pr := runProc(sp)
	var out []violation
	out = append(out, pr.viols...)
	detail := func(p procResult, reproduced bool) string {
		var sb strings.Builder
		if kind == "hang" {
			fmt.Fprintf(&sb, "no monitored operation completed during %d heartbeat ticks while the worker consumed >= 20 s of CPU (or during %d ticks while blocked)", maxInt(m.HangTicks, defaultHangTicks), 4*maxInt(m.HangTicks, defaultHangTicks))
		} else {
			fmt.Fprintf(&sb, "worker process died (exit %d)", p.exitCode)
		}
		if p.lastCall != "" {
			fmt.Fprintf(&sb, "; in-flight call: %s", p.lastCall)
		}
		if !reproduced {
			sb.WriteString("; NOT reproduced when the block was re-run in trace mode")
		}
		sb.WriteString("\n--- output of the worker ---\n")
		sb.WriteString(tail(p.stderrTail, 5000))
		return sb.String()
	}
	if pr.hung || (pr.exitErr != nil && pr.res == nil) {
		k := kind
		if pr.hung {
			k = "hang"
		} else if kind == "hang" {
			k = "crash"
		}
		out = append(out, violation{Prop: id, Kind: k, Flavour: fl, Tier: tier, Seed: seed, Block: block, Index: pr.lastCase,
			Case: map[string]any{"in_flight_call": pr.lastCall}, Detail: detail(pr, true)})
		return out
	}
	if len(pr.viols) > 0 {
		return out
	}
	// Not reproduced: report the original event against the whole block.
	out = append(out, violation{Prop: id, Kind: kind, Flavour: fl, Tier: tier, Seed: seed, Block: block, Index: -1,
		Case: map[string]any{"note": "whole block"}, Detail: detail(first, false)})
	return out
}

func maxInt(a, b int) int {
	if a > b {
		return a
	}
	return b
}

// ---------------------------------------------------------------------------
// known findings

func loadFindings() ([]finding, error) {
	data, err := os.ReadFile(filepath.Join(root, "known_findings.json"))
	if err != nil {
		return nil, err
	}
	var f struct {
		Findings []finding `json:"findings"`
	}
	if err := json.Unmarshal(data, &f); err != nil {
		return nil, err
	}
	return f.Findings, nil
}

func openFinding(fs []finding, fid, prop string) *finding {
	for i := range fs {
		if fs[i].ID == fid && fs[i].Status == "open" {
			for _, p := range fs[i].Properties {
				if p == prop {
					return &fs[i]
				}
			}
		}
	}
	return nil
}

// ---------------------------------------------------------------------------
// check

func doCheck(id, tier string, seed uint64) int {
	start := time.Now()
	evPath := filepath.Join(outRoot, "evidence", id+".json")
	os.MkdirAll(filepath.Dir(evPath), 0o755)

	bin, log, err := buildWorker(id, "plain", nil)
	if err != nil {
		fmt.Printf("INCONCLUSIVE property=%s reason=worker does not build against the current /repo tree\n%s\n", id, log)
		writeEvidence(evPath, id, tier, seed, nil, &runOutcome{incon: []string{"worker build failed: " + head(log, 2000)}}, nil, 0, time.Since(start), nil)
		return 2
	}
	m, err := getMeta(bin, id, tier)
	if err != nil {
		fmt.Printf("INCONCLUSIVE property=%s reason=%v\n", id, err)
		return 2
	}
	out := &runOutcome{}
	flavourWall := map[string]float64{}
	var cover map[string]any
	for _, fl := range m.Flavours {
		t0 := time.Now()
		b := bin
		if fl != "plain" {
			b, log, err = buildWorker(id, fl, m)
			if err != nil {
				out.incon = append(out.incon, fmt.Sprintf("flavour %s does not build: %s", fl, head(log, 1500)))
				continue
			}
		}
		if fl == "cover" {
			cover = runCover(b, m, id, tier, seed, out)
		} else {
			runFlavour(b, m, id, tier, fl, seed, out)
		}
		flavourWall[fl] = time.Since(t0).Seconds()
	}

	findings, ferr := loadFindings()
	if ferr != nil {
		out.incon = append(out.incon, "cannot read known_findings.json: "+ferr.Error())
	}

	// Classify.
	var real []violation
	knownHits := map[string][]violation{}
	for _, v := range out.violations {
		if v.Known != "" && openFinding(findings, v.Known, id) != nil {
			knownHits[v.Known] = append(knownHits[v.Known], v)
			continue
		}
		real = append(real, v)
	}

	// Merge results.
	var evals, enum int64
	counters := map[string]int64{}
	maxCounters := map[string]bool{}
	var samples []any
	var notes []string
	hashes := map[uint64]struct{}{}
	nreal := 0
	for _, fl := range m.Flavours {
		if fl != "cover" {
			nreal++
		}
	}
	multi := nreal > 1
	for _, r := range out.results {
		if r.Flavour != m.Flavours[0] {
			// Other flavours repeat the same cases; count their evaluations
			// but not their distinct cases twice (the hash union handles it).
		}
		evals += r.Evaluations
		if r.Flavour == m.Flavours[0] {
			enum += r.EnumDistinct
		}
		for k, v := range r.Counters {
			if strings.HasPrefix(k, "max:") {
				maxCounters[k] = true
				if counters[k] < v {
					counters[k] = v
				}
			} else {
				if multi {
					counters[r.Flavour+"/"+k] += v
				}
				counters[k] += v
			}
		}
		if len(samples) < 6 {
			for _, s := range r.Samples {
				if len(samples) < 6 {
					samples = append(samples, s)
				}
			}
		}
		for _, n := range r.Inconclusive {
			out.incon = append(out.incon, r.Flavour+": "+n)
		}
		for _, n := range r.Notes {
			if len(notes) < 20 {
				notes = append(notes, n)
			}
		}
		if data, err := os.ReadFile(r.HashFile); err == nil {
			for i := 0; i+8 <= len(data); i += 8 {
				hashes[binary.LittleEndian.Uint64(data[i:])] = struct{}{}
			}
		}
	}
	distinct := int64(len(hashes)) + enum

	// Required reach counters.
	if len(real) == 0 {
		for _, rq := range m.Required {
			if counters[rq] == 0 {
				out.incon = append(out.incon, fmt.Sprintf("required reach counter %q is zero", rq))
			}
		}
		if evals == 0 {
			out.incon = append(out.incon, "no case was executed")
		}
	}

	// Verdict and output.
	sort.SliceStable(real, func(i, j int) bool { return kindRank(real[i].Kind) < kindRank(real[j].Kind) })
	real = dedupe(real)
	code := 0
	os.MkdirAll(filepath.Join(outRoot, "replays"), 0o755)
	for i, v := range real {
		if i >= 5 {
			break
		}
		p := filepath.Join(outRoot, "replays", fmt.Sprintf("%s-%s-seed%d-%d.json", id, tier, seed, i))
		data, _ := json.MarshalIndent(v, "", " ")
		os.WriteFile(p, data, 0o644)
		fmt.Printf("VIOLATION property=%s replay=%s\n", id, p)
		fmt.Printf("  kind=%s flavour=%s block=%d index=%d\n  %s\n", v.Kind, v.Flavour, v.Block, v.Index, indent(head(v.Detail, 1500)))
		code = 1
	}
	var kfIDs []string
	for k := range knownHits {
		kfIDs = append(kfIDs, k)
	}
	sort.Strings(kfIDs)
	knownSummary := map[string]any{}
	for _, k := range kfIDs {
		f := openFinding(findings, k, id)
		n := counters["known:"+k]
		if n == 0 {
			n = int64(len(knownHits[k]))
		}
		w := knownHits[k][0]
		wj, _ := json.Marshal(w.Case)
		for _, x := range knownHits[k][1:] {
			if xj, _ := json.Marshal(x.Case); len(xj) < len(wj) {
				w, wj = x, xj
			}
		}
		what := f.What
		if i := strings.Index(what, ". "); i > 0 {
			what = what[:i+1]
		}
		fmt.Printf("KNOWN-FINDING: property=%s %s %s: %s (%d occurrence(s) this run; e.g. %s)\n", id, k, f.Site, head(what, 300), n, head(string(wj), 400))
		knownSummary[k] = map[string]any{"occurrences": n, "example": w.Case, "detail": head(w.Detail, 500)}
	}
	if code == 0 && len(out.incon) > 0 {
		code = 2
		for _, r := range out.incon {
			fmt.Printf("INCONCLUSIVE property=%s reason=%s\n", id, strings.ReplaceAll(head(r, 800), "\n", " | "))
		}
	}
	if len(samples) == 0 {
		// A run that found violations early may not have reached its sampling
		// points: the violating cases are then the cases to show.
		for i, v := range real {
			if i < 3 {
				samples = append(samples, map[string]any{"block": v.Block, "index": v.Index, "case": v.Case, "violating": true})
			}
		}
	}
	wall := time.Since(start)
	extra := map[string]any{
		"counters": counters, "flavours": m.Flavours, "flavour_wall_s": flavourWall, "blocks": m.Blocks,
		"known_findings": knownSummary, "race_reports": out.raceReports, "notes": notes,
		"verdict": map[int]string{0: "held", 1: "violated", 2: "inconclusive"}[code],
	}
	if cover != nil {
		extra["statement_coverage"] = cover
	}
	if len(out.incon) > 0 {
		extra["inconclusive_reasons"] = out.incon
	}
	writeEvidence(evPath, id, tier, seed, m, out, samples, distinct, wall, extra)
	ev := evals
	switch code {
	case 0:
		fmt.Printf("HELD property=%s tier=%s seed=%d evaluations=%d distinct_nontrivial=%d flavours=%s wall=%.1fs\n", id, tier, seed, ev, distinct, strings.Join(m.Flavours, ","), wall.Seconds())
	case 1:
		fmt.Printf("VIOLATED property=%s tier=%s seed=%d violations=%d wall=%.1fs\n", id, tier, seed, len(real), wall.Seconds())
	}
	_ = ev
	return code
}

func kindRank(k string) int {
	switch k {
	case "oracle":
		return 0
	case "panic":
		return 1
	case "hang":
		return 2
	case "crash":
		return 3
	case "race":
		return 4
	}
	return 5
}

// dedupe keeps one violation per (kind, flavour, first line of detail).
func dedupe(vs []violation) []violation {
	seen := map[string]bool{}
	var out []violation
	for _, v := range vs {
		d := v.Detail
		if i := strings.IndexByte(d, '\n'); i >= 0 {
			d = d[:i]
		}
		k := v.Kind + "|" + d
		if len(k) > 160 {
			k = k[:160]
		}
		if seen[k] {
			continue
		}
		seen[k] = true
		out = append(out, v)
	}
	return out
}

func indent(s string) string { return strings.ReplaceAll(s, "\n", "\n  ") }

func writeEvidence(path, id, tier string, seed uint64, m *meta, out *runOutcome, samples []any, distinct int64, wall time.Duration, extra map[string]any) {
	var evals int64
	for _, r := range out.results {
		evals += r.Evaluations
	}
	cov := map[string]any{
		"evaluations":         evals,
		"distinct_nontrivial": distinct,
		"samples":             samples,
	}
	if samples == nil {
		cov["samples"] = []any{}
	}
	var assumptions []string
	if m != nil {
		cov["rule"] = m.Rule
		cov["exhaustive"] = m.Exhaustive
		assumptions = m.Assumptions
	} else {
		cov["rule"] = "(worker did not build)"
	}
	for k, v := range extra {
		cov[k] = v
	}
	nv := 0
	for _, v := range out.violations {
		if v.Known == "" {
			nv++
		}
	}
	if assumptions == nil {
		assumptions = []string{}
	}
	ev := map[string]any{
		"property_id": id,
		"tier":        tier,
		"seed":        int64(seed),
		"level":       "exploration",
		"coverage":    cov,
		"assumptions": assumptions,
		"wall_s":      float64(int(wall.Seconds()*10)) / 10,
		"violations":  nv,
	}
	data, _ := json.MarshalIndent(ev, "", " ")
	os.WriteFile(path, append(data, '\n'), 0o644)
}

// ---------------------------------------------------------------------------
// coverage flavour: one small block under -cover, per-file statement coverage

func runCover(bin string, m *meta, id, tier string, seed uint64, out *runOutcome) map[string]any {
	sp := procSpec{bin: bin, id: id, tier: "quick", flavour: "cover", seed: seed, blocks: []int{0}, replay: -1, tag: "cover-w0", hangTicks: m.HangTicks}
	pr := runProc(sp)
	out.violations = append(out.violations, pr.viols...)
	if pr.res == nil {
		return map[string]any{"error": "coverage run did not finish"}
	}
	covDir := filepath.Join(buildDir, "cover-w0.cov")
	cmd := exec.Command("go", "tool", "covdata", "func", "-i="+covDir)
	cmd.Env = goEnv
	cmd.Dir = filepath.Join(root, "harness")
	b, err := cmd.Output()
	if err != nil {
		return map[string]any{"error": "covdata: " + err.Error()}
	}
	funcs := map[string]float64{}
	var zero, partial []string
	for _, ln := range strings.Split(string(b), "\n") {
		// github.com/creachadair/mds/queue/queue.go:27:		Add		100.0%
		f := strings.Fields(ln)
		if len(f) != 3 || !strings.HasPrefix(f[0], "github.com/creachadair/mds/") {
			continue
		}
		loc := strings.TrimPrefix(f[0], "github.com/creachadair/mds/")
		file := loc
		if i := strings.IndexByte(loc, ':'); i >= 0 {
			file = loc[:i]
		}
		if strings.Contains(file, "verif_") {
			continue
		}
		name := file + ":" + f[1]
		if len(m.CoverAnchors) > 0 {
			ok := false
			for _, a := range m.CoverAnchors {
				if a == file || a == name {
					ok = true
				}
			}
			if !ok {
				continue
			}
		}
		pct, _ := strconv.ParseFloat(strings.TrimSuffix(f[2], "%"), 64)
		funcs[name] = pct
		if pct == 0 {
			zero = append(zero, name)
		} else if pct < 100 {
			partial = append(partial, fmt.Sprintf("%s %.1f%%", name, pct))
		}
	}
	sort.Strings(zero)
	sort.Strings(partial)
	return map[string]any{
		"what":                 "statement coverage of the anchored functions by block 0 of the quick workload, measured with go build -cover",
		"functions_measured":   len(funcs),
		"functions_zero":       zero,
		"functions_partial":    partial,
		"functions_full_count": len(funcs) - len(zero) - len(partial),
	}
}

// ---------------------------------------------------------------------------
// replay

func doReplay(id, path string) int {
	data, err := os.ReadFile(path)
	if err != nil {
		fmt.Fprintln(os.Stderr, "vcheck:", err)
		return 2
	}
	var v violation
	if err := json.Unmarshal(data, &v); err != nil {
		fmt.Fprintln(os.Stderr, "vcheck: bad replay file:", err)
		return 2
	}
	if v.Prop != id {
		fmt.Fprintf(os.Stderr, "vcheck: replay file is for property %s\n", v.Prop)
		return 2
	}
	bin, log, err := buildWorker(id, "plain", nil)
	if err != nil {
		fmt.Printf("INCONCLUSIVE property=%s reason=worker does not build\n%s\n", id, log)
		return 2
	}
	m, err := getMeta(bin, id, v.Tier)
	if err != nil {
		fmt.Printf("INCONCLUSIVE property=%s reason=%v\n", id, err)
		return 2
	}
	if v.Flavour != "plain" && v.Flavour != "" {
		bin, log, err = buildWorker(id, v.Flavour, m)
		if err != nil {
			fmt.Printf("INCONCLUSIVE property=%s reason=flavour %s does not build\n%s\n", id, v.Flavour, log)
			return 2
		}
	}
	fl := v.Flavour
	if fl == "" {
		fl = "plain"
	}
	sp := procSpec{bin: bin, id: id, tier: v.Tier, flavour: fl, seed: v.Seed, blocks: []int{v.Block}, trace: true, replay: v.Index, tag: "replay", hangTicks: m.HangTicks}
	pr := runProc(sp)
	findings, _ := loadFindings()
	bad := false
	for _, x := range pr.viols {
		if x.Known != "" && openFinding(findings, x.Known, id) != nil {
			fmt.Printf("KNOWN-FINDING: property=%s %s (replayed)\n", id, x.Known)
			continue
		}
		bad = true
		fmt.Printf("  kind=%s block=%d index=%d\n  %s\n", x.Kind, x.Block, x.Index, indent(head(x.Detail, 3000)))
	}
	if pr.races > 0 {
		bad = true
		fmt.Printf("  %d DATA RACE report(s)\n%s\n", pr.races, head(pr.raceLog, 3000))
	}
	if pr.hung || (pr.exitErr != nil && pr.res == nil) {
		bad = true
		fmt.Printf("  worker %s (exit %d) at case %d; in-flight call: %s\n%s\n", map[bool]string{true: "hung", false: "died"}[pr.hung], pr.exitCode, pr.lastCase, pr.lastCall, tail(pr.stderrTail, 3000))
	}
	if bad {
		fmt.Printf("VIOLATION property=%s replay=%s\n", id, path)
		return 1
	}
	fmt.Printf("REPLAY property=%s: the recorded case no longer violates the property on the current tree\n", id)
	return 0
}
