// Command worker runs the monitors of one property on a set of blocks. It is
// rebuilt from /repo's working tree (via the module replace) by the driver on
// every check, with the build tags "verif" and "p<ID>".
package main

import (
	"encoding/json"
	"flag"
	"fmt"
	"os"
	"strconv"
	"strings"

	"verif/harness/fw"
	_ "verif/harness/props"
)

func main() {
	var (
		prop    = flag.String("prop", "", "property id")
		tier    = flag.String("tier", "quick", "quick|thorough")
		flavour = flag.String("flavour", "plain", "build flavour this binary was built with")
		seed    = flag.Uint64("seed", 1, "VERIF_SEED")
		blocks  = flag.String("blocks", "", "comma-separated block numbers")
		out     = flag.String("out", "", "output file prefix")
		trace   = flag.Bool("trace", false, "write a progress line before every case and announced call")
		replay  = flag.Int("replay-index", -1, "run only this case index of the given block")
		meta    = flag.Bool("meta", false, "print the property's workload description as JSON and exit")
	)
	flag.Parse()
	p := fw.Lookup(*prop)
	if p == nil {
		fmt.Fprintf(os.Stderr, "worker: unknown property %q (built with: %v)\n", *prop, fw.IDs())
		os.Exit(3)
	}
	m := p.Meta(*tier)
	m.ID = p.ID
	if *meta {
		json.NewEncoder(os.Stdout).Encode(m)
		return
	}
	var bl []int
	for _, s := range strings.Split(*blocks, ",") {
		if s == "" {
			continue
		}
		n, err := strconv.Atoi(s)
		if err != nil {
			fmt.Fprintln(os.Stderr, "worker: bad block", s)
			os.Exit(3)
		}
		bl = append(bl, n)
	}
	w, err := fw.NewWorker(*prop, *tier, *flavour, *seed, *trace, *replay, *out)
	if err != nil {
		fmt.Fprintln(os.Stderr, "worker:", err)
		os.Exit(3)
	}
	for _, b := range bl {
		w.RunBlock(p, b, m.Blocks)
	}
	if err := w.Finish(bl); err != nil {
		fmt.Fprintln(os.Stderr, "worker:", err)
		os.Exit(3)
	}
}
