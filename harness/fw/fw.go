// Package fw is the worker-side runtime of the monitoring harness: it gives
// each property's monitors a deterministic per-case PRNG, records what they
// observed (cases, distinct non-trivial cases, reach counters, samples),
// writes violations to disk as soon as they are found, and keeps a progress
// log that the driver uses to pin crashes and hangs to a case.
package fw

import (
	"encoding/binary"
	"encoding/json"
	"fmt"
	"math/rand/v2"
	"os"
	"runtime"
	"runtime/debug"
	"sort"
	"strconv"
	"strings"
	"sync"
	"sync/atomic"
	"syscall"
	"time"
)

// A Violation is one witnessed failure of a property (or an occurrence of a
// known finding when Known is set).
type Violation struct {
	Prop    string `json:"property"`
	Kind    string `json:"kind"` // oracle | panic | crash | hang | race
	Flavour string `json:"flavour"`
	Tier    string `json:"tier"`
	Seed    uint64 `json:"seed"`
	Block   int    `json:"block"`
	Index   int    `json:"index"`
	Case    any    `json:"case"`
	Detail  string `json:"detail"`
	Known   string `json:"known,omitempty"` // id of the known finding this was attributed to
}

// Result is what a worker reports when it finishes its blocks.
type Result struct {
	Prop         string           `json:"property"`
	Flavour      string           `json:"flavour"`
	Blocks       []int            `json:"blocks"`
	Evaluations  int64            `json:"evaluations"`
	EnumDistinct int64            `json:"enum_distinct"`
	Counters     map[string]int64 `json:"counters"`
	Samples      []any            `json:"samples"`
	Notes        []string         `json:"notes,omitempty"`
	Inconclusive []string         `json:"inconclusive,omitempty"`
	HashFile     string           `json:"hash_file"`
	NHashes      int              `json:"n_hashes"`
}

// Meta describes a property's workload to the driver.
type Meta struct {
	ID           string   `json:"id"`
	Flavours     []string `json:"flavours"`   // build flavours for this tier: plain, race, asan
	Blocks       int      `json:"blocks"`     // number of blocks per flavour
	Procs        int      `json:"procs"`      // worker processes to run in parallel
	Rule         string   `json:"rule"`       // how cases are generated and what counts as distinct non-trivial
	Required     []string `json:"required"`   // reach counters that must be non-zero for a green verdict
	Exhaustive   bool     `json:"exhaustive"` // the run enumerates a finite space completely (plus random extras)
	Assumptions  []string `json:"assumptions"`
	CoverPkgs    []string `json:"cover_pkgs"`    // packages of interest for the coverage flavour
	CoverAnchors []string `json:"cover_anchors"` // "file" or "file:Func" entries (relative to the module) whose coverage is reported
	HangTicks    int      `json:"hang_ticks"`    // heartbeat ticks without progress that count as a hang (0 = default)
}

// A Property is the unit the worker knows how to run.
type Property struct {
	ID   string
	Meta func(tier string) Meta
	// Run executes block c.Block of the workload. Flavour-specific behaviour
	// is selected through c.Flavour.
	Run func(c *Ctx)
}

var registry = map[string]*Property{}

// Register makes p known to the worker.
func Register(p *Property) { registry[p.ID] = p }

// Lookup returns the registered property with the given id.
func Lookup(id string) *Property { return registry[id] }

// IDs returns the registered property ids.
func IDs() []string {
	var out []string
	for k := range registry {
		out = append(out, k)
	}
	sort.Strings(out)
	return out
}

const maxViolationsPerWorker = 8
const maxSamples = 6

// Ctx is handed to a property's Run function for one block.
type Ctx struct {
	Prop    string
	Tier    string
	Flavour string
	Seed    uint64
	Block   int
	NBlocks int

	w *Worker

	index  int
	rng    *rand.Rand
	inCase bool
}

// Worker holds per-process state shared by all blocks.
type Worker struct {
	Prop, Tier, Flavour string
	Seed                uint64
	Trace               bool
	ReplayIndex         int // -1 unless replaying one case
	OutPrefix           string

	mu       sync.Mutex
	prog     *os.File
	viol     *os.File
	nviol    int
	nknown   map[string]int
	evals    int64
	enum     int64
	counters map[string]int64
	hashes   map[uint64]struct{}
	samples  []any
	notes    []string
	incon    []string
	cases    atomic.Int64
	steps    atomic.Int64
	oracle   atomic.Int32
	stopBeat chan struct{}
	beatDone chan struct{}
}

// NewWorker opens the output files and starts the heartbeat.
func NewWorker(prop, tier, flavour string, seed uint64, trace bool, replayIndex int, outPrefix string) (*Worker, error) {
	w := &Worker{
		Prop: prop, Tier: tier, Flavour: flavour, Seed: seed, Trace: trace,
		ReplayIndex: replayIndex, OutPrefix: outPrefix,
		counters: map[string]int64{}, hashes: map[uint64]struct{}{}, nknown: map[string]int{},
		stopBeat: make(chan struct{}), beatDone: make(chan struct{}),
	}
	var err error
	w.prog, err = os.OpenFile(outPrefix+".progress", os.O_CREATE|os.O_WRONLY|os.O_APPEND, 0o644)
	if err != nil {
		return nil, err
	}
	w.viol, err = os.OpenFile(outPrefix+".viol.jsonl", os.O_CREATE|os.O_WRONLY|os.O_APPEND, 0o644)
	if err != nil {
		return nil, err
	}
	go w.heartbeat()
	return w, nil
}

func (w *Worker) progress(line string) {
	// One write call per line; O_APPEND keeps lines whole.
	w.prog.WriteString(line + "\n")
}

func (w *Worker) heartbeat() {
	defer close(w.beatDone)
	t := time.NewTicker(100 * time.Millisecond)
	defer t.Stop()
	tick := 0
	for {
		select {
		case <-w.stopBeat:
			return
		case <-t.C:
			tick++
			w.progress(fmt.Sprintf("H %d %d %d %d %d", tick, w.cases.Load(), w.steps.Load(), w.oracle.Load(), cpuMillis()))
		}
	}
}

// cpuMillis returns the CPU time (user+system) this process has consumed.
func cpuMillis() int64 {
	var ru syscall.Rusage
	if err := syscall.Getrusage(syscall.RUSAGE_SELF, &ru); err != nil {
		return 0
	}
	return (int64(ru.Utime.Sec)+int64(ru.Stime.Sec))*1000 + (int64(ru.Utime.Usec)+int64(ru.Stime.Usec))/1000
}

// RunBlock runs one block of p.
func (w *Worker) RunBlock(p *Property, block, nblocks int) {
	c := &Ctx{Prop: w.Prop, Tier: w.Tier, Flavour: w.Flavour, Seed: w.Seed, Block: block, NBlocks: nblocks, w: w, index: -1}
	w.progress(fmt.Sprintf("S %d", block))
	// The number of Ps differs from block to block (the machine's own count for
	// every fourth block, otherwise 3, 5, 7, 6, 2 or 1): code that sizes its
	// work by GOMAXPROCS sees counts that are not powers of two as well.
	if procs := []int{0, 3, 5, 7, 0, 6, 2, 1}[block%8]; procs > 0 {
		old := runtime.GOMAXPROCS(procs)
		defer runtime.GOMAXPROCS(old)
	}
	p.Run(c)
	w.progress(fmt.Sprintf("E %d", block))
}

// Finish writes the result files.
func (w *Worker) Finish(blocks []int) error {
	close(w.stopBeat)
	<-w.beatDone
	w.mu.Lock()
	defer w.mu.Unlock()
	hf := w.OutPrefix + ".hashes"
	buf := make([]byte, 0, 8*len(w.hashes))
	for h := range w.hashes {
		buf = binary.LittleEndian.AppendUint64(buf, h)
	}
	if err := os.WriteFile(hf, buf, 0o644); err != nil {
		return err
	}
	res := Result{Prop: w.Prop, Flavour: w.Flavour, Blocks: blocks, Evaluations: w.evals, EnumDistinct: w.enum,
		Counters: w.counters, Samples: w.samples, Notes: w.notes, Inconclusive: w.incon, HashFile: hf, NHashes: len(w.hashes)}
	data, err := json.Marshal(res)
	if err != nil {
		return err
	}
	if err := os.WriteFile(w.OutPrefix+".res.json", data, 0o644); err != nil {
		return err
	}
	w.progress("D")
	w.prog.Close()
	w.viol.Close()
	return nil
}

// Thorough reports whether the thorough tier was requested.
func (c *Ctx) Thorough() bool { return c.Tier == "thorough" }

// Pick returns q in the quick tier and t in the thorough tier.
func (c *Ctx) Pick(q, t int) int {
	if c.Thorough() {
		return t
	}
	return q
}

// Stopped reports whether this worker has already recorded as many violations
// as it will report; monitors may return early.
func (c *Ctx) Stopped() bool {
	c.w.mu.Lock()
	defer c.w.mu.Unlock()
	return c.w.nviol >= maxViolationsPerWorker
}

// Begin starts case number index of this block. It returns false if the case
// must be skipped (a replay of a different case, or the worker has stopped).
// Case indices must be a deterministic function of (seed, tier, block).
func (c *Ctx) Begin(index int) bool {
	if c.w.ReplayIndex >= 0 && index != c.w.ReplayIndex {
		return false
	}
	if c.Stopped() {
		return false
	}
	c.index = index
	c.rng = nil
	c.inCase = true
	c.w.cases.Add(1)
	c.w.mu.Lock()
	c.w.evals++
	c.w.mu.Unlock()
	if c.w.Trace {
		c.w.progress(fmt.Sprintf("C %d %d", c.Block, index))
	}
	return true
}

// Evals adds n to the number of evaluations (for cases that bundle many
// inputs under one Begin).
func (c *Ctx) Evals(n int64) {
	c.w.mu.Lock()
	c.w.evals += n
	c.w.mu.Unlock()
}

// Fork returns a context for a goroutine that runs its own case concurrently
// with others of the same block: it shares the worker (counters, violation
// log, progress) but has its own case index and PRNG. The case is counted as
// begun. It returns nil if the case must be skipped (replay of another case).
func (c *Ctx) Fork(index int) *Ctx {
	if c.w.ReplayIndex >= 0 && index != c.w.ReplayIndex {
		return nil
	}
	cp := *c
	cp.index = index
	cp.rng = nil
	cp.inCase = true
	c.w.cases.Add(1)
	c.w.mu.Lock()
	c.w.evals++
	c.w.mu.Unlock()
	return &cp
}

// Index returns the index of the current case.
func (c *Ctx) Index() int { return c.index }

// Rng returns the PRNG of the current case: a PCG stream determined by
// (seed, property, block, case index) and nothing else.
func (c *Ctx) Rng() *rand.Rand {
	if c.rng == nil {
		h := NewH()
		h.Str(c.Prop)
		h.U64(c.Seed)
		h.Int(c.Block)
		s1 := h.Sum()
		h.Int(c.index)
		h.Str("case")
		c.rng = rand.New(rand.NewPCG(s1, h.Sum()))
	}
	return c.rng
}

// RngFor returns a PRNG for an auxiliary stream of the current block that is
// independent of case indices (e.g. for building shared fixtures).
func (c *Ctx) RngFor(label string) *rand.Rand {
	h := NewH()
	h.Str(c.Prop)
	h.U64(c.Seed)
	h.Int(c.Block)
	s1 := h.Sum()
	h.Str(label)
	return rand.New(rand.NewPCG(s1, h.Sum()))
}

// Step records that one monitored operation on the code under test completed;
// the hang watchdog looks at this counter.
func (c *Ctx) Step() { c.w.steps.Add(1) }

// Call announces, in trace mode, a call into the code under test that might
// not return, so that a hang can be pinned to it.
func (c *Ctx) Call(format string, args ...any) {
	if c.w.Trace {
		c.w.progress("K " + strings.ReplaceAll(fmt.Sprintf(format, args...), "\n", "\\n"))
	}
}

// Tracing reports whether the worker runs in trace mode.
func (c *Ctx) Tracing() bool { return c.w.Trace }

// Oracle marks the start (true) or end (false) of an oracle phase — a
// linearizability search, an external shell or patch batch — during which the
// hang rule does not apply.
func (c *Ctx) Oracle(on bool) {
	if on {
		c.w.oracle.Add(1)
	} else {
		c.w.oracle.Add(-1)
		c.w.steps.Add(1)
	}
}

// Add adds n to a named reach/event counter.
func (c *Ctx) Add(name string, n int64) {
	c.w.mu.Lock()
	c.w.counters[name] += n
	c.w.mu.Unlock()
}

// Max raises a named counter to at least n.
func (c *Ctx) Max(name string, n int64) {
	c.w.mu.Lock()
	if c.w.counters[name] < n {
		c.w.counters[name] = n
	}
	c.w.mu.Unlock()
}

// Seen records the 64-bit hash of a canonicalised case that is non-trivial by
// the property's rule.
func (c *Ctx) Seen(h uint64) {
	c.w.mu.Lock()
	c.w.hashes[h] = struct{}{}
	c.w.mu.Unlock()
}

// SeenEnum records n cases that are distinct by construction (part of an
// enumeration without repetition) and non-trivial by the property's rule.
func (c *Ctx) SeenEnum(n int64) {
	c.w.mu.Lock()
	c.w.enum += n
	c.w.mu.Unlock()
}

// Sample keeps v as a sample of the explored cases (the first few are kept).
func (c *Ctx) Sample(v any) {
	c.w.mu.Lock()
	if len(c.w.samples) < maxSamples {
		c.w.samples = append(c.w.samples, map[string]any{"block": c.Block, "index": c.index, "case": v})
	}
	c.w.mu.Unlock()
}

// WantSample reports whether another sample would be kept.
func (c *Ctx) WantSample() bool {
	c.w.mu.Lock()
	defer c.w.mu.Unlock()
	return len(c.w.samples) < maxSamples
}

// Note records a free-text remark for the evidence file.
func (c *Ctx) Note(format string, args ...any) {
	c.w.mu.Lock()
	if len(c.w.notes) < 20 {
		c.w.notes = append(c.w.notes, fmt.Sprintf(format, args...))
	}
	c.w.mu.Unlock()
}

// Inconclusive records a reason why this run cannot give a verdict (an oracle
// timed out, an external tool is missing). It never counts as a violation.
func (c *Ctx) Inconclusive(format string, args ...any) {
	c.w.mu.Lock()
	if len(c.w.incon) < 10 {
		c.w.incon = append(c.w.incon, fmt.Sprintf(format, args...))
	}
	c.w.mu.Unlock()
}

// Replaying reports whether the worker re-executes a single recorded case.
func (c *Ctx) Replaying() bool { return c.w.ReplayIndex >= 0 }

func (c *Ctx) record(kind, known string, caseData any, detail string) {
	v := Violation{Prop: c.Prop, Kind: kind, Flavour: c.Flavour, Tier: c.Tier, Seed: c.Seed,
		Block: c.Block, Index: c.index, Case: caseData, Detail: detail, Known: known}
	c.w.mu.Lock()
	defer c.w.mu.Unlock()
	if known != "" {
		c.w.nknown[known]++
		c.w.counters["known:"+known]++
		if c.w.nknown[known] > 3 {
			return // keep a few witnesses only
		}
	} else {
		if c.w.nviol >= maxViolationsPerWorker {
			return
		}
		c.w.nviol++
	}
	data, err := json.Marshal(v)
	if err != nil {
		v.Case = fmt.Sprintf("%+v", caseData)
		data, _ = json.Marshal(v)
	}
	c.w.viol.Write(append(data, '\n'))
}

// Fail records a violation of the property witnessed by the current case.
func (c *Ctx) Fail(caseData any, format string, args ...any) {
	c.record("oracle", "", caseData, fmt.Sprintf(format, args...))
}

// FailKind is Fail with an explicit kind (panic, race, ...).
func (c *Ctx) FailKind(kind string, caseData any, format string, args ...any) {
	c.record(kind, "", caseData, fmt.Sprintf(format, args...))
}

// Known records an occurrence of a known finding; the driver accepts it only
// if the finding is listed as open for this property.
func (c *Ctx) Known(finding string, caseData any, format string, args ...any) {
	c.record("oracle", finding, caseData, fmt.Sprintf(format, args...))
}

// Try runs f and converts a panic into an error string carrying the panic
// value and a trimmed stack. ok is true if f returned normally.
func Try(f func()) (ok bool, val any, stack string) {
	defer func() {
		if r := recover(); r != nil {
			ok, val = false, r
			stack = trimStack(string(debug.Stack()))
		}
	}()
	f()
	return true, nil, ""
}

func trimStack(s string) string {
	lines := strings.Split(s, "\n")
	var keep []string
	for _, l := range lines {
		if strings.Contains(l, "runtime/debug") || strings.Contains(l, "runtime/panic") {
			continue
		}
		keep = append(keep, l)
		if len(keep) >= 24 {
			break
		}
	}
	return strings.Join(keep, "\n")
}

// Panics runs f and reports whether it panicked and with what value.
func Panics(f func()) (panicked bool, val any) {
	defer func() {
		if r := recover(); r != nil {
			panicked, val = true, r
		}
	}()
	f()
	return false, nil
}

// Q quotes a byte string so that it survives JSON untouched.
func Q(s string) string { return strconv.Quote(s) }

// Qs quotes each string of ss.
func Qs(ss []string) []string {
	out := make([]string, len(ss))
	for i, s := range ss {
		out[i] = strconv.Quote(s)
	}
	return out
}

// H is a small incremental 64-bit hasher (FNV-1a with a final avalanche) used
// to count distinct cases.
type H struct{ h uint64 }

// NewH returns a hasher in its initial state.
func NewH() *H { return &H{h: 14695981039346656037} }

func (h *H) byte(b byte) { h.h = (h.h ^ uint64(b)) * 1099511628211 }

// U64 mixes in v.
func (h *H) U64(v uint64) {
	for i := 0; i < 8; i++ {
		h.byte(byte(v >> (8 * i)))
	}
}

// Int mixes in v.
func (h *H) Int(v int) { h.U64(uint64(int64(v))) }

// Str mixes in s and its length.
func (h *H) Str(s string) {
	h.U64(uint64(len(s)))
	for i := 0; i < len(s); i++ {
		h.byte(s[i])
	}
}

// Bytes mixes in b and its length.
func (h *H) Bytes(b []byte) {
	h.U64(uint64(len(b)))
	for _, x := range b {
		h.byte(x)
	}
}

// Ints mixes in vs and its length.
func (h *H) Ints(vs []int) {
	h.U64(uint64(len(vs)))
	for _, v := range vs {
		h.Int(v)
	}
}

// Sum returns the current hash value.
func (h *H) Sum() uint64 {
	x := h.h
	x ^= x >> 33
	x *= 0xff51afd7ed558ccd
	x ^= x >> 33
	x *= 0xc4ceb9fe1a85ec53
	x ^= x >> 33
	return x
}
