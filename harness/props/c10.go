//go:build pC10 || pall

package props

import (
	"fmt"
	"math/rand/v2"
	"strconv"
	"sync"

	"github.com/creachadair/mds/mlink"
	"github.com/creachadair/mds/ring"
	"github.com/creachadair/mds/stack"
	"verif/harness/fw"
)

// C10 — stack.Stack, mlink.Queue, mlink.List (edited through a population of
// cursors, including stale ones) and ring.Ring preserve their abstract
// sequences. References: slices; list cursors are modelled by the identity of
// the entry before their target; rings as cyclic sequences of unique ids that
// are compared with the documented results of Join/Pop.

func init() {
	fw.Register(&fw.Property{
		ID: "C10",
		Meta: func(tier string) fw.Meta {
			return fw.Meta{
				Flavours: []string{"plain", "race", "cover", "386"},
				Blocks:   16,
				Procs:    16,
				Rule: "four generators. Find's predicate notes its arguments: only elements of the list may be passed to it (none at all on an empty list). stack: histories of Push/Add/Pop/Clear with Len, IsEmpty, Top, Slice, Each (early stop), Peek(0..Len+1) after every op. mlink.Queue (zero value and NewQueue): Add/Pop/Clear incl. pop-to-empty-then-Add, with Len (constant-time counter) vs walked length, Front, Peek, Each. " +
					"Large containers: stack and list queue grown to 3000..12000 and to 262143..1.2 M elements (5 M thorough), shrunk, regrown and drained with constant-time checks on every step and full comparisons at the turning points. mlink.List: 20-60 edits through a population of 4-10 cursors obtained by At/Last/End/Find and moved by Next; Push/Add/Set/Remove/Truncate at any position incl. end-of-list, list Clear; after EVERY edit every cursor is re-checked (Get, AtEnd vs the model) and stale cursors are probed with every method: each must panic \"invalid cursor\" and leave Each unchanged (each probe is announced so that a hang is pinned to it). " +
					"ring: exhaustive Join over every pair of elements of every configuration of <= 7 elements in <= 2 rings (same ring at every distance, different rings, singletons) and random Of/New/Join/Pop histories over a pool of nodes; after every op a bounded structural walk (Next/Prev mutually inverse, cycles close at their length), the cycles compared with the documented result, At/Peek for every offset |n| != len in [-len-1,len+1], Len, Each with early stop. " +
					"distinct = hash of the history; non-trivial = list history that created at least one stale cursor / ring case whose Join changed the cycles",
				Required:     []string{"stack_steps", "queue_steps", "queue_add_after_pop_to_empty", "list_edits", "stale_probes", "stale_truncate_probes", "truncate_then_add_at_end", "set_at_end", "ring_join_same_ring", "ring_join_different_rings", "ring_join_noop", "ring_pops", "ring_exhaustive_cases", "large_histories", "sparse_observation_list_histories", "concurrent_instance_histories", "very_large_containers", "huge_lists_discarded_in_one_call", "find_calls_with_predicate_arguments_checked"},
				Exhaustive:   true,
				Assumptions:  []string{"ring.At(n)/Peek(n) for |n| == Len is not constrained (doc comment and code disagree; the property is silent)", "Cursor.Add with no values is a no-op and is not used as a stale probe"},
				CoverPkgs:    []string{"github.com/creachadair/mds/stack", "github.com/creachadair/mds/mlink", "github.com/creachadair/mds/ring"},
				CoverAnchors: []string{"stack/stack.go", "mlink/list.go", "mlink/queue.go", "mlink/mlink.go", "ring/ring.go"},
			}
		},
		Run: runC10,
	})
}

// ---------------------------------------------------------------- stack

func c10stack(c *fw.Ctx, r *rand.Rand) {
	var s *stack.Stack[int]
	if r.IntN(2) == 0 {
		s = stack.New[int]()
	} else {
		s = new(stack.Stack[int])
	}
	var ref []int // bottom .. top
	var log opLog
	next := 1
	fail := func(format string, args ...any) {
		c.Fail(map[string]any{"type": "stack.Stack", "ops": log.list()}, "after %d ops: %s", len(log.ops), fmt.Sprintf(format, args...))
	}
	n := 30 + r.IntN(200)
	for i := 0; i < n; i++ {
		switch x := r.IntN(10); {
		case x < 4:
			log.add("Push(%d)", next)
			s.Push(next)
			ref = append(ref, next)
			next++
		case x < 5:
			log.add("Add(%d)", next)
			s.Add(next)
			ref = append(ref, next)
			next++
		case x < 9:
			log.add("Pop")
			got, ok := s.Pop()
			wok := len(ref) > 0
			want := 0
			if wok {
				want = ref[len(ref)-1]
				ref = ref[:len(ref)-1]
			}
			if ok != wok || got != want {
				fail("Pop=(%d,%v) want (%d,%v)", got, ok, want, wok)
				return
			}
		default:
			if r.IntN(3) == 0 {
				log.add("Clear")
				s.Clear()
				ref = nil
			}
		}
		c.Step()
		c.Add("stack_steps", 1)
		rev := make([]int, len(ref))
		for j := range ref {
			rev[j] = ref[len(ref)-1-j]
		}
		top := 0
		if len(ref) > 0 {
			top = rev[0]
		}
		if s.Len() != len(ref) || s.IsEmpty() != (len(ref) == 0) || s.Top() != top {
			fail("Len=%d IsEmpty=%v Top=%d, want %d elements, top %d", s.Len(), s.IsEmpty(), s.Top(), len(ref), top)
			return
		}
		if sl := s.Slice(); !equalInts(sl, rev) || (len(ref) == 0 && sl != nil) {
			fail("Slice=%v want %v (newest first)", sl, rev)
			return
		} else {
			// the caller owns what Slice returned: scribbling over it must not reach the stack
			for i := range sl {
				sl[i] = -999
			}
			sl = append(sl, -998)
			_ = sl
		}
		if len(ref) > 0 && len(ref)%3 == 1 {
			// a scan abandoned half-way: the loop body panics, the caller recovers
			fw.Panics(func() {
				n := 0
				s.Each(func(int) bool {
					if n++; n > len(ref)/2 {
						panic("scan abandoned by its loop body")
					}
					return true
				})
			})
		}
		var each []int
		s.Each(func(v int) bool { each = append(each, v); return true })
		if !equalInts(each, rev) {
			fail("Each=%v want %v", each, rev)
			return
		}
		if len(ref) > 0 && len(ref) <= 40 {
			// read-only calls from inside the loop body of Each
			each = each[:0]
			inner := true
			s.Each(func(v int) bool {
				each = append(each, v)
				i := len(each) - 1
				if pv, ok := s.Peek(i); !ok || pv != rev[i] || s.Top() != rev[0] || s.Len() != len(rev) || !equalInts(s.Slice(), rev) {
					inner = false
				}
				return true
			})
			if !equalInts(each, rev) || !inner {
				fail("Each with read-only calls (Peek, Top, Len, Slice) in its loop body yields %v (inner calls right: %v), want %v", each, inner, rev)
				return
			}
		}
		if len(ref) > 0 {
			stop := i % len(ref)
			calls := 0
			s.Each(func(int) bool { calls++; return calls <= stop })
			if calls != stop+1 {
				fail("Each called yield %d times after it returned false at call %d", calls, stop+1)
				return
			}
		}
		for k := 0; k <= len(ref)+1; k++ {
			got, ok := s.Peek(k)
			wok := k < len(ref)
			want := 0
			if wok {
				want = rev[k]
			}
			if ok != wok || got != want {
				fail("Peek(%d)=(%d,%v) want (%d,%v)", k, got, ok, want, wok)
				return
			}
		}
		if i%9 == 4 {
			for _, k := range truncInts(len(ref)) {
				if k > 0 {
					if got, ok := s.Peek(k); ok || got != 0 {
						fail("Peek(%d)=(%d,%v) want (0,false): far beyond the %d elements", k, got, ok, len(ref))
						return
					}
				}
			}
		}
		if i%16 == 0 {
			if p, _ := fw.Panics(func() { s.Peek(-1) }); !p {
				fail("Peek(-1) did not panic")
				return
			}
		}
	}
}

// ---------------------------------------------------------------- mlink.Queue

func c10queue(c *fw.Ctx, r *rand.Rand) {
	var q *mlink.Queue[int]
	if r.IntN(2) == 0 {
		q = mlink.NewQueue[int]()
	} else {
		q = new(mlink.Queue[int])
	}
	var ref []int
	var log opLog
	next := 1
	fail := func(format string, args ...any) {
		c.Fail(map[string]any{"type": "mlink.Queue", "ops": log.list()}, "after %d ops: %s", len(log.ops), fmt.Sprintf(format, args...))
	}
	n := 30 + r.IntN(200)
	emptied := false
	for i := 0; i < n; i++ {
		switch x := r.IntN(10); {
		case x < 4 || (emptied && x < 8):
			log.add("Add(%d)", next)
			c.Call("mlink.Queue.Add len=%d", len(ref))
			q.Add(next)
			if emptied {
				c.Add("queue_add_after_pop_to_empty", 1)
				emptied = false
			}
			ref = append(ref, next)
			next++
		case x < 9:
			log.add("Pop")
			c.Call("mlink.Queue.Pop len=%d", len(ref))
			got, ok := q.Pop()
			wok := len(ref) > 0
			want := 0
			if wok {
				want = ref[0]
				ref = ref[1:]
				if len(ref) == 0 {
					emptied = true
				}
			}
			if ok != wok || got != want {
				fail("Pop=(%d,%v) want (%d,%v)", got, ok, want, wok)
				return
			}
		default:
			if r.IntN(3) == 0 {
				log.add("Clear")
				q.Clear()
				ref = nil
				emptied = true
			}
		}
		c.Step()
		c.Add("queue_steps", 1)
		front := 0
		if len(ref) > 0 {
			front = ref[0]
		}
		if q.Len() != len(ref) || q.IsEmpty() != (len(ref) == 0) || q.Front() != front {
			fail("Len=%d IsEmpty=%v Front=%d, want %d elements, front %d", q.Len(), q.IsEmpty(), q.Front(), len(ref), front)
			return
		}
		if len(ref) > 0 && len(ref)%3 == 1 {
			fw.Panics(func() {
				n := 0
				q.Each(func(int) bool {
					if n++; n > len(ref)/2 {
						panic("scan abandoned by its loop body")
					}
					return true
				})
			})
		}
		var each []int
		guard := 0
		q.Each(func(v int) bool { each = append(each, v); guard++; return guard < len(ref)+5 })
		if !equalInts(each, ref) {
			fail("Each=%v want %v", each, ref)
			return
		}
		if len(ref) > 0 && len(ref) <= 40 {
			each = each[:0]
			inner := true
			q.Each(func(v int) bool {
				each = append(each, v)
				i := len(each) - 1
				if pv, ok := q.Peek(i); !ok || pv != ref[i] || q.Front() != ref[0] || q.Len() != len(ref) || i > len(ref)+3 {
					inner = false
				}
				return i <= len(ref)+3
			})
			if !equalInts(each, ref) || !inner {
				fail("Each with read-only calls (Peek, Front, Len) in its loop body yields %v (inner calls right: %v), want %v", each, inner, ref)
				return
			}
		}
		if len(ref) > 0 {
			stop := i % len(ref)
			calls := 0
			q.Each(func(int) bool { calls++; return calls <= stop })
			if calls != stop+1 {
				fail("Each called yield %d times after it returned false at call %d", calls, stop+1)
				return
			}
		}
		for k := 0; k <= len(ref)+1; k++ {
			got, ok := q.Peek(k)
			wok := k < len(ref)
			want := 0
			if wok {
				want = ref[k]
			}
			if ok != wok || got != want {
				fail("Peek(%d)=(%d,%v) want (%d,%v)", k, got, ok, want, wok)
				return
			}
		}
		if len(ref)%5 == 2 {
			for _, k := range truncInts(len(ref)) {
				if k > 0 {
					if got, ok := q.Peek(k); ok || got != 0 {
						fail("Peek(%d)=(%d,%v) want (0,false): far beyond the %d elements", k, got, ok, len(ref))
						return
					}
				}
			}
		}
	}
}

// ---------------------------------------------------------------- mlink.List

type c10cur struct {
	c    *mlink.Cursor[int]
	pred int // id of the entry before the target; 0 = head of the list
	how  string
	// method values bound when the cursor was obtained (every second cursor is
	// read through them instead of through direct calls)
	get   func() int
	atEnd func() bool
}

type c10list struct {
	c      *fw.Ctx
	r      *rand.Rand
	lst    *mlink.List[int]
	ids    []int       // entry ids in list order
	vals   map[int]int // id -> value
	nextID int
	nextV  int
	curs   []*c10cur
	log    opLog
	failed bool
	stale  int
	h      *fw.H
	sparse bool // only the acting cursor's results are observed after an edit; everything is checked every 13th edit and at the end
}

func (l *c10list) fail(format string, args ...any) {
	if l.failed {
		return
	}
	l.failed = true
	l.c.Fail(map[string]any{"type": "mlink.List", "ops": l.log.list()}, "after %d ops: %s", len(l.log.ops), fmt.Sprintf(format, args...))
}

func (l *c10list) values() []int {
	out := make([]int, len(l.ids))
	for i, id := range l.ids {
		out[i] = l.vals[id]
	}
	return out
}

// index returns the position of cursor cu in the model, or -1 if it is stale.
func (l *c10list) index(cu *c10cur) int {
	if cu.pred == 0 {
		return 0
	}
	for i, id := range l.ids {
		if id == cu.pred {
			return i + 1
		}
	}
	return -1
}

func (l *c10list) newEntry(v int) int {
	l.nextID++
	l.vals[l.nextID] = v
	return l.nextID
}

func (l *c10list) readList() ([]int, bool) {
	var got []int
	guard := 0
	ok := true
	l.lst.Each(func(v int) bool {
		got = append(got, v)
		guard++
		if guard > len(l.ids)+8 {
			ok = false
			return false
		}
		return true
	})
	return got, ok
}

func (l *c10list) checkAll(what string) {
	want := l.values()
	got, ok := l.readList()
	if !ok || !equalInts(got, want) {
		l.fail("%s: list is %v want %v", what, got, want)
		return
	}
	if l.lst.Len() != len(want) || l.lst.IsEmpty() != (len(want) == 0) {
		l.fail("%s: Len=%d IsEmpty=%v want %d elements", what, l.lst.Len(), l.lst.IsEmpty(), len(want))
		return
	}
	for k := 0; k <= len(want)+1; k++ {
		v, ok := l.lst.Peek(k)
		wok := k < len(want)
		w := 0
		if wok {
			w = want[k]
		}
		if ok != wok || v != w {
			l.fail("%s: Peek(%d)=(%d,%v) want (%d,%v)", what, k, v, ok, w, wok)
			return
		}
	}
	for ci, cu := range l.curs {
		idx := l.index(cu)
		if idx < 0 {
			l.probeStale(ci, cu)
			if l.failed {
				return
			}
			continue
		}
		var gv int
		var ge bool
		okc, pv, _ := fw.Try(func() {
			if cu.get != nil {
				gv, ge = cu.get(), cu.atEnd()
			} else {
				gv, ge = cu.c.Get(), cu.c.AtEnd()
			}
		})
		if !okc {
			l.fail("%s: cursor c%d (%s) should be valid at index %d but panicked: %v", what, ci, cu.how, idx, pv)
			return
		}
		wv := 0
		if idx < len(want) {
			wv = want[idx]
		}
		if ge != (idx == len(want)) || gv != wv {
			l.fail("%s: cursor c%d (%s) Get=%d AtEnd=%v, want index %d of %v", what, ci, cu.how, gv, ge, idx, want)
			return
		}
	}
}

var c10staleMethods = []string{"Get", "Set", "AtEnd", "Next", "Push", "Add", "Remove", "Truncate"}

// probeStale uses a stale cursor through one method (rotating through all of
// them): it must panic "invalid cursor" and leave the list unchanged.
func (l *c10list) probeStale(ci int, cu *c10cur) {
	m := l.stale % len(c10staleMethods)
	l.stale++
	name := c10staleMethods[m]
	l.c.Add("stale_probes", 1)
	l.c.Add("stale_probe_"+name, 1)
	if name == "Truncate" {
		l.c.Add("stale_truncate_probes", 1)
	}
	l.c.Call("mlink.Cursor.%s on a stale cursor (c%d, %s; list %v)", name, ci, cu.how, l.values())
	panicked, pv := fw.Panics(func() {
		switch name {
		case "Get":
			cu.c.Get()
		case "Set":
			cu.c.Set(-5)
		case "AtEnd":
			cu.c.AtEnd()
		case "Next":
			cu.c.Next()
		case "Push":
			cu.c.Push(-6)
		case "Add":
			// one, two or three values: the variadic paths differ
			switch (l.stale/len(c10staleMethods) + ci) % 3 {
			case 0:
				cu.c.Add(-7)
			case 1:
				cu.c.Add(-7, -8)
			default:
				cu.c.Add(-7, -8, -9)
			}
		case "Remove":
			cu.c.Remove()
		case "Truncate":
			cu.c.Truncate()
		}
	})
	l.c.Step()
	if !panicked {
		l.fail("%s on stale cursor c%d (%s) did not panic", name, ci, cu.how)
		return
	}
	if s, ok := pv.(string); !ok || s != "invalid cursor" {
		l.fail("%s on stale cursor c%d (%s) panicked with %v, want \"invalid cursor\"", name, ci, cu.how, pv)
		return
	}
	want := l.values()
	got, ok := l.readList()
	if !ok || !equalInts(got, want) {
		l.fail("%s on stale cursor c%d (%s) altered the list: %v want %v", name, ci, cu.how, got, want)
	}
}

func (l *c10list) obtain() {
	n := len(l.ids)
	var cu *c10cur
	switch l.r.IntN(5) {
	case 0, 1:
		k := l.r.IntN(n + 2)
		cu = &c10cur{c: l.lst.At(k), how: fmt.Sprintf("At(%d)", k)}
		idx := min(k, n)
		if idx > 0 {
			cu.pred = l.ids[idx-1]
		}
	case 2:
		cu = &c10cur{c: l.lst.Last(), how: "Last()"}
		if n >= 2 {
			cu.pred = l.ids[n-2]
		}
	case 3:
		cu = &c10cur{c: l.lst.End(), how: "End()"}
		if n >= 1 {
			cu.pred = l.ids[n-1]
		}
	case 4:
		// Find the first element with a given value (or none)
		target := -1
		idx := n
		if n > 0 && l.r.IntN(4) != 0 {
			idx = l.r.IntN(n)
			target = l.vals[l.ids[idx]]
			for j := 0; j < idx; j++ {
				if l.vals[l.ids[j]] == target {
					idx = j
					break
				}
			}
		}
		// the predicate notes every argument: it is only defined on elements of the list
		held := make(map[int]bool, n)
		for _, id := range l.ids {
			held[l.vals[id]] = true
		}
		var strays []int
		cu = &c10cur{c: l.lst.Find(func(v int) bool {
			if !held[v] {
				strays = append(strays, v)
			}
			return v == target
		}), how: fmt.Sprintf("Find(==%d)", target)}
		l.c.Add("find_calls_with_predicate_arguments_checked", 1)
		if len(strays) > 0 {
			l.fail("Find(==%d) on a list of %d elements called its predicate with %v, which are not elements of the list", target, n, strays)
		}
		if idx > 0 {
			cu.pred = l.ids[idx-1]
		}
	}
	l.log.add("c%d := %s", len(l.curs), cu.how)
	if l.r.IntN(2) == 0 {
		cu.get, cu.atEnd = cu.c.Get, cu.c.AtEnd
		cu.how += " [read through method values bound now]"
	}
	if len(l.curs) < 10 {
		l.curs = append(l.curs, cu)
	} else {
		j := l.r.IntN(len(l.curs))
		l.log.add("  (replaces c%d)", j)
		l.curs[j] = cu
	}
}

func (l *c10list) edit() {
	// pick a valid cursor
	var valid []int
	for i, cu := range l.curs {
		if l.index(cu) >= 0 {
			valid = append(valid, i)
		}
	}
	if len(valid) == 0 {
		l.obtain()
		return
	}
	ci := valid[l.r.IntN(len(valid))]
	cu := l.curs[ci]
	idx := l.index(cu)
	n := len(l.ids)
	l.c.Add("list_edits", 1)
	switch op := l.r.IntN(12); {
	case op < 2: // Next
		l.log.add("c%d.Next()", ci)
		got := cu.c.Next()
		want := false
		if idx < n {
			cu.pred = l.ids[idx]
			want = idx+1 < n
		}
		if got != want {
			l.fail("c%d.Next()=%v want %v", ci, got, want)
		}
	case op < 4: // Push
		l.nextV++
		l.log.add("c%d.Push(%d)", ci, l.nextV)
		l.c.Call("mlink.Cursor.Push at index %d of %d", idx, n)
		cu.c.Push(l.nextV)
		id := l.newEntry(l.nextV)
		l.ids = append(l.ids[:idx:idx], append([]int{id}, l.ids[idx:]...)...)
	case op < 6: // Add (one or more values)
		k := 1 + l.r.IntN(3)
		vs := make([]int, k)
		for j := range vs {
			l.nextV++
			vs[j] = l.nextV
		}
		l.log.add("c%d.Add(%v)", ci, vs)
		l.c.Call("mlink.Cursor.Add at index %d of %d", idx, n)
		if idx == n {
			l.c.Add("add_at_end", 1)
		}
		cu.c.Add(vs...)
		for _, v := range vs {
			id := l.newEntry(v)
			l.ids = append(l.ids[:idx:idx], append([]int{id}, l.ids[idx:]...)...)
			cu.pred = id
			idx++
		}
	case op < 7: // Set
		l.nextV++
		l.log.add("c%d.Set(%d)", ci, l.nextV)
		cu.c.Set(l.nextV)
		if idx == n {
			l.c.Add("set_at_end", 1)
			l.ids = append(l.ids, l.newEntry(l.nextV))
		} else {
			l.vals[l.ids[idx]] = l.nextV
		}
	case op < 10: // Remove
		l.log.add("c%d.Remove()", ci)
		l.c.Call("mlink.Cursor.Remove at index %d of %d", idx, n)
		got := cu.c.Remove()
		want := 0
		if idx < n {
			want = l.vals[l.ids[idx]]
			l.ids = append(l.ids[:idx:idx], l.ids[idx+1:]...)
		}
		if got != want {
			l.fail("c%d.Remove()=%d want %d", ci, got, want)
		}
	case op < 11: // Truncate, then often Add at the end through the same cursor
		l.log.add("c%d.Truncate()", ci)
		l.c.Call("mlink.Cursor.Truncate at index %d of %d", idx, n)
		cu.c.Truncate()
		l.ids = l.ids[:idx:idx]
		if l.r.IntN(2) == 0 {
			l.checkAll(fmt.Sprintf("c%d.Truncate()", ci))
			if l.failed {
				return
			}
			l.nextV++
			l.log.add("c%d.Add(%d)", ci, l.nextV)
			cu.c.Add(l.nextV)
			id := l.newEntry(l.nextV)
			l.ids = append(l.ids, id)
			cu.pred = id
			l.c.Add("truncate_then_add_at_end", 1)
		}
	default:
		if l.r.IntN(4) == 0 {
			l.log.add("list.Clear()")
			l.lst.Clear()
			l.ids = nil
		} else {
			l.obtain()
		}
	}
	l.c.Step()
}

func c10listCase(c *fw.Ctx, r *rand.Rand) {
	l := &c10list{c: c, r: r, vals: map[int]int{}, h: fw.NewH(), sparse: r.IntN(3) == 0}
	if l.sparse {
		c.Add("sparse_observation_list_histories", 1)
	}
	if r.IntN(2) == 0 {
		l.lst = mlink.NewList[int]()
	} else {
		l.lst = new(mlink.List[int])
	}
	// initial contents through an End cursor
	n0 := r.IntN(8)
	cur := l.lst.End()
	for i := 0; i < n0; i++ {
		l.nextV++
		cur.Add(l.nextV)
		l.ids = append(l.ids, l.newEntry(l.nextV))
	}
	l.log.add("list := %v (built with End().Add)", l.values())
	for i := 0; i < 4+r.IntN(4); i++ {
		l.obtain()
	}
	l.checkAll("initial")
	steps := 20 + r.IntN(41)
	for i := 0; i < steps && !l.failed; i++ {
		before := len(l.log.ops)
		l.edit()
		if l.failed {
			break
		}
		what := "edit"
		if len(l.log.ops) > before {
			what = l.log.ops[len(l.log.ops)-1]
		}
		if !l.sparse || i%13 == 12 || i == steps-1 {
			l.checkAll(what)
		}
	}
	if l.stale > 0 && !l.failed {
		h := fw.NewH()
		for _, s := range l.log.ops {
			h.Str(s)
		}
		c.Seen(h.Sum())
		if c.WantSample() && len(l.log.ops) < 45 {
			c.Sample(map[string]any{"type": "mlink.List", "ops": l.log.list()})
		}
	}
}

// ---------------------------------------------------------------- ring

type c10rings struct {
	c      *fw.Ctx
	nodes  map[int]*ring.Ring[int] // id -> node (Value == id)
	cycles [][]int                 // model: every cycle as a sequence of ids; rotation is irrelevant
	log    opLog
	failed bool
}

func (g *c10rings) fail(format string, args ...any) {
	if g.failed {
		return
	}
	g.failed = true
	g.c.Fail(map[string]any{"type": "ring.Ring", "ops": g.log.list(), "model_cycles": fmt.Sprint(g.cycles)}, "%s", fmt.Sprintf(format, args...))
}

func (g *c10rings) locate(id int) (ci, pos int) {
	for ci, cy := range g.cycles {
		for p, x := range cy {
			if x == id {
				return ci, p
			}
		}
	}
	return -1, -1
}

func rotate(cy []int, p int) []int {
	return append(append([]int(nil), cy[p:]...), cy[:p]...)
}

func (g *c10rings) add(vs ...int) {
	g.log.add("Of(%v)", vs)
	r := ring.Of(vs...)
	cur := r
	for range vs {
		g.nodes[cur.Value] = cur
		cur = cur.Next()
	}
	if len(vs) > 0 {
		g.cycles = append(g.cycles, append([]int(nil), vs...))
	} else if r != nil {
		g.fail("Of() of no values is not the empty (nil) ring")
	}
}

// validate walks the real structure with bounded loops only and compares it
// with the model.
func (g *c10rings) validate(what string) {
	total := len(g.nodes)
	for id, n := range g.nodes {
		if n == nil || n.Next() == nil || n.Prev() == nil {
			g.fail("%s: node %d has a nil link", what, id)
			return
		}
		if n.Next().Prev() != n || n.Prev().Next() != n {
			g.fail("%s: Next/Prev are not mutually inverse at node %d (next=%d prev=%d)", what, id, n.Next().Value, n.Prev().Value)
			return
		}
		if n.Value != id {
			g.fail("%s: node %d carries value %d", what, id, n.Value)
			return
		}
	}
	for _, cy := range g.cycles {
		for p, id := range cy {
			n := g.nodes[id]
			// walk forward len(cy) steps
			cur := n
			for k := 0; k < len(cy); k++ {
				want := cy[(p+k)%len(cy)]
				if cur.Value != want {
					g.fail("%s: ring from %d is not %v: step %d reaches %d, want %d", what, id, rotate(cy, p), k, cur.Value, want)
					return
				}
				cur = cur.Next()
			}
			if cur != n {
				g.fail("%s: ring from %d does not close after %d elements", what, id, len(cy))
				return
			}
			if p != 0 && len(cy) > 3 {
				continue // the API checks below are done from the first element and, for small rings, from every element
			}
			if got := n.Len(); got != len(cy) {
				g.fail("%s: Len from %d is %d want %d", what, id, got, len(cy))
				return
			}
			if n.IsEmpty() {
				g.fail("%s: IsEmpty on a non-empty ring", what)
				return
			}
			var each []int
			guard := 0
			n.Each(func(v int) bool { each = append(each, v); guard++; return guard <= total+2 })
			if !equalInts(each, rotate(cy, p)) {
				g.fail("%s: Each from %d is %v want %v", what, id, each, rotate(cy, p))
				return
			}
			stop := (p + len(cy)) % len(cy)
			calls := 0
			n.Each(func(int) bool { calls++; return calls <= stop })
			if calls != min(stop+1, len(cy)) {
				g.fail("%s: Each from %d called yield %d times with early stop at call %d", what, id, calls, stop+1)
				return
			}
			L := len(cy)
			for off := -L - 1; off <= L+1; off++ {
				if off == L || off == -L {
					continue // unspecified: doc comment and code disagree
				}
				at := n.At(off)
				v, ok := n.Peek(off)
				if off > L || off < -L {
					if at != nil || ok || v != 0 {
						g.fail("%s: At(%d)/Peek(%d) from %d on a ring of %d: got %v / (%d,%v), want nil / (0,false)", what, off, off, id, L, at, v, ok)
						return
					}
					continue
				}
				want := cy[((p+off)%L+L)%L]
				if at == nil || at != g.nodes[want] || !ok || v != want {
					g.fail("%s: At(%d)/Peek(%d) from %d: got %v / (%d,%v), want element %d", what, off, off, id, at, v, ok, want)
					return
				}
			}
		}
	}
}

// join performs r.Join(s) and updates the model from the DOCUMENTED result.
func (g *c10rings) join(rid, sid int) {
	g.log.add("%d.Join(%d)", rid, sid)
	r, s := g.nodes[rid], g.nodes[sid]
	rc, rp := g.locate(rid)
	sc, sp := g.locate(sid)
	R := rotate(g.cycles[rc], rp) // [r1 r2 ... rn]
	var wantRet *ring.Ring[int]
	var newCycles [][]int
	for i, cy := range g.cycles {
		if i != rc && i != sc {
			newCycles = append(newCycles, cy)
		}
	}
	if rc == sc {
		j := ((sp-rp)%len(R) + len(R)) % len(R) // s == R[j]
		if j <= 1 {
			// r == s, or s directly follows r: nothing between them
			newCycles = append(newCycles, R)
			wantRet = nil
			g.c.Add("ring_join_noop", 1)
		} else {
			// [r1 r2 ... ri s1 ...] -> [r1 s1 ...], returns [r2 ... ri]
			kept := append([]int{R[0]}, R[j:]...)
			out := append([]int(nil), R[1:j]...)
			newCycles = append(newCycles, kept, out)
			wantRet = g.nodes[R[1]]
			g.c.Add("ring_join_same_ring", 1)
		}
	} else {
		S := rotate(g.cycles[sc], sp) // [s1 ... sm]
		merged := append([]int{R[0]}, S...)
		merged = append(merged, R[1:]...)
		newCycles = append(newCycles, merged)
		wantRet = g.nodes[R[1%len(R)]] // the ring [r2 ... rn r1 s1 ... sm] starts at r2 (r1 itself if n == 1)
		g.c.Add("ring_join_different_rings", 1)
	}
	g.c.Call("ring.Join(%d,%d)", rid, sid)
	got := r.Join(s)
	g.c.Step()
	g.cycles = newCycles
	if got != wantRet {
		gv, wv := "nil", "nil"
		if got != nil {
			gv = fmt.Sprint(got.Value)
		}
		if wantRet != nil {
			wv = fmt.Sprint(wantRet.Value)
		}
		g.fail("%d.Join(%d) returned element %s, the documentation says %s", rid, sid, gv, wv)
		return
	}
	g.validate(fmt.Sprintf("after %d.Join(%d)", rid, sid))
}

func (g *c10rings) pop(id int) {
	g.log.add("%d.Pop()", id)
	ci, p := g.locate(id)
	cy := g.cycles[ci]
	g.c.Call("ring.Pop(%d)", id)
	got := g.nodes[id].Pop()
	g.c.Step()
	g.c.Add("ring_pops", 1)
	if got != g.nodes[id] {
		g.fail("%d.Pop() did not return its receiver", id)
		return
	}
	if len(cy) > 1 {
		rest := append(append([]int(nil), cy[:p]...), cy[p+1:]...)
		g.cycles[ci] = rest
		g.cycles = append(g.cycles, []int{id})
	}
	g.validate(fmt.Sprintf("after %d.Pop()", id))
}

func c10ringExhaustive(c *fw.Ctx, a, b int) {
	// rings [1..a] and [a+1..a+b]; every ordered pair (r, s) of elements
	total := a + b
	for rid := 1; rid <= total; rid++ {
		for sid := 1; sid <= total; sid++ {
			g := &c10rings{c: c, nodes: map[int]*ring.Ring[int]{}}
			var x, y []int
			for i := 1; i <= a; i++ {
				x = append(x, i)
			}
			for i := a + 1; i <= total; i++ {
				y = append(y, i)
			}
			g.add(x...)
			if b > 0 {
				g.add(y...)
			}
			ok, pv, stack := fw.Try(func() {
				g.validate("initial")
				if !g.failed {
					g.join(rid, sid)
				}
				// follow up: pop every element once
				for id := 1; id <= total && !g.failed; id++ {
					g.pop(id)
				}
			})
			if !ok {
				c.FailKind("panic", map[string]any{"type": "ring.Ring", "ops": g.log.list()}, "panic: %v\n%s", pv, stack)
			}
			c.Add("ring_exhaustive_cases", 1)
			c.SeenEnum(1)
			if g.failed {
				return
			}
		}
	}
}

func c10ringRandom(c *fw.Ctx, r *rand.Rand) {
	g := &c10rings{c: c, nodes: map[int]*ring.Ring[int]{}}
	nextID := 1
	mk := func(k int) {
		vs := make([]int, k)
		for i := range vs {
			vs[i] = nextID
			nextID++
		}
		g.add(vs...)
	}
	ok, pv, stack := fw.Try(func() {
		mk(1 + r.IntN(5))
		mk(1 + r.IntN(4))
		g.validate("initial")
		steps := 10 + r.IntN(40)
		for i := 0; i < steps && !g.failed; i++ {
			ids := make([]int, 0, len(g.nodes))
			for id := 1; id < nextID; id++ {
				ids = append(ids, id)
			}
			switch x := r.IntN(10); {
			case x < 6:
				g.join(ids[r.IntN(len(ids))], ids[r.IntN(len(ids))])
			case x < 9:
				g.pop(ids[r.IntN(len(ids))])
			default:
				if len(g.nodes) < 14 {
					mk(1 + r.IntN(3))
					g.validate("after Of")
				}
			}
		}
	})
	if !ok {
		c.FailKind("panic", map[string]any{"type": "ring.Ring", "ops": g.log.list()}, "panic: %v\n%s", pv, stack)
	}
	if !g.failed {
		h := fw.NewH()
		for _, s := range g.log.ops {
			h.Str(s)
		}
		c.Seen(h.Sum())
		if c.WantSample() && len(g.log.ops) < 25 {
			c.Sample(map[string]any{"type": "ring.Ring", "ops": g.log.list(), "final_cycles": fmt.Sprint(g.cycles)})
		}
	}
}

func c10ringMisc(c *fw.Ctx) {
	// New(n), nil ring
	for n := -1; n <= 9; n++ {
		r := ring.New[int](n)
		if n <= 0 {
			if r != nil || r.Len() != 0 || !r.IsEmpty() || r.At(0) != nil || r.At(3) != nil || r.Pop() != nil {
				c.Fail(map[string]any{"type": "ring.Ring"}, "New(%d) is not the empty ring, or nil-ring methods misbehave", n)
			}
			calls := 0
			r.Each(func(int) bool { calls++; return true })
			if v, ok := r.Peek(0); ok || v != 0 || calls != 0 {
				c.Fail(map[string]any{"type": "ring.Ring"}, "nil ring: Peek(0)=(%d,%v), Each made %d calls", v, ok, calls)
			}
			continue
		}
		if r.Len() != n {
			c.Fail(map[string]any{"type": "ring.Ring"}, "New(%d).Len()=%d", n, r.Len())
			continue
		}
		cur := r
		for i := 0; i < n; i++ {
			if cur.Value != 0 || cur.Next().Prev() != cur {
				c.Fail(map[string]any{"type": "ring.Ring"}, "New(%d): element %d has value %d or broken links", n, i, cur.Value)
				break
			}
			cur = cur.Next()
		}
		if cur != r {
			c.Fail(map[string]any{"type": "ring.Ring"}, "New(%d) does not close after %d elements", n, n)
		}
	}
}

// c10large: stacks and linked queues that grow to several thousand elements and
// shrink again (buffer-management thresholds), with constant-time observations
// on every step and the full comparison every 211 steps and at the turning points.
func c10large(c *fw.Ctx, r *rand.Rand) {
	c10largeN(c, []int{3000, 4100, 5000, 8200, 12000}[r.IntN(5)])
}

// c10largeN: grow a stack and a list queue to n elements, shrink, regrow, drain.
func c10largeN(c *fw.Ctx, n int) {
	period, shrinkEvery := max(211, n/3), max(1024, n/4)
	st := stack.New[int]()
	q := mlink.NewQueue[int]()
	var sref, qref []int
	var qhead int
	data := map[string]any{"type": "stack.Stack / mlink.Queue", "scenario": fmt.Sprintf("grow to %d elements, shrink to a few, regrow, drain", n)}
	step := 0
	full := func(what string) bool {
		rev := make([]int, len(sref))
		for i := range sref {
			rev[i] = sref[len(sref)-1-i]
		}
		if got := st.Slice(); !equalInts(got, rev) {
			c.Fail(data, "%s (step %d): stack Slice differs from the reference at length %d", what, step, len(sref))
			return false
		}
		var each []int
		q.Each(func(v int) bool { each = append(each, v); return len(each) <= len(qref)-qhead+2 })
		if !equalInts(each, qref[qhead:]) {
			c.Fail(data, "%s (step %d): queue Each differs from the reference at length %d", what, step, len(qref)-qhead)
			return false
		}
		return true
	}
	quick := func() bool {
		step++
		c.Step()
		top := 0
		if len(sref) > 0 {
			top = sref[len(sref)-1]
		}
		if st.Len() != len(sref) || st.Top() != top {
			c.Fail(data, "step %d: stack Len=%d Top=%d want %d, %d", step, st.Len(), st.Top(), len(sref), top)
			return false
		}
		if len(sref) > 2 {
			k := step % len(sref)
			if v, ok := st.Peek(k); !ok || v != sref[len(sref)-1-k] {
				c.Fail(data, "step %d: stack Peek(%d)=(%d,%v) want %d", step, k, v, ok, sref[len(sref)-1-k])
				return false
			}
		}
		front := 0
		if len(qref) > qhead {
			front = qref[qhead]
		}
		if q.Len() != len(qref)-qhead || q.Front() != front {
			c.Fail(data, "step %d: queue Len=%d Front=%d want %d, %d", step, q.Len(), q.Front(), len(qref)-qhead, front)
			return false
		}
		if step%period == 0 {
			return full("periodic check")
		}
		return true
	}
	push := func(v int) bool {
		st.Push(v)
		sref = append(sref, v)
		q.Add(v)
		qref = append(qref, v)
		return quick()
	}
	pop := func() bool {
		gv, gok := st.Pop()
		wok := len(sref) > 0
		wv := 0
		if wok {
			wv = sref[len(sref)-1]
			sref = sref[:len(sref)-1]
		}
		qv, qok := q.Pop()
		wqok := len(qref) > qhead
		wq := 0
		if wqok {
			wq = qref[qhead]
			qhead++
		}
		if gok != wok || gv != wv || qok != wqok || qv != wq {
			c.Fail(data, "step %d: stack Pop=(%d,%v) want (%d,%v); queue Pop=(%d,%v) want (%d,%v)", step, gv, gok, wv, wok, qv, qok, wq, wqok)
			return false
		}
		return quick()
	}
	v := 0
	for i := 0; i < n; i++ {
		v++
		if !push(v) {
			return
		}
	}
	if !full("at the peak") {
		return
	}
	for len(sref) > 3 {
		if !pop() {
			return
		}
		if len(sref)%shrinkEvery == 0 && !full("while shrinking") {
			return
		}
	}
	if !full("after shrinking") {
		return
	}
	for i := 0; i < n/3; i++ {
		v++
		if !push(v) {
			return
		}
	}
	for len(sref) > 0 {
		if !pop() {
			return
		}
	}
	full("after the final drain")
	c.Add("large_histories", 1)
}

// c10concurrent: separate containers used by separate goroutines at the same time.
func c10concurrent(c *fw.Ctx, base int) {
	fns := []func(*fw.Ctx, *rand.Rand){c10stack, c10queue, c10listCase, c10ringRandom, c10listCase, c10queue, c10listCase, c10stack}
	for k := 0; k < c.Pick(4, 40); k++ {
		var wg sync.WaitGroup
		for g := 0; g < 8; g++ {
			cc := c.Fork(base + 8*k + g)
			if cc == nil {
				continue
			}
			wg.Add(1)
			go func(cc *fw.Ctx, g int) {
				defer wg.Done()
				for rep := 0; rep < 6; rep++ {
					ok, pv, _ := fw.Try(func() { fns[g](cc, cc.Rng()) })
					if !ok {
						cc.FailKind("panic", map[string]any{"phase": "concurrent instances"}, "panic: %v", pv)
						return
					}
				}
			}(cc, g)
		}
		wg.Wait()
		c.Add("concurrent_instance_histories", 48)
	}
}

func runC10(c *fw.Ctx) {
	c10concurrent(c, 1<<22)
	if c.Flavour == "race" {
		return
	}
	idx := 0
	// exhaustive ring configurations, spread over blocks
	cfg := 0
	for total := 1; total <= 7; total++ {
		for b := 0; b < total; b++ {
			a := total - b
			cfg++
			if cfg%c.NBlocks != c.Block {
				continue
			}
			if c.Begin(idx + cfg) {
				c10ringExhaustive(c, a, b)
			}
		}
	}
	idx += 100
	if c.Block == 0 && c.Begin(idx) {
		c10ringMisc(c)
	}
	idx++
	type gen struct {
		name string
		n    int
		f    func(*fw.Ctx, *rand.Rand)
	}
	gens := []gen{
		{"stack", c.Pick(300, 4000), c10stack},
		{"queue", c.Pick(300, 4000), c10queue},
		{"list", c.Pick(6000, 400000), c10listCase},
		{"ring", c.Pick(3000, 200000), c10ringRandom},
		{"large", c.Pick(2, 12), c10large},
	}
	for _, g := range gens {
		for k := 0; k < g.n; k++ {
			if !c.Begin(idx + k) {
				continue
			}
			r := c.Rng()
			ok, pv, stack := fw.Try(func() { g.f(c, r) })
			if !ok {
				c.FailKind("panic", map[string]any{"type": g.name}, "panic: %v\n%s", pv, stack)
			}
		}
		idx += g.n
	}
	// huge lists discarded in one call: Clear of a list queue and Truncate through
	// a cursor near the front, 3 million elements in quick and 24 million in
	// thorough (what a discard does per element is multiplied accordingly)
	if strconv.IntSize == 64 && c.Flavour == "plain" && c.Block >= 2 && c.Block < 4 && c.Begin(idx+6900000+c.Block) {
		n := c.Pick(3000000, 24000000)
		c.Call("mlink: build %d elements, then discard them in one call (block %d)", n, c.Block)
		ok, pv, stack := fw.Try(func() {
			data := map[string]any{"elements": n}
			if c.Block == 2 {
				q := mlink.NewQueue[int]()
				for i := 0; i < n; i++ {
					q.Add(i)
					if i&(1<<20-1) == 0 {
						c.Step()
					}
				}
				if q.Len() != n || q.Front() != 0 {
					c.Fail(data, "queue of %d elements: Len=%d Front=%d", n, q.Len(), q.Front())
					return
				}
				q.Clear()
				c.Step()
				q.Add(7)
				if v, ok := q.Pop(); q.Len() != 0 || !ok || v != 7 || !q.IsEmpty() {
					c.Fail(data, "after Clear of %d elements and Add(7): Pop=(%d,%v) Len=%d", n, v, ok, q.Len())
				}
				return
			}
			lst := mlink.NewList[int]()
			cu := lst.At(0)
			for i := 0; i < n; i++ {
				cu.Add(i)
				if i&(1<<20-1) == 0 {
					c.Step()
				}
			}
			stale := lst.At(1000)
			cut := lst.At(5)
			cut.Truncate()
			c.Step()
			if lst.Len() != 5 || !cut.AtEnd() {
				c.Fail(data, "after Truncate at position 5 of %d elements: Len=%d AtEnd=%v", n, lst.Len(), cut.AtEnd())
				return
			}
			if p, pv := fw.Panics(func() { stale.Get() }); !p || pv != "invalid cursor" {
				c.Fail(data, "a cursor into the truncated part (position 1000 of %d) did not refuse to be used: panicked=%v %v", n, p, pv)
			}
		})
		if !ok {
			c.FailKind("panic", map[string]any{"elements": n}, "panic: %v\n%s", pv, stack)
		}
		c.Add("huge_lists_discarded_in_one_call", 1)
	}
	// very large containers: 300 000 .. 1.2 M elements (5 M thorough), one size per block
	if c.Begin(idx + 7000000 + c.Block) {
		sizes := []int{262143, 262144, 262145, 300000, 524289, 600000, 1048577, 1200000}
		n := sizes[c.Block%len(sizes)]
		if c.Thorough() && c.Block%4 == 0 {
			n = 5000000
		}
		ok, pv, stack := fw.Try(func() { c10largeN(c, n) })
		if !ok {
			c.FailKind("panic", map[string]any{"type": "stack.Stack / mlink.Queue", "elements": n}, "panic: %v\n%s", pv, stack)
		}
		c.Add("very_large_containers", 1)
		c.Max("max:container_elements", int64(n))
	}
}
