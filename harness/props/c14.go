//go:build pC14 || pall

package props

import (
	"bytes"
	"fmt"
	"math"
	"math/rand/v2"
	"os"
	"os/exec"
	"path/filepath"
	"regexp"
	"strconv"
	"strings"
	"time"

	"github.com/creachadair/mds/mdiff"
	"github.com/creachadair/mds/slice"
	"verif/harness/fw"
)

// C14 — mdiff text formats round-trip and mean what GNU diff/patch say they
// mean. Monitors: (1) round trips through Read / ReadUnified / ReadGitPatch
// against an independent reference parse of the text; (2) strict reference
// appliers for the normal, unified and context formats; (3) GNU patch as a
// second applier and (sampled) GNU diff as a generator. Known finding F5
// (omitted count read as zero) is attributed by a text-level signature.

func init() {
	fw.Register(&fw.Property{
		ID: "C14",
		Meta: func(tier string) fw.Meta {
			return fw.Meta{
				Flavours: []string{"plain", "cover", "386"},
				Blocks:   16,
				Procs:    16,
				Rule: "case = (Left, Right, n, file info). Lines come from an adversarial alphabet ('', lines starting with - + < > @ space \\\\, '---', '+++', 'diff ', '***', '***************', change-command and hunk-header look-alikes, lines ending in CR, non-ASCII); n in 0..4; empty files, single-line and empty sides. Exhaustive over alphabet 2 x length <= 5 x n in 0..3; random pairs up to 40 lines. " +
					"For New and for New.AddContext(n).Unify(): Normal/Unified/Context text is produced; the text is parsed by independent reference parsers that count lines by the headers (published format rules) and must describe the original changes at the original ranges; strict reference appliers (no fuzz, no offset, left AND right line numbers checked) must turn Left into Right; mdiff.Read/ReadUnified/ReadGitPatch must return the reference parse (chunk for chunk; one chunk per change command for normal), re-format to identical bytes, and preserve file names and default-format timestamps; the same changes moved down to line numbers around every power of ten up to 10^18 and around 2^31, 2^32, 2^53, 2^62 (really built and applied up to a million lines in front, parsed and read back beyond); every ordered pair of 19 marker-like contents ('-- old', '++ new', '- ', '@@ -1 +1 @@', ...) as last deleted / first inserted line of one change, also through the git wrapper; headers written with non-default time formats (names must survive); parsed patches are kept and verified again after later reads; Diff.Format must equal the format function's output also right after a Format call into a writer that failed. " +
					"A sample of cases (CR-free alphabet) is also applied with GNU patch (-n/-u/-c) and, for a smaller sample, GNU diff output (normal and -U n) is fed to the readers. " +
					"A unified read failure is attributed to known finding F5 iff the text has an omitted count and the parse equals the reference parse with End=Start on exactly the omitted-count sides. Seven of every eight blocks run with a local time zone other than UTC (fixed +05:30, -07:00, +13:00, -11:00; Asia/Kolkata, America/Los_Angeles, Europe/London), which are the offsets the header timestamps are written in. distinct = hash(Left, Right, n); non-trivial = the diff has a hunk with an empty or single-line side",
				Required:     []string{"cases", "unified_roundtrips", "normal_roundtrips", "git_roundtrips", "ref_apply_normal", "ref_apply_unified", "ref_apply_context", "empty_range_hunks", "single_line_side_hunks", "fileinfo_roundtrips", "gnu_patch_runs", "gnu_diff_runs", "kept_patches_rechecked", "format_after_failed_write", "large_line_number_cases", "custom_time_format_headers", "marker_like_content_cases", "line_length_sweep_cases", "blocks_with_a_local_zone_other_than_utc"},
				Exhaustive:   true,
				Assumptions:  []string{"reference parsers/appliers written from the GNU diffutils manual's format descriptions", "GNU patch 2.7.x and GNU diff 3.x as installed in this image", "an omitted count means 1 (unified), an empty unified range s,0 sits after line s"},
				CoverPkgs:    []string{"github.com/creachadair/mds/mdiff"},
				CoverAnchors: []string{"mdiff/format.go", "mdiff/reader.go"},
			}
		},
		Run: runC14,
	})
}

var c14alphabet = []string{
	"a", "b", "c", "", "x y", " lead", "-dash", "+plus", "<lt", ">gt", "< lt2", "> gt2", "@at", "@@ -1 +1 @@", "--- x", "+++ y", "---", "diff x",
	"*** s", "***************", "*** 1,2 ****", "--- 1 ----", "1a2", "2,3c4", "5d4", "\\ back", "\ttab", "ü", "cr\r", "\r", "- ", "+ ", "! bang", "  two",
	// pairs of different lines that collide under common 32-bit hashes (CRC-32, FNV-1, FNV-1a, Java hashCode)
	"\\ No newline at end of file", "diff --git a/x b/x", "index 83db48f..bf269f4 100644", "Binary files a and b differ", "Only in x: y", "\ufeffbom", "trail ", "%s%d", "new file mode 100644",
	"plumless", "buckeroo", "costarring", "liquid", "declinate", "macallums", "Aa", "BB",
}

// index of the first alphabet entry that GNU patch cases must avoid (CR handling in patch is heuristic)
func c14patchSafe(lines []string) bool {
	for _, l := range lines {
		if strings.Contains(l, "\r") {
			return false
		}
	}
	return true
}

// ---------------------------------------------------------------------------
// reference unified parser

type uLine struct {
	Kind byte
	Text string
}

type uHunk struct {
	LStart, LCount, RStart, RCount int
	LOmit, ROmit                   bool
	Lines                          []uLine
}

var uHeadRE = regexp.MustCompile(`^@@ -(\d+)(,(\d+))? \+(\d+)(,(\d+))? @@`)

func splitLines(text string) []string {
	if text == "" {
		return nil
	}
	ls := strings.Split(text, "\n")
	if ls[len(ls)-1] == "" {
		ls = ls[:len(ls)-1]
	}
	return ls
}

// parseUnifiedRef parses one unified patch (optional 2-line header) by the
// published rules: the hunk header says how many lines follow.
func parseUnifiedRef(lines []string) (left, right string, hasHeader bool, hunks []uHunk, rest []string, err error) {
	i := 0
	if len(lines) >= 2 && strings.HasPrefix(lines[0], "--- ") && strings.HasPrefix(lines[1], "+++ ") {
		left, right, hasHeader = lines[0][4:], lines[1][4:], true
		i = 2
	}
	for i < len(lines) {
		m := uHeadRE.FindStringSubmatch(lines[i])
		if m == nil {
			break
		}
		var h uHunk
		h.LStart, _ = strconv.Atoi(m[1])
		h.RStart, _ = strconv.Atoi(m[4])
		if m[2] == "" {
			h.LCount, h.LOmit = 1, true
		} else {
			h.LCount, _ = strconv.Atoi(m[3])
		}
		if m[5] == "" {
			h.RCount, h.ROmit = 1, true
		} else {
			h.RCount, _ = strconv.Atoi(m[6])
		}
		i++
		nl, nr := 0, 0
		for nl < h.LCount || nr < h.RCount {
			if i >= len(lines) {
				return "", "", false, nil, nil, fmt.Errorf("hunk at line %d is truncated", i)
			}
			ln := lines[i]
			if ln == "" {
				return "", "", false, nil, nil, fmt.Errorf("empty line %d inside a hunk", i+1)
			}
			switch ln[0] {
			case ' ':
				nl++
				nr++
			case '-':
				nl++
			case '+':
				nr++
			default:
				return "", "", false, nil, nil, fmt.Errorf("line %d %q inside a hunk has no valid prefix", i+1, ln)
			}
			h.Lines = append(h.Lines, uLine{ln[0], ln[1:]})
			i++
		}
		if nl != h.LCount || nr != h.RCount {
			return "", "", false, nil, nil, fmt.Errorf("hunk line counts %d/%d do not match its header %d/%d", nl, nr, h.LCount, h.RCount)
		}
		hunks = append(hunks, h)
	}
	return left, right, hasHeader, hunks, lines[i:], nil
}

// hunkChunks converts reference hunks to the chunks a correct reader returns;
// with f5 set, sides with an omitted count get End = Start (the F5 misreading).
func hunkChunks(hunks []uHunk, f5 bool) []*mdiff.Chunk {
	var out []*mdiff.Chunk
	for _, h := range hunks {
		c := &mdiff.Chunk{}
		c.LStart, c.RStart = h.LStart, h.RStart
		if h.LCount == 0 {
			c.LStart++
		}
		if h.RCount == 0 {
			c.RStart++
		}
		c.LEnd, c.REnd = c.LStart+h.LCount, c.RStart+h.RCount
		if f5 && h.LOmit {
			c.LEnd = c.LStart
		}
		if f5 && h.ROmit {
			c.REnd = c.RStart
		}
		for _, l := range h.Lines {
			var op slice.EditOp
			switch l.Kind {
			case ' ':
				op = slice.OpEmit
			case '-':
				op = slice.OpDrop
			case '+':
				op = slice.OpCopy
			}
			if len(c.Edits) == 0 || c.Edits[len(c.Edits)-1].Op != op {
				c.Edits = append(c.Edits, mdiff.Edit{Op: op})
			}
			e := &c.Edits[len(c.Edits)-1]
			if op == slice.OpCopy {
				e.Y = append(e.Y, l.Text)
			} else {
				e.X = append(e.X, l.Text)
			}
		}
		out = append(out, c)
	}
	return out
}

func applyUnifiedRef(hunks []uHunk, left []string) ([]string, string) {
	var out []string
	pos := 0
	for hi, h := range hunks {
		at := h.LStart - 1
		if h.LCount == 0 {
			at = h.LStart
		}
		if at < pos || at > len(left) {
			return nil, fmt.Sprintf("hunk %d applies at left line %d, outside the remaining input (next unconsumed line %d of %d)", hi, at+1, pos+1, len(left))
		}
		out = append(out, left[pos:at]...)
		pos = at
		wantOut := h.RStart - 1
		if h.RCount == 0 {
			wantOut = h.RStart
		}
		if len(out) != wantOut {
			return nil, fmt.Sprintf("hunk %d claims to start at right line %d but %d lines have been produced", hi, wantOut+1, len(out))
		}
		for _, l := range h.Lines {
			switch l.Kind {
			case ' ', '-':
				if pos >= len(left) || left[pos] != l.Text {
					return nil, fmt.Sprintf("hunk %d: %q line %q does not match left line %d", hi, string(l.Kind), l.Text, pos+1)
				}
				if l.Kind == ' ' {
					out = append(out, l.Text)
				}
				pos++
			case '+':
				out = append(out, l.Text)
			}
		}
	}
	return append(out, left[pos:]...), ""
}

// ---------------------------------------------------------------------------
// reference normal-format parser / applier

type nCmd struct {
	L1, L2, R1, R2 int
	Cmd            byte
	X, Y           []string
}

var nCmdRE = regexp.MustCompile(`^(\d+)(,(\d+))?([acd])(\d+)(,(\d+))?$`)

func parseNormalRef(lines []string) ([]nCmd, error) {
	var out []nCmd
	i := 0
	for i < len(lines) {
		m := nCmdRE.FindStringSubmatch(lines[i])
		if m == nil {
			return nil, fmt.Errorf("line %d %q is not a change command", i+1, lines[i])
		}
		var c nCmd
		c.L1, _ = strconv.Atoi(m[1])
		c.L2 = c.L1
		if m[3] != "" {
			c.L2, _ = strconv.Atoi(m[3])
		}
		c.Cmd = m[4][0]
		c.R1, _ = strconv.Atoi(m[5])
		c.R2 = c.R1
		if m[7] != "" {
			c.R2, _ = strconv.Atoi(m[7])
		}
		i++
		take := func(n int, pfx string) ([]string, error) {
			var got []string
			for k := 0; k < n; k++ {
				if i >= len(lines) || !strings.HasPrefix(lines[i], pfx) {
					return nil, fmt.Errorf("line %d: expected %d lines with prefix %q", i+1, n, pfx)
				}
				got = append(got, lines[i][len(pfx):])
				i++
			}
			return got, nil
		}
		var err error
		switch c.Cmd {
		case 'a':
			c.Y, err = take(c.R2-c.R1+1, "> ")
		case 'd':
			c.X, err = take(c.L2-c.L1+1, "< ")
		case 'c':
			c.X, err = take(c.L2-c.L1+1, "< ")
			if err == nil {
				if i >= len(lines) || lines[i] != "---" {
					err = fmt.Errorf("line %d: expected the --- separator", i+1)
				} else {
					i++
					c.Y, err = take(c.R2-c.R1+1, "> ")
				}
			}
		}
		if err != nil {
			return nil, err
		}
		out = append(out, c)
	}
	return out, nil
}

func normalChunks(cmds []nCmd) []*mdiff.Chunk {
	var out []*mdiff.Chunk
	for _, c := range cmds {
		ch := &mdiff.Chunk{}
		switch c.Cmd {
		case 'a':
			ch.LStart, ch.LEnd, ch.RStart, ch.REnd = c.L1+1, c.L1+1, c.R1, c.R2+1
			ch.Edits = []mdiff.Edit{{Op: slice.OpCopy, Y: c.Y}}
		case 'd':
			ch.LStart, ch.LEnd, ch.RStart, ch.REnd = c.L1, c.L2+1, c.R1+1, c.R1+1
			ch.Edits = []mdiff.Edit{{Op: slice.OpDrop, X: c.X}}
		case 'c':
			ch.LStart, ch.LEnd, ch.RStart, ch.REnd = c.L1, c.L2+1, c.R1, c.R2+1
			ch.Edits = []mdiff.Edit{{Op: slice.OpReplace, X: c.X, Y: c.Y}}
		}
		out = append(out, ch)
	}
	return out
}

func applyNormalRef(cmds []nCmd, left []string) ([]string, string) {
	var out []string
	pos := 0
	for i, c := range cmds {
		switch c.Cmd {
		case 'a':
			if c.L1 < pos || c.L1 > len(left) {
				return nil, fmt.Sprintf("command %d appends after left line %d, outside the remaining input", i, c.L1)
			}
			out = append(out, left[pos:c.L1]...)
			pos = c.L1
			if len(out)+1 != c.R1 {
				return nil, fmt.Sprintf("command %d claims the added lines start at right line %d but %d lines have been produced", i, c.R1, len(out))
			}
			out = append(out, c.Y...)
		case 'd', 'c':
			if c.L1-1 < pos || c.L2 > len(left) {
				return nil, fmt.Sprintf("command %d covers left lines %d..%d, outside the remaining input", i, c.L1, c.L2)
			}
			out = append(out, left[pos:c.L1-1]...)
			for k, x := range c.X {
				if left[c.L1-1+k] != x {
					return nil, fmt.Sprintf("command %d: removed line %q does not match left line %d", i, x, c.L1+k)
				}
			}
			pos = c.L2
			if c.Cmd == 'd' {
				if len(out) != c.R1 {
					return nil, fmt.Sprintf("command %d claims the deletion is after right line %d but %d lines have been produced", i, c.R1, len(out))
				}
			} else {
				if len(out)+1 != c.R1 {
					return nil, fmt.Sprintf("command %d claims the new lines start at right line %d but %d lines have been produced", i, c.R1, len(out))
				}
				out = append(out, c.Y...)
			}
		}
	}
	return append(out, left[pos:]...), ""
}

// ---------------------------------------------------------------------------
// reference context-format applier

var cLeftRE = regexp.MustCompile(`^\*\*\* (\d+)(,(\d+))? \*\*\*\*$`)
var cRightRE = regexp.MustCompile(`^--- (\d+)(,(\d+))? ----$`)

func applyContextRef(lines []string, left []string) ([]string, string) {
	i := 0
	if len(lines) >= 2 && strings.HasPrefix(lines[0], "*** ") && strings.HasPrefix(lines[1], "--- ") && !cLeftRE.MatchString(lines[0]) {
		i = 2
	}
	var out []string
	pos := 0
	hunk := 0
	for i < len(lines) {
		if lines[i] != "***************" {
			return nil, fmt.Sprintf("line %d: expected the hunk separator", i+1)
		}
		i++
		if i >= len(lines) {
			return nil, "truncated hunk"
		}
		m := cLeftRE.FindStringSubmatch(lines[i])
		if m == nil {
			return nil, fmt.Sprintf("line %d %q is not a left range header", i+1, lines[i])
		}
		ls, _ := strconv.Atoi(m[1])
		le := ls
		if m[3] != "" {
			le, _ = strconv.Atoi(m[3])
		}
		i++
		var lbody []string
		var lkinds []byte
		for i < len(lines) && len(lines[i]) >= 2 && lines[i][1] == ' ' && strings.IndexByte(" -!", lines[i][0]) >= 0 && len(lbody) < le-ls+1 {
			lbody = append(lbody, lines[i][2:])
			lkinds = append(lkinds, lines[i][0])
			i++
		}
		if i >= len(lines) {
			return nil, "truncated hunk (no right range)"
		}
		m = cRightRE.FindStringSubmatch(lines[i])
		if m == nil {
			return nil, fmt.Sprintf("line %d %q is not a right range header (left body had %d of %d lines)", i+1, lines[i], len(lbody), le-ls+1)
		}
		rs, _ := strconv.Atoi(m[1])
		re := rs
		if m[3] != "" {
			re, _ = strconv.Atoi(m[3])
		}
		i++
		var rbody []string
		var rkinds []byte
		for i < len(lines) && len(lines[i]) >= 2 && lines[i][1] == ' ' && strings.IndexByte(" +!", lines[i][0]) >= 0 && len(rbody) < re-rs+1 {
			rbody = append(rbody, lines[i][2:])
			rkinds = append(rkinds, lines[i][0])
			i++
		}
		nl, nr := le-ls+1, re-rs+1
		// marker consistency: '!' marks lines that differ between the two parts and
		// must therefore occur in both; '-' only on the left, '+' only on the right
		lbang, rbang := bytes.IndexByte(lkinds, '!') >= 0, bytes.IndexByte(rkinds, '!') >= 0
		if lbang != rbang {
			return nil, fmt.Sprintf("hunk %d: changed-line marker '!' appears in only one of the two parts", hunk)
		}
		// an omitted body consists of the other side's context lines
		if len(lbody) == 0 && nl > 0 {
			for k, t := range rbody {
				if rkinds[k] == ' ' {
					lbody = append(lbody, t)
				}
			}
		}
		if len(rbody) == 0 && nr > 0 {
			for k, t := range lbody {
				if lkinds != nil && lkinds[k] == ' ' {
					rbody = append(rbody, t)
				}
			}
		}
		if len(lbody) != nl || len(rbody) != nr {
			return nil, fmt.Sprintf("hunk %d: bodies have %d/%d lines, ranges say %d/%d", hunk, len(lbody), len(rbody), nl, nr)
		}
		at := ls - 1 // also for an empty range s,s-1: insertion before line s
		if at < pos || at+nl > len(left) {
			return nil, fmt.Sprintf("hunk %d covers left lines %d..%d, outside the remaining input", hunk, ls, le)
		}
		out = append(out, left[pos:at]...)
		for k, t := range lbody {
			if left[at+k] != t {
				return nil, fmt.Sprintf("hunk %d: left-side line %q does not match left line %d", hunk, t, at+k+1)
			}
		}
		if len(out)+1 != rs {
			return nil, fmt.Sprintf("hunk %d claims to start at right line %d but %d lines have been produced", hunk, rs, len(out))
		}
		out = append(out, rbody...)
		pos = at + nl
		hunk++
	}
	return append(out, left[pos:]...), ""
}

// ---------------------------------------------------------------------------
// comparison helpers

func normaliseUnified(cs []*mdiff.Chunk) []*mdiff.Chunk {
	out := make([]*mdiff.Chunk, len(cs))
	for i, c := range cs {
		n := &mdiff.Chunk{LStart: c.LStart, LEnd: c.LEnd, RStart: c.RStart, REnd: c.REnd}
		for _, e := range c.Edits {
			if e.Op == slice.OpReplace {
				n.Edits = append(n.Edits, mdiff.Edit{Op: slice.OpDrop, X: e.X}, mdiff.Edit{Op: slice.OpCopy, Y: e.Y})
			} else {
				n.Edits = append(n.Edits, e)
			}
		}
		out[i] = n
	}
	return out
}

func equalChunks(a, b []*mdiff.Chunk) bool {
	if len(a) != len(b) {
		return false
	}
	for i := range a {
		if a[i].LStart != b[i].LStart || a[i].LEnd != b[i].LEnd || a[i].RStart != b[i].RStart || a[i].REnd != b[i].REnd || !equalEdits(a[i].Edits, b[i].Edits) {
			return false
		}
	}
	return true
}

// perCommand splits chunks into one chunk per non-Emit edit, with the ranges
// the normal format assigns to each change command.
func perCommand(cs []*mdiff.Chunk) []*mdiff.Chunk {
	var out []*mdiff.Chunk
	for _, c := range cs {
		lpos, rpos := c.LStart, c.RStart
		for _, e := range c.Edits {
			switch e.Op {
			case slice.OpEmit:
				lpos += len(e.X)
				rpos += len(e.X)
			case slice.OpDrop:
				out = append(out, &mdiff.Chunk{Edits: []mdiff.Edit{e}, LStart: lpos, LEnd: lpos + len(e.X), RStart: rpos, REnd: rpos})
				lpos += len(e.X)
			case slice.OpCopy:
				out = append(out, &mdiff.Chunk{Edits: []mdiff.Edit{e}, LStart: lpos, LEnd: lpos, RStart: rpos, REnd: rpos + len(e.Y)})
				rpos += len(e.Y)
			case slice.OpReplace:
				out = append(out, &mdiff.Chunk{Edits: []mdiff.Edit{e}, LStart: lpos, LEnd: lpos + len(e.X), RStart: rpos, REnd: rpos + len(e.Y)})
				lpos += len(e.X)
				rpos += len(e.Y)
			}
		}
	}
	return out
}

// ---------------------------------------------------------------------------
// the monitor

// c14keptPatch remembers a parsed patch and what it must contain, so that it can
// be verified again after later reads (a returned Patch must not change).
type c14keptPatch struct {
	p    *mdiff.Patch
	want []*mdiff.Chunk
	text string
	fmtf string
}

var c14kept []c14keptPatch

func c14recheckKept(c *fw.Ctx) {
	for _, k := range c14kept {
		c.Add("kept_patches_rechecked", 1)
		if !equalChunks(k.p.Chunks, k.want) {
			c.Fail(map[string]any{"format": k.fmtf, "text": fw.Q(k.text)}, "a Patch returned earlier by the %s reader has changed after later reads: now %s, was %s", k.fmtf, chunksString(k.p.Chunks), chunksString(k.want))
			break
		}
	}
	c14kept = c14kept[:0]
}

func c14keep(c *fw.Ctx, p *mdiff.Patch, fmtf, text string) {
	if len(p.Chunks) == 0 {
		return
	}
	// deep copy of what was returned
	want := make([]*mdiff.Chunk, len(p.Chunks))
	for i, ch := range p.Chunks {
		cp := *ch
		cp.Edits = cloneEdits(ch.Edits)
		want[i] = &cp
	}
	c14kept = append(c14kept, c14keptPatch{p, want, text, fmtf})
	if len(c14kept) >= 40 {
		c14recheckKept(c)
	}
}

// failAfter is a writer that accepts n bytes and then fails (a full disk, a closed pipe).
type failAfter struct{ n int }

func (f *failAfter) Write(p []byte) (int, error) {
	if len(p) <= f.n {
		f.n -= len(p)
		return len(p), nil
	}
	k := f.n
	f.n = 0
	return k, fmt.Errorf("write failed")
}

type c14case struct {
	c     *fw.Ctx
	left  []string
	right []string
	n     int
	what  string // which diff (New / AddContext(n).Unify())
	data  map[string]any
	// noApply: the chunks sit at line numbers of a file too large to build;
	// the texts are parsed and read back but not applied
	noApply bool
}

func (k *c14case) fail(format string, args ...any) {
	k.c.Fail(k.data, "%s: %s", k.what, fmt.Sprintf(format, args...))
}

// classifyUnifiedRead compares an actual parse of unified text against the
// reference parse; returns "ok", "f5" or a problem description.
func classifyUnifiedRead(actual []*mdiff.Chunk, hunks []uHunk) string {
	want := hunkChunks(hunks, false)
	if equalChunks(actual, want) {
		return "ok"
	}
	omitted := false
	for _, h := range hunks {
		if h.LOmit || h.ROmit {
			omitted = true
		}
	}
	if omitted && equalChunks(actual, hunkChunks(hunks, true)) {
		return "f5"
	}
	return fmt.Sprintf("reader returned %s, the text says %s", chunksString(actual), chunksString(want))
}

func (k *c14case) checkUnified(cs []*mdiff.Chunk, fi *mdiff.FileInfo) (text string) {
	var buf bytes.Buffer
	if err := mdiff.Unified(&buf, cs, fi); err != nil {
		k.fail("Unified: %v", err)
		return ""
	}
	text = buf.String()
	k.data["unified_text"] = fw.Q(text)
	if len(cs) == 0 {
		if text != "" {
			k.fail("Unified of no chunks wrote %q", text)
		}
		return text
	}
	lines := splitLines(text)
	l, r, hasHdr, hunks, rest, err := parseUnifiedRef(lines)
	if err != nil || len(rest) != 0 {
		k.fail("unified text does not parse by the published rules: %v (unparsed tail %q)", err, rest)
		return text
	}
	if hasHdr != (fi != nil) {
		k.fail("unified header present=%v, file info given=%v", hasHdr, fi != nil)
		return text
	}
	_ = l
	_ = r
	// the text must describe the original changes at the original ranges
	if want := normaliseUnified(cs); !equalChunks(hunkChunks(hunks, false), want) {
		k.fail("unified text describes %s, the diff has %s", chunksString(hunkChunks(hunks, false)), chunksString(want))
		return text
	}
	for _, h := range hunks {
		if h.LCount == 0 || h.RCount == 0 {
			k.c.Add("empty_range_hunks", 1)
		}
		if h.LCount == 1 || h.RCount == 1 {
			k.c.Add("single_line_side_hunks", 1)
		}
	}
	// strict reference applier
	got, prob := k.right, ""
	if !k.noApply {
		got, prob = applyUnifiedRef(hunks, k.left)
		k.c.Add("ref_apply_unified", 1)
	}
	if prob != "" || !equalStrings(got, k.right) {
		k.fail("unified text applied to Left by the published rules: %s (result %q)", prob, got)
		return text
	}
	// reader round trip
	p, err := mdiff.ReadUnified(strings.NewReader(text))
	k.c.Add("unified_roundtrips", 1)
	if err != nil {
		k.fail("ReadUnified fails on Unified's own output: %v", err)
		return text
	}
	c14keep(k.c, p, "unified", text)
	switch cl := classifyUnifiedRead(p.Chunks, hunks); cl {
	case "ok":
		var b2 bytes.Buffer
		p.Format(&b2, mdiff.Unified)
		if b2.String() != text && !c14customTimes(fi) {
			k.fail("re-formatting the parsed unified patch gives %q, not the original text", b2.String())
			return text
		}
		if c14customTimes(fi) {
			k.c.Add("custom_time_format_headers", 1)
		}
	case "f5":
		k.c.Known("F5", k.data, "%s: ReadUnified reads an omitted count as a zero-length range: got %s", k.what, chunksString(p.Chunks))
	default:
		k.fail("ReadUnified: %s", cl)
		return text
	}
	if fi != nil {
		k.c.Add("fileinfo_roundtrips", 1)
		if p.FileInfo == nil {
			k.fail("ReadUnified lost the file header")
			return text
		}
		wl, wr := fi.Left, fi.Right
		if wl == "" {
			wl = "a"
		}
		if wr == "" {
			wr = "b"
		}
		if p.FileInfo.Left != wl || p.FileInfo.Right != wr {
			k.fail("file names read back as %q / %q, written %q / %q", p.FileInfo.Left, p.FileInfo.Right, wl, wr)
			return text
		}
		if !c14customTimes(fi) && (!p.FileInfo.LeftTime.Equal(fi.LeftTime) || !p.FileInfo.RightTime.Equal(fi.RightTime)) {
			k.fail("timestamps read back as %v / %v, written %v / %v", p.FileInfo.LeftTime, p.FileInfo.RightTime, fi.LeftTime, fi.RightTime)
			return text
		}
	} else if p.FileInfo != nil {
		k.fail("ReadUnified invented a file header")
	}
	return text
}

func (k *c14case) checkNormal(cs []*mdiff.Chunk) (text string) {
	var buf bytes.Buffer
	if err := mdiff.Normal(&buf, cs, nil); err != nil {
		k.fail("Normal: %v", err)
		return ""
	}
	text = buf.String()
	k.data["normal_text"] = fw.Q(text)
	if len(cs) == 0 {
		if text != "" {
			k.fail("Normal of no chunks wrote %q", text)
		}
		return text
	}
	cmds, err := parseNormalRef(splitLines(text))
	if err != nil {
		k.fail("normal text does not parse by the published rules: %v", err)
		return text
	}
	want := perCommand(cs)
	if !equalChunks(normalChunks(cmds), want) {
		k.fail("normal text describes %s, the diff has %s", chunksString(normalChunks(cmds)), chunksString(want))
		return text
	}
	got, prob := k.right, ""
	if !k.noApply {
		got, prob = applyNormalRef(cmds, k.left)
		k.c.Add("ref_apply_normal", 1)
	}
	if prob != "" || !equalStrings(got, k.right) {
		k.fail("normal text applied to Left by the published rules: %s (result %q)", prob, got)
		return text
	}
	p, err := mdiff.Read(strings.NewReader(text))
	k.c.Add("normal_roundtrips", 1)
	if err != nil {
		k.fail("Read fails on Normal's own output: %v", err)
		return text
	}
	if !equalChunks(p.Chunks, want) {
		k.fail("Read returned %s, the text says %s", chunksString(p.Chunks), chunksString(want))
		return text
	}
	c14keep(k.c, p, "normal", text)
	var b2 bytes.Buffer
	p.Format(&b2, mdiff.Normal)
	if b2.String() != text {
		k.fail("re-formatting the parsed normal patch gives %q, not the original text", b2.String())
	}
	return text
}

func (k *c14case) checkContext(cs []*mdiff.Chunk, fi *mdiff.FileInfo) (text string) {
	var buf bytes.Buffer
	if err := mdiff.Context(&buf, cs, fi); err != nil {
		k.fail("Context: %v", err)
		return ""
	}
	text = buf.String()
	k.data["context_text"] = fw.Q(text)
	if len(cs) == 0 {
		return text
	}
	if k.noApply {
		return text
	}
	got, prob := applyContextRef(splitLines(text), k.left)
	k.c.Add("ref_apply_context", 1)
	if prob != "" || !equalStrings(got, k.right) {
		k.fail("context text applied to Left by the published rules: %s (result %q)", prob, got)
	}
	return text
}

var c14names = []string{"a.txt", "dir/original.go", "with space.txt", "ünï.c", "b", "x/y/z", "---", "+++ q", "@@", "100%done.txt", "%s", "a%20b.c", "%!d(x)%v", "back\\slash", "quo\"te",
	// names that look like other notations: C-quoted (git core.quotePath, GNU diff), shell-quoted, prefixed, special
	"\"draft\"", "\"final copy\"", "\"\\303\\274.c\"", "'single'", "a/x.go", "b/x.go", "dev/null", "\"", "\"\"", " lead", "trail ", "\\\"x\\\"", "\ufeffbom.txt", "x#y", "~"}

// c14fileInfo: with special set, a sixth of the timestamps are ones that
// programs treat specially (not for texts handed to GNU patch: patch takes an
// epoch timestamp to mean that the file does not exist, a convention of the
// tool, not of the format).
func c14fileInfo(r *rand.Rand, special bool) *mdiff.FileInfo {
	if r.IntN(3) == 0 {
		return nil
	}
	fi := &mdiff.FileInfo{Left: c14names[r.IntN(len(c14names))], Right: c14names[r.IntN(len(c14names))]}
	if r.IntN(4) == 0 {
		fi.Left = ""
	}
	if special && r.IntN(6) == 0 {
		// names that tools give a meaning of their own (git and GNU patch read
		// /dev/null as "no such file"): not for texts handed to GNU patch
		toolNames := []string{"/dev/null", "/dev/null", "a//dev/null", "/dev/stdin", "-", "NUL", ".", "/"}
		if r.IntN(2) == 0 {
			fi.Left = toolNames[r.IntN(len(toolNames))]
		} else {
			fi.Right = toolNames[r.IntN(len(toolNames))]
		}
	}
	mk := func() time.Time {
		if r.IntN(3) == 0 {
			return time.Time{}
		}
		if special && r.IntN(6) == 0 {
			// timestamps that programs treat specially: the Unix epoch (in several
			// zones), its neighbours, the ends of the 32-bit time_t range, years 1,
			// 1601, 1900, 9999, a leap day
			zones := []*time.Location{time.UTC, time.FixedZone("", -8*3600), time.FixedZone("", 5*3600+1800)}
			z := zones[r.IntN(len(zones))]
			special := []time.Time{
				time.Unix(0, 0), time.Unix(0, 1000), time.Unix(1, 0), time.Unix(-1, 0), time.Unix(0, 999999000),
				time.Unix(1<<31-1, 0), time.Unix(1<<31, 0), time.Unix(-1<<31, 0), time.Unix(1<<32, 0),
				time.Date(1, 1, 2, 0, 0, 1, 0, time.UTC), time.Date(1601, 1, 1, 0, 0, 0, 0, time.UTC), time.Date(1900, 1, 1, 0, 0, 0, 0, time.UTC),
				time.Date(9999, 12, 30, 23, 59, 59, 999999000, time.UTC), time.Date(2000, 2, 29, 12, 0, 0, 0, time.UTC), time.Date(1969, 12, 31, 16, 0, 0, 0, time.FixedZone("", -8*3600)),
			}
			return special[r.IntN(len(special))].In(z)
		}
		zone := time.FixedZone("", []int{0, -7 * 3600, 5*3600 + 1800, 13 * 3600, -3600 * 11}[r.IntN(5)])
		us := []int{0, 1, 123456, 500000, 999999, 120000}[r.IntN(6)]
		return time.Date(1970+r.IntN(80), time.Month(1+r.IntN(12)), 1+r.IntN(28), r.IntN(24), r.IntN(60), r.IntN(60), us*1000, zone)
	}
	fi.LeftTime, fi.RightTime = mk(), mk()
	if r.IntN(4) == 0 {
		// a time format other than the default one: the timestamps then need not
		// survive reading back, the file names must
		fi.TimeFormat = []string{time.ANSIC, time.RFC3339, time.Kitchen, "2006-01-02", time.RFC1123Z, "Jan _2 15:04"}[r.IntN(6)]
	}
	return fi
}

// c14customTimes reports whether fi writes timestamps in a non-default format.
func c14customTimes(fi *mdiff.FileInfo) bool {
	return fi != nil && fi.TimeFormat != "" && fi.TimeFormat != mdiff.TimeFormat && (!fi.LeftTime.IsZero() || !fi.RightTime.IsZero())
}

// c14one runs all in-process checks on one (left, right, n) and returns the
// texts for the external tools.
func c14one(c *fw.Ctx, left, right []string, n int, fi *mdiff.FileInfo) (texts map[string]string, nontrivial bool) {
	texts = map[string]string{}
	base := map[string]any{"left": fw.Qs(left), "right": fw.Qs(right), "n": n}
	ok, pv, stack := fw.Try(func() {
		for variant := 0; variant < 2; variant++ {
			d := mdiff.New(left, right)
			what := "New"
			if variant == 1 {
				if n == 0 {
					continue
				}
				d.AddContext(n).Unify()
				what = fmt.Sprintf("New.AddContext(%d).Unify()", n)
			}
			data := map[string]any{}
			for k2, v := range base {
				data[k2] = v
			}
			data["diff"] = what
			k := &c14case{c: c, left: left, right: right, n: n, what: what, data: data}
			for _, ch := range d.Chunks {
				if ch.LEnd-ch.LStart <= 1 || ch.REnd-ch.RStart <= 1 {
					nontrivial = true
				}
			}
			u := k.checkUnified(d.Chunks, fi)
			nm := k.checkNormal(d.Chunks)
			cx := k.checkContext(d.Chunks, fi)
			c.Step()
			tag := fmt.Sprintf("%d", variant)
			texts["u"+tag], texts["n"+tag], texts["c"+tag] = u, nm, cx
			// Diff.Format must write exactly what the format function writes, also
			// right after a Format call whose writer failed half way
			if len(u) > 2 {
				c.Add("format_after_failed_write", 1)
				d.Format(&failAfter{n: len(u) / 2}, mdiff.Unified, fi)
				d.Format(&failAfter{n: 1}, mdiff.Normal, nil)
				for _, ff := range []struct {
					name string
					f    mdiff.FormatFunc
					want string
				}{{"Unified", mdiff.Unified, u}, {"Normal", mdiff.Normal, nm}, {"Context", mdiff.Context, cx}} {
					var b bytes.Buffer
					if err := d.Format(&b, ff.f, fi); err != nil || b.String() != ff.want {
						k.fail("Diff.Format(%s) after a Format call whose writer failed wrote %q (err %v), the format function writes %q", ff.name, b.String(), err, ff.want)
						break
					}
				}
			}
		}
	})
	if !ok {
		c.FailKind("panic", base, "panic: %v\n%s", pv, stack)
	}
	return texts, nontrivial
}

// c14markers: contents that look like the formats' own markers, on both sides
// of one change and next to each other: a deleted line whose content starts
// with "-- " is written "--- ...", an inserted "++ ..." line "+++ ...", and so
// on. Every ordered pair of such contents as (last deleted, first inserted)
// line, in replacements, pure deletions and pure insertions, with 0..2 lines
// of context.
var c14markerLines = []string{"-- old", "++ new", "- ", "+ ", "-- ", "++ ", "-- a/x\t2020-01-01 00:00:00 +0000", "++ b/x", "@@ -1 +1 @@", "@ -1,2 +1,2 @@", "\\ No newline at end of file", "diff --git a/x b/x", "** 1,2 ****", "-- 1,2 ----", "1c1", "> x", "< x", "--", "*************"}

func c14markers(c *fw.Ctx, block, nblocks int) {
	n := 0
	for ai, a := range c14markerLines {
		for bi, b := range c14markerLines {
			if (ai*len(c14markerLines)+bi)%nblocks != block {
				continue
			}
			for shape := 0; shape < 4; shape++ {
				var left, right []string
				switch shape {
				case 0: // the two-line replacement: [first, a] -> [b, second]
					left, right = []string{"top", "first", a, "mid", "bottom"}, []string{"top", b, "second", "mid", "bottom"}
				case 1: // single lines
					left, right = []string{"top", a, "bottom"}, []string{"top", b, "bottom"}
				case 2: // deletion of a run ending in a, insertion elsewhere starting with b
					left, right = []string{"x", "y", a, "k1", "k2", "k3", "k4"}, []string{"k1", "k2", "k3", b, "z", "k4"}
				default: // at the very start and end of the files
					left, right = []string{a, "k", "k2"}, []string{"k", "k2", b}
				}
				for ctx := 0; ctx <= 2; ctx++ {
					fi := &mdiff.FileInfo{Left: "l.txt", Right: "r.txt"}
					if (ai+bi+ctx)%3 == 0 {
						fi = nil
					}
					c14one(c, left, right, ctx, fi)
					n++
				}
			}
			// the same contents through the git wrapper
			var buf bytes.Buffer
			d := mdiff.New([]string{"top", "first", a, "mid", "bottom"}, []string{"top", b, "second", "mid", "bottom"}).AddContext(1).Unify()
			mdiff.Unified(&buf, d.Chunks, &mdiff.FileInfo{Left: "a/f.txt", Right: "b/f.txt"})
			text := "diff --git a/f.txt b/f.txt\nindex 83db48f..bf269f4 100644\n" + buf.String()
			if ps, err := mdiff.ReadGitPatch(strings.NewReader(text)); err != nil || len(ps) != 1 {
				c.Fail(map[string]any{"git_patch_text": fw.Q(text)}, "ReadGitPatch on one wrapped file: %d patches, err=%v", len(ps), err)
			} else {
				var b2 bytes.Buffer
				ps[0].Format(&b2, mdiff.Unified)
				lines := splitLines(buf.String())
				_, _, _, hunks, _, perr := parseUnifiedRef(lines)
				if perr == nil {
					switch cl := classifyUnifiedRead(ps[0].Chunks, hunks); cl {
					case "ok":
						if b2.String() != buf.String() {
							c.Fail(map[string]any{"git_patch_text": fw.Q(text)}, "re-formatting the patch read by ReadGitPatch gives %q, not the wrapped unified text", b2.String())
						}
					case "f5":
						c.Known("F5", map[string]any{"unified_text": fw.Q(buf.String())}, "marker-like contents: ReadGitPatch reads an omitted count as a zero-length range")
					default:
						c.Fail(map[string]any{"git_patch_text": fw.Q(text)}, "ReadGitPatch: %s", cl)
					}
				}
			}
			n++
		}
	}
	c.Add("marker_like_content_cases", int64(n))
	c.Add("cases", int64(n))
}

// c14shifted: the same changes at large line numbers. A small diff is
// computed, then every chunk is moved down by delta lines, as in the diff of a
// file that has delta unchanged lines in front. For delta up to about a
// million the file is really built (so the texts are also applied); beyond,
// the texts are parsed by the reference parsers and read back only. The line
// numbers cross every power of ten up to 10^18 and 2^31, 2^32, 2^53.
func c14shifted(c *fw.Ctx, r *rand.Rand, delta int) {
	left, right := c14randomPair(r, 12, true)
	if equalStrings(left, right) {
		right = append(right, "tail")
	}
	n := r.IntN(4)
	d := mdiff.New(left, right)
	if n > 0 {
		d.AddContext(n).Unify()
	}
	cs := make([]*mdiff.Chunk, len(d.Chunks))
	for i, ch := range d.Chunks {
		cs[i] = &mdiff.Chunk{Edits: ch.Edits, LStart: ch.LStart + delta, LEnd: ch.LEnd + delta, RStart: ch.RStart + delta, REnd: ch.REnd + delta}
	}
	data := map[string]any{"left": fw.Qs(left), "right": fw.Qs(right), "n": n, "unchanged_lines_in_front": delta}
	k := &c14case{c: c, n: n, what: fmt.Sprintf("chunks moved down by %d lines", delta), data: data, noApply: true}
	if delta <= 1100000 {
		filler := make([]string, delta, delta+len(left)+len(right))
		for i := range filler {
			filler[i] = "same"
		}
		k.left = append(append([]string(nil), filler...), left...)
		k.right = append(filler, right...)
		k.noApply = false
	}
	ok, pv, stack := fw.Try(func() {
		fi := c14fileInfo(r, true)
		k.checkUnified(cs, fi)
		k.checkNormal(cs)
		k.checkContext(cs, fi)
	})
	if !ok {
		c.FailKind("panic", data, "panic: %v\n%s", pv, stack)
	}
	c.Add("large_line_number_cases", 1)
	c.Step()
}

// ---------------------------------------------------------------------------
// git wrapper

func c14git(c *fw.Ctx, r *rand.Rand) {
	nfiles := 1 + r.IntN(4)
	var sb strings.Builder
	type exp struct {
		name         string
		hunks        []uHunk
		lname, rname string
		unified      string // what Unified wrote for this file
	}
	var want []exp
	if r.IntN(2) == 0 {
		sb.WriteString("commit 0123456789abcdef\nAuthor: A U Thor <a@example.com>\n\n    subject --- not a header\n\n")
	}
	for f := 0; f < nfiles; f++ {
		left, right := c14randomPair(r, 14, true)
		if equalStrings(left, right) {
			right = append(right, "tail")
		}
		n := r.IntN(4)
		d := mdiff.New(left, right)
		if n > 0 {
			d.AddContext(n).Unify()
		}
		name := []string{"f.go", "dir/g.txt", "h i.md", "ü"}[r.IntN(4)] + strconv.Itoa(f)
		// header names: the usual a/ b/ pair, the /dev/null that git writes on the
		// missing side of a created or deleted file, or any of the awkward names
		lname, rname, mode := "a/"+name, "b/"+name, r.IntN(6)
		switch mode {
		case 3:
			lname = "/dev/null"
		case 4:
			rname = "/dev/null"
		case 5:
			lname, rname = c14names[r.IntN(len(c14names))], c14names[r.IntN(len(c14names))]
		}
		var buf bytes.Buffer
		mdiff.Unified(&buf, d.Chunks, &mdiff.FileInfo{Left: lname, Right: rname})
		lines := splitLines(buf.String())
		_, _, _, hunks, _, err := parseUnifiedRef(lines)
		if err != nil {
			return // reported by the unified monitor
		}
		fmt.Fprintf(&sb, "diff --git a/%s b/%s\n", name, name)
		switch mode {
		case 0, 5:
			sb.WriteString("index 83db48f..bf269f4 100644\n")
		case 1:
			sb.WriteString("old mode 100644\nnew mode 100755\nindex 83db48f..bf269f4\n")
		case 2:
			sb.WriteString("similarity index 90%\nindex 0000000..1111111 100644\n")
		case 3:
			sb.WriteString("new file mode 100644\nindex 0000000..bf269f4\n")
		case 4:
			sb.WriteString("deleted file mode 100644\nindex 83db48f..0000000\n")
		}
		for _, ln := range lines {
			if strings.HasPrefix(ln, "@@ ") && r.IntN(2) == 0 {
				ln += " func context(here int) {"
			}
			sb.WriteString(ln + "\n")
		}
		want = append(want, exp{name, hunks, lname, rname, buf.String()})
		c.Add(fmt.Sprintf("git_header_name_mode_%d", mode), 1)
	}
	text := sb.String()
	data := map[string]any{"git_patch_text": fw.Q(text)}
	ps, err := mdiff.ReadGitPatch(strings.NewReader(text))
	c.Add("git_roundtrips", 1)
	c.Step()
	if err != nil {
		c.Fail(data, "ReadGitPatch fails on a git-style wrapper around Unified's own output: %v", err)
		return
	}
	if len(ps) != len(want) {
		c.Fail(data, "ReadGitPatch returned %d patches, the text has %d", len(ps), len(want))
		return
	}
	for i, p := range ps {
		if p.FileInfo == nil || p.FileInfo.Left != want[i].lname || p.FileInfo.Right != want[i].rname {
			c.Fail(data, "patch %d: file info %+v, want names %q %q", i, p.FileInfo, want[i].lname, want[i].rname)
			return
		}
		switch cl := classifyUnifiedRead(p.Chunks, want[i].hunks); cl {
		case "ok":
			var b2 bytes.Buffer
			p.Format(&b2, mdiff.Unified)
			if got := b2.String(); got != want[i].unified && !strings.Contains(text, " func context(here int) {") {
				c.Fail(data, "patch %d: re-formatting what ReadGitPatch read gives %q, the wrapped unified text was %q", i, got, want[i].unified)
				return
			}
		case "f5":
			c.Known("F5", data, "ReadGitPatch patch %d: omitted count read as a zero-length range: got %s", i, chunksString(p.Chunks))
		default:
			c.Fail(data, "ReadGitPatch patch %d: %s", i, cl)
			return
		}
	}
}

// ---------------------------------------------------------------------------
// external tools

type c14tools struct {
	dir       string
	patchPath string
	diffPath  string
}

func newC14tools(c *fw.Ctx) *c14tools {
	t := &c14tools{}
	t.patchPath, _ = exec.LookPath("patch")
	t.diffPath, _ = exec.LookPath("diff")
	dir, err := os.MkdirTemp(".", "c14-")
	if err != nil {
		return t
	}
	t.dir, _ = filepath.Abs(dir)
	return t
}

func (t *c14tools) close() {
	if t.dir != "" {
		os.RemoveAll(t.dir)
	}
}

func joinLines(ls []string) string {
	if len(ls) == 0 {
		return ""
	}
	return strings.Join(ls, "\n") + "\n"
}

func (t *c14tools) gnuPatch(c *fw.Ctx, left, right []string, format string, text string, data map[string]any) {
	if t.dir == "" || t.patchPath == "" || text == "" {
		return
	}
	lf, pf, of := filepath.Join(t.dir, "left.txt"), filepath.Join(t.dir, "p.diff"), filepath.Join(t.dir, "out.txt")
	os.WriteFile(lf, []byte(joinLines(left)), 0o644)
	os.WriteFile(pf, []byte(text), 0o644)
	os.Remove(of)
	flag := map[string]string{"n": "--normal", "u": "--unified", "c": "--context"}[format]
	cmd := exec.Command(t.patchPath, "--quiet", "--force", "--no-backup-if-mismatch", "--fuzz=0", flag, "--output="+of, lf, pf)
	cmd.Env = append(os.Environ(), "LC_ALL=C")
	c.Oracle(true)
	outb, err := cmd.CombinedOutput()
	c.Oracle(false)
	c.Add("gnu_patch_runs", 1)
	got, rerr := os.ReadFile(of)
	if err != nil || rerr != nil || string(got) != joinLines(right) {
		d := map[string]any{}
		for k, v := range data {
			d[k] = v
		}
		d["patch_format"] = flag
		d["patch_text"] = fw.Q(text)
		c.Fail(d, "GNU patch %s applied to Left: err=%v output=%q; result %q, want Right %q", flag, err, strings.TrimSpace(string(outb)), string(got), joinLines(right))
	}
}

func (t *c14tools) gnuDiff(c *fw.Ctx, left, right []string, n int, data map[string]any) {
	if t.dir == "" || t.diffPath == "" {
		return
	}
	lf, rf := filepath.Join(t.dir, "L.txt"), filepath.Join(t.dir, "R.txt")
	os.WriteFile(lf, []byte(joinLines(left)), 0o644)
	os.WriteFile(rf, []byte(joinLines(right)), 0o644)
	run := func(args ...string) (string, bool) {
		cmd := exec.Command(t.diffPath, append(args, lf, rf)...)
		cmd.Env = append(os.Environ(), "LC_ALL=C")
		c.Oracle(true)
		out, err := cmd.Output()
		c.Oracle(false)
		if ee, ok := err.(*exec.ExitError); ok && ee.ExitCode() == 1 {
			err = nil
		}
		return string(out), err == nil
	}
	c.Add("gnu_diff_runs", 1)
	mk := func(extra map[string]any) map[string]any {
		d := map[string]any{}
		for k, v := range data {
			d[k] = v
		}
		for k, v := range extra {
			d[k] = v
		}
		return d
	}
	// normal
	if text, ok := run(); ok && text != "" {
		cmds, err := parseNormalRef(splitLines(text))
		if err == nil {
			p, perr := mdiff.Read(strings.NewReader(text))
			d := mk(map[string]any{"gnu_diff_normal": fw.Q(text)})
			if perr != nil {
				c.Fail(d, "Read fails on GNU diff output: %v", perr)
			} else if !equalChunks(p.Chunks, normalChunks(cmds)) {
				c.Fail(d, "Read of GNU diff output returned %s, the text says %s", chunksString(p.Chunks), chunksString(normalChunks(cmds)))
			} else {
				for i, ch := range p.Chunks {
					if _, _, prob := interpretChunk(ch, left, right); prob != "" {
						c.Fail(d, "chunk %d read from GNU diff output is not a correct patch: %s", i, prob)
						return
					}
				}
				var b bytes.Buffer
				p.Format(&b, mdiff.Normal)
				if b.String() != text {
					c.Fail(d, "re-formatting GNU diff's normal output gives %q", b.String())
				}
			}
		}
	}
	// unified
	if text, ok := run("-U", strconv.Itoa(n)); ok && text != "" {
		lines := splitLines(text)
		_, _, hdr, hunks, rest, err := parseUnifiedRef(lines)
		if err == nil && hdr && len(rest) == 0 {
			p, perr := mdiff.ReadUnified(strings.NewReader(text))
			d := mk(map[string]any{"gnu_diff_unified": fw.Q(text)})
			if perr != nil {
				c.Fail(d, "ReadUnified fails on GNU diff -U%d output: %v", n, perr)
				return
			}
			switch cl := classifyUnifiedRead(p.Chunks, hunks); cl {
			case "ok":
				for i, ch := range p.Chunks {
					if _, _, prob := interpretChunk(ch, left, right); prob != "" {
						c.Fail(d, "chunk %d read from GNU diff -U output is not a correct patch: %s", i, prob)
						return
					}
				}
			case "f5":
				c.Known("F5", d, "ReadUnified on GNU diff -U%d output: omitted count read as a zero-length range", n)
			default:
				c.Fail(d, "ReadUnified on GNU diff -U%d output: %s", n, cl)
			}
			if p.FileInfo == nil || p.FileInfo.Left != lf || p.FileInfo.Right != rf {
				c.Fail(d, "ReadUnified on GNU diff output: file names %+v, want %s %s", p.FileInfo, lf, rf)
			}
		}
	}
}

// ---------------------------------------------------------------------------

func c14randomPair(r *rand.Rand, maxLen int, safe bool) (left, right []string) {
	k := 2 + r.IntN(5)
	pool := make([]string, k)
	for i := range pool {
		for {
			pool[i] = c14alphabet[r.IntN(len(c14alphabet))]
			if !safe || !strings.Contains(pool[i], "\r") {
				break
			}
		}
	}
	if maxLen >= 30 && r.IntN(25) == 0 {
		// a very long line (beyond common 4096-byte buffer sizes)
		L := []int{4090, 4093, 4094, 4095, 4096, 4097, 5000, 8191, 8192, 9000, 20000}[r.IntN(11)]
		pool[0] = strings.Repeat("long line ", L/10+1)[:L]
		if r.IntN(2) == 0 {
			pool[1] = pool[0][:L-1] + "!"
		}
	}
	n := r.IntN(maxLen + 1)
	left = make([]string, n)
	for i := range left {
		if i > 0 && r.IntN(3) == 0 {
			left[i] = left[i-1]
		} else {
			left[i] = pool[r.IntN(k)]
		}
	}
	right = append([]string(nil), left...)
	for m := r.IntN(7); m > 0; m-- {
		if len(right) == 0 {
			right = append(right, pool[r.IntN(k)])
			continue
		}
		p := r.IntN(len(right))
		switch r.IntN(4) {
		case 0:
			right[p] = pool[r.IntN(k)]
		case 1:
			ins := make([]string, 1+r.IntN(3))
			for i := range ins {
				ins[i] = pool[r.IntN(k)]
			}
			at := r.IntN(len(right) + 1)
			right = append(right[:at:at], append(ins, right[at:]...)...)
		case 2:
			q := min(len(right), p+1+r.IntN(3))
			right = append(right[:p:p], right[q:]...)
		case 3:
			q := min(len(right), p+1+r.IntN(3))
			blk := append([]string(nil), right[p:q]...)
			right = append(right[:q:q], append(blk, right[q:]...)...)
		}
	}
	if r.IntN(2) == 0 {
		left, right = right, left
	}
	return
}

// c14localZone gives each block (a process of its own) a local time zone: the
// header timestamps are written in several fixed offsets, and what the reader
// makes of a timestamp whose offset happens to be the local one must not
// differ from any other.
func c14localZone(c *fw.Ctx) {
	var loc *time.Location
	switch c.Block % 8 {
	case 1:
		loc = time.FixedZone("", 5*3600+1800)
	case 2:
		loc = time.FixedZone("", -7*3600)
	case 3:
		loc, _ = time.LoadLocation("Asia/Kolkata")
	case 4:
		loc = time.FixedZone("", 13*3600)
	case 5:
		loc, _ = time.LoadLocation("America/Los_Angeles")
	case 6:
		loc = time.FixedZone("", -11*3600)
	case 7:
		loc, _ = time.LoadLocation("Europe/London")
	}
	if loc != nil {
		time.Local = loc
		c.Add("blocks_with_a_local_zone_other_than_utc", 1)
	}
}

func runC14(c *fw.Ctx) {
	c14localZone(c)
	defer c14recheckKept(c)
	tools := newC14tools(c)
	defer tools.close()
	if c.Block == 0 && (tools.patchPath == "" || tools.diffPath == "") {
		c.Inconclusive("GNU patch or GNU diff not found on PATH")
	}
	idx := 0
	// exhaustive small space: alphabet {"a", ""} and {"a","b"}; lengths <= 5; n 0..3
	cnt := countSeqsC14(2, c.Pick(5, 7))
	for li := c.Block; li < cnt; li += c.NBlocks {
		if !c.Begin(idx + li) {
			continue
		}
		var cases, nt int64
		for _, alpha := range [][]string{{"a", "b"}, {"x", ""}} {
			left := linesC14(seqOfC14(li, 2), alpha)
			for ri := 0; ri < cnt; ri++ {
				right := linesC14(seqOfC14(ri, 2), alpha)
				for n := 0; n <= 3; n++ {
					_, nontr := c14one(c, left, right, n, nil)
					cases++
					if nontr {
						nt++
					}
				}
			}
		}
		c.Evals(cases - 1)
		c.Add("cases", cases)
		c.SeenEnum(nt)
		if c.Stopped() {
			return
		}
	}
	idx += cnt
	if c.Begin(idx + 8000000 + c.Block) {
		ok, pv, stack := fw.Try(func() { c14markers(c, c.Block, c.NBlocks) })
		if !ok {
			c.FailKind("panic", map[string]any{"phase": "marker-like contents"}, "panic: %v\n%s", pv, stack)
		}
	}
	// every line length 0..300 and windows around 512, 1000, 1024, 2000, 4096: a
	// deleted, an inserted and a context line of that length, each followed by
	// another line
	if c.Begin(idx + 8100000 + c.Block) {
		var lens []int
		for L := 0; L <= 300; L++ {
			lens = append(lens, L)
		}
		for _, m := range []int{512, 1000, 1024, 2000, 4096} {
			for d := -3; d <= 3; d++ {
				lens = append(lens, m+d)
			}
		}
		n := 0
		for li, L := range lens {
			if li%c.NBlocks != c.Block {
				continue
			}
			x := strings.Repeat("x", L)
			y := strings.Repeat("y", L)
			left := []string{"top", x, "old tail", "mid", x + "k", "bottom"}
			right := []string{"top", y, "new tail", "mid", x + "k", "bottom"}
			for ctx := 0; ctx <= 1; ctx++ {
				c14one(c, left, right, ctx, &mdiff.FileInfo{Left: "l", Right: "r"})
				n++
			}
		}
		c.Add("line_length_sweep_cases", int64(n))
		c.Add("cases", int64(n))
	}
	// random cases; a sample goes through GNU patch / GNU diff
	nr := c.Pick(2500, 40000)
	patchEvery := c.Pick(12, 12)
	for k := 0; k < nr; k++ {
		if !c.Begin(idx + k) {
			continue
		}
		r := c.Rng()
		ext := k%patchEvery == 0
		left, right := c14randomPair(r, 40, ext)
		n := r.IntN(5)
		fi := c14fileInfo(r, !ext)
		texts, nontr := c14one(c, left, right, n, fi)
		c.Add("cases", 1)
		if nontr {
			h := fw.NewH()
			for _, s := range left {
				h.Str(s)
			}
			h.Int(-1)
			for _, s := range right {
				h.Str(s)
			}
			h.Int(n)
			c.Seen(h.Sum())
		}
		if c.WantSample() && len(left) > 3 && len(left) < 9 && nontr && n > 0 {
			c.Sample(map[string]any{"left": fw.Qs(left), "right": fw.Qs(right), "n": n, "unified": fw.Q(texts["u1"]), "normal": fw.Q(texts["n1"]), "context": fw.Q(texts["c1"])})
		}
		if ext && c14patchSafe(left) && c14patchSafe(right) {
			data := map[string]any{"left": fw.Qs(left), "right": fw.Qs(right), "n": n}
			for _, v := range []string{"0", "1"} {
				for _, f := range []string{"n", "u", "c"} {
					if t := texts[f+v]; t != "" {
						tools.gnuPatch(c, left, right, f, t, data)
					}
				}
			}
			if k%(patchEvery*4) == 0 {
				tools.gnuDiff(c, left, right, n, data)
			}
		}
		if k%5 == 0 {
			c14git(c, r)
		}
		if k%40 == 7 {
			pow64 := int64(1)
			for i := 1 + (k/40)%18; i > 0; i-- {
				pow64 *= 10
			}
			pow := clipInt(pow64)
			base := []int{pow, clipInt(1 << 31), clipInt(1 << 32), clipInt(1 << 53), clipInt(1 << 62), pow}[(k/40+c.Block)%6]
			if k%80 == 7 && base > 1000000 {
				base = []int{100, 1000, 10000, 100000, 1000000}[(k/80)%5] // files that are really built
			}
			c14shifted(c, r, max(0, min(base, math.MaxInt-64)-12+r.IntN(14)))
		}
	}
}

func countSeqsC14(a, maxLen int) int {
	n, p := 0, 1
	for l := 0; l <= maxLen; l++ {
		n += p
		p *= a
	}
	return n
}

func seqOfC14(idx, a int) []int {
	l := 0
	block := 1
	for idx >= block {
		idx -= block
		block *= a
		l++
	}
	s := make([]int, l)
	for i := l - 1; i >= 0; i-- {
		s[i] = idx % a
		idx /= a
	}
	return s
}

func linesC14(code []int, alpha []string) []string {
	out := make([]string, len(code))
	for i, v := range code {
		out[i] = alpha[v]
	}
	return out
}
