//go:build pC11 || pC12 || pall

package props

import (
	"math"
	"math/rand/v2"
)

// Inputs whose element type has a non-reflexive == (floats holding NaN, and
// structs and arrays of them), handed over as two unrelated slices, as the
// same slice twice, and as two windows of one backing array. codes are ints
// that are equal exactly where the elements are == (every NaN gets a code of
// its own, +0 and -0 share one), so that the int instantiation, which the
// main monitor verifies, says what the float instantiation has to return.

type nrPair struct {
	A, B   []float64
	CA, CB []int
	How    string
}

func nrPairOf(r *rand.Rand, k int) nrPair {
	pool := []float64{1.5, 2.5, math.NaN(), 0, math.Copysign(0, -1), math.Inf(1), math.NaN()}
	next := 100
	codeOf := func(v float64) int {
		switch {
		case v != v:
			next++
			return next
		case v == 0:
			return 0
		case math.IsInf(v, 1):
			return 3
		}
		return int(v) // 1.5 -> 1, 2.5 -> 2
	}
	mk := func(n int) []float64 {
		out := make([]float64, n)
		for i := range out {
			out[i] = pool[r.IntN(len(pool))]
		}
		return out
	}
	codes := func(vs []float64) []int {
		out := make([]int, len(vs))
		for i, v := range vs {
			out[i] = codeOf(v)
		}
		return out
	}
	var p nrPair
	switch k % 4 {
	case 0:
		p.A, p.B, p.How = mk(r.IntN(9)), mk(r.IntN(9)), "two unrelated slices"
	case 1:
		p.A = mk(1 + r.IntN(9))
		p.B, p.How = p.A, "the same slice as both arguments"
	case 2:
		x := mk(2 + r.IntN(10))
		i, j := r.IntN(len(x)), r.IntN(len(x))
		p.A, p.B, p.How = x[:i], x[j:], "a prefix and a suffix of one backing array"
	case 3:
		x := mk(2 + r.IntN(10))
		p.A, p.B, p.How = x, x[:r.IntN(len(x)+1)], "a slice and its own prefix"
	}
	p.CA, p.CB = codes(p.A), codes(p.B)
	return p
}

func nrShow(vs []float64) []string {
	out := make([]string, len(vs))
	for i, v := range vs {
		switch {
		case v != v:
			out[i] = "NaN"
		case v == 0 && math.Signbit(v):
			out[i] = "-0"
		default:
			out[i] = trimFloat(v)
		}
	}
	return out
}

func trimFloat(v float64) string {
	if math.IsInf(v, 1) {
		return "+Inf"
	}
	if v == 0 {
		return "0"
	}
	if v == 1.5 {
		return "1.5"
	}
	return "2.5"
}
