//go:build pC12 || pall

package props

import (
	"cmp"
	"fmt"
	"math"
	"math/rand/v2"
	"runtime"
	"slices"
	"sort"
	"strconv"

	"github.com/creachadair/mds/slice"
	"verif/harness/fw"
)

// C12 — LCS, LIS and LNDS return optimal subsequences. Elements carry their
// position (and, for LCS, which input they came from), so "is a subsequence"
// is a strictly-increasing-positions check; optimal lengths come from
// independent quadratic references.

func init() {
	fw.Register(&fw.Property{
		ID: "C12",
		Meta: func(tier string) fw.Meta {
			return fw.Meta{
				Flavours: []string{"plain", "race", "cover", "386"},
				Blocks:   16,
				Procs:    16,
				Rule: "LIS/LNDS: every sequence over alphabet 4 x length <= 8, alphabet 3 x length <= 11 and alphabet 2 x length <= 13 (exhaustive), each under four comparators (natural -1/0/+1, reversed, a 'wide' comparator returning the difference a-b, and one returning MinInt/MaxInt); a structured family of two interleaved ascending runs with run lengths 1..70 and 2^k-1..2^k+1 up to 1024, plus random sequences up to 1500 (5000 thorough) with heavy duplication, and sequences of 32769..131072 elements (length checked against an O(n log n) patience reference); " +
					"LCS/LCSFunc: every pair over alphabet 2 x length <= 7 and alphabet 3 x length <= 5 (exhaustive) plus random pairs up to 300 of very different lengths and pairs of 4100..11700 elements (length products past 2^24..2^27). " +
					"Checks: returned elements identify strictly increasing positions of the input (for LCS: of one input, and their values form a subsequence of the other), strict / non-strict order under the comparator used, length == quadratic reference, inputs unmodified; 8 goroutines call LIS/LNDS/LCS concurrently on unshared inputs (plain and under -race), a comparison callback that itself calls LIS (re-entrancy), and LCS instantiated with interface-typed elements; interleaved with all of it, calls that are abandoned half-way (the comparison function panics after m calls and the caller recovers) so that every verified call also runs right after a failed one. " +
					"Element types whose == is not reflexive (floats holding NaN, structs and arrays of them; +0 and -0): two unrelated slices, the same slice as both arguments, windows of one backing array; the result must be the one the int instantiation gives on codes that are equal exactly where the elements are ==. " +
					"distinct = the input (enumerated without repetition; random by hash); non-trivial = the input has a repeated value (ties)",
				Required:     []string{"lis_inputs", "lnds_inputs", "lcs_pairs", "wide_comparator_inputs", "reversed_comparator_inputs", "lcs_unequal_length_pairs", "structured_two_run_inputs", "concurrent_calls", "reentrant_calls", "interface_element_cases", "non_reflexive_element_cases", "abandoned_calls", "very_large_inputs", "wraparound_schedules", "very_long_answer_inputs", "monotone_run_inputs"},
				Exhaustive:   true,
				Assumptions:  []string{"quadratic DP references for LIS/LNDS/LCS lengths"},
				CoverPkgs:    []string{"github.com/creachadair/mds/slice"},
				CoverAnchors: []string{"slice/lis.go", "slice/edit.go:LCS", "slice/edit.go:LCSFunc"},
			}
		},
		Run: runC12,
	})
}

type pe struct {
	V    int
	Pos  int
	Side int
}

func refLIS(vs []int, cmp func(a, b int) int, strict bool) int {
	best := 0
	L := make([]int, len(vs))
	for i := range vs {
		L[i] = 1
		for j := 0; j < i; j++ {
			c := cmp(vs[j], vs[i])
			if (strict && c < 0) || (!strict && c <= 0) {
				if L[j]+1 > L[i] {
					L[i] = L[j] + 1
				}
			}
		}
		if L[i] > best {
			best = L[i]
		}
	}
	return best
}

// c12ref: the quadratic reference up to 6000 elements, beyond that patience
// sorting with binary search (the comparator must then be a total preorder,
// which all four used here are).
func c12ref(vs []int, cmp func(a, b int) int, strict bool) int {
	if len(vs) <= 6000 {
		return refLIS(vs, cmp, strict)
	}
	var tails []int
	for _, v := range vs {
		i := sort.Search(len(tails), func(i int) bool {
			d := cmp(tails[i], v)
			if strict {
				return d >= 0
			}
			return d > 0
		})
		if i == len(tails) {
			tails = append(tails, v)
		} else {
			tails[i] = v
		}
	}
	return len(tails)
}

var c12cmps = []struct {
	name string
	f    func(a, b int) int
}{
	{"natural", func(a, b int) int {
		switch {
		case a < b:
			return -1
		case a > b:
			return 1
		}
		return 0
	}},
	{"reversed", func(a, b int) int {
		switch {
		case a > b:
			return -1
		case a < b:
			return 1
		}
		return 0
	}},
	{"wide(a-b)", func(a, b int) int { return clipInt(int64(a) - int64(b)) }},
	{"extreme(MinInt/MaxInt)", func(a, b int) int {
		switch {
		case a < b:
			return math.MinInt
		case a > b:
			return math.MaxInt
		}
		return 0
	}},
}

func c12seq(c *fw.Ctx, vs []int, ci int) {
	cm := c12cmps[ci]
	in := make([]pe, len(vs))
	for i, v := range vs {
		in[i] = pe{V: v, Pos: i}
	}
	keep := append([]pe(nil), in...)
	pcmp := func(a, b pe) int { return cm.f(a.V, b.V) }
	for _, strict := range []bool{true, false} {
		name := "LNDSFunc"
		if strict {
			name = "LISFunc"
		}
		var out []pe
		ok, pv, stack := fw.Try(func() {
			if strict {
				out = slice.LISFunc(in, pcmp)
			} else {
				out = slice.LNDSFunc(in, pcmp)
			}
		})
		c.Step()
		caseData := map[string]any{"func": name, "comparator": cm.name, "input": vs}
		if !ok {
			c.FailKind("panic", caseData, "%s panicked: %v\n%s", name, pv, stack)
			return
		}
		for i := range in {
			if in[i] != keep[i] {
				c.Fail(caseData, "%s modified its input at index %d", name, i)
				return
			}
		}
		vals := make([]int, len(out))
		for i, e := range out {
			vals[i] = e.V
		}
		caseData["output"] = vals
		for i, e := range out {
			if e.Pos < 0 || e.Pos >= len(in) || in[e.Pos] != e {
				c.Fail(caseData, "%s: output element %d is not an element of the input", name, i)
				return
			}
			if i > 0 {
				if out[i-1].Pos >= e.Pos {
					c.Fail(caseData, "%s: output is not a subsequence: positions %d then %d", name, out[i-1].Pos, e.Pos)
					return
				}
				d := cm.f(out[i-1].V, e.V)
				if (strict && d >= 0) || (!strict && d > 0) {
					c.Fail(caseData, "%s: output not %s at index %d: %d then %d", name, map[bool]string{true: "strictly increasing", false: "non-decreasing"}[strict], i, out[i-1].V, e.V)
					return
				}
			}
		}
		if want := c12ref(vs, cm.f, strict); len(out) != want {
			c.Fail(caseData, "%s: output has length %d, the optimum is %d", name, len(out), want)
			return
		}
	}
	// Also the cmp.Ordered entry points under the natural order.
	if ci == 0 {
		for _, strict := range []bool{true, false} {
			var out []int
			cp := append([]int(nil), vs...)
			if strict {
				out = slice.LIS(cp)
			} else {
				out = slice.LNDS(cp)
			}
			name := map[bool]string{true: "LIS", false: "LNDS"}[strict]
			caseData := map[string]any{"func": name, "input": vs, "output": out}
			if !equalInts(cp, vs) {
				c.Fail(caseData, "%s modified its input", name)
				return
			}
			// subsequence by greedy matching + order + length
			j := 0
			for _, v := range out {
				for j < len(vs) && vs[j] != v {
					j++
				}
				if j == len(vs) {
					c.Fail(caseData, "%s: output is not a subsequence of the input", name)
					return
				}
				j++
			}
			for i := 1; i < len(out); i++ {
				if (strict && out[i-1] >= out[i]) || (!strict && out[i-1] > out[i]) {
					c.Fail(caseData, "%s: output not ordered at index %d", name, i)
					return
				}
			}
			if want := c12ref(vs, c12cmps[0].f, strict); len(out) != want {
				c.Fail(caseData, "%s: output has length %d, the optimum is %d", name, len(out), want)
				return
			}
		}
	}
}

func c12lcs(c *fw.Ctx, a, b []int) {
	as := make([]pe, len(a))
	bs := make([]pe, len(b))
	for i, v := range a {
		as[i] = pe{V: v, Pos: i, Side: 0}
	}
	for i, v := range b {
		bs[i] = pe{V: v, Pos: i, Side: 1}
	}
	ka, kb := append([]pe(nil), as...), append([]pe(nil), bs...)
	var out []pe
	caseData := map[string]any{"func": "LCSFunc", "a": a, "b": b}
	ok, pv, stack := fw.Try(func() { out = slice.LCSFunc(as, bs, func(x, y pe) bool { return x.V == y.V }) })
	c.Step()
	if !ok {
		c.FailKind("panic", caseData, "LCSFunc panicked: %v\n%s", pv, stack)
		return
	}
	for i := range as {
		if as[i] != ka[i] {
			c.Fail(caseData, "LCSFunc modified its first input")
			return
		}
	}
	for i := range bs {
		if bs[i] != kb[i] {
			c.Fail(caseData, "LCSFunc modified its second input")
			return
		}
	}
	vals := make([]int, len(out))
	for i, e := range out {
		vals[i] = e.V
	}
	caseData["output"] = vals
	want, _ := lcsLen(a, b)
	if len(out) != want {
		c.Fail(caseData, "LCSFunc output has length %d, the optimum is %d", len(out), want)
		return
	}
	if len(out) > 0 {
		side := out[0].Side
		src, other := as, b
		if side == 1 {
			src, other = bs, a
		}
		j := 0
		for i, e := range out {
			if e.Side != side || e.Pos < 0 || e.Pos >= len(src) || src[e.Pos] != e {
				c.Fail(caseData, "LCSFunc output element %d is not an element of one input", i)
				return
			}
			if i > 0 && out[i-1].Pos >= e.Pos {
				c.Fail(caseData, "LCSFunc output is not a subsequence of input %d: positions %d then %d", side, out[i-1].Pos, e.Pos)
				return
			}
			for j < len(other) && other[j] != e.V {
				j++
			}
			if j == len(other) {
				c.Fail(caseData, "LCSFunc output is not a subsequence of the other input")
				return
			}
			j++
		}
	}
	// LCS on plain comparable values
	ca, cb := append([]int(nil), a...), append([]int(nil), b...)
	o2 := slice.LCS(ca, cb)
	cd2 := map[string]any{"func": "LCS", "a": a, "b": b, "output": o2}
	if !equalInts(ca, a) || !equalInts(cb, b) {
		c.Fail(cd2, "LCS modified an input")
		return
	}
	if len(o2) != want || !isSubseq(o2, a) || !isSubseq(o2, b) {
		c.Fail(cd2, "LCS output (length %d) is not a common subsequence of optimal length %d", len(o2), want)
	}
}

func isSubseq(x, of []int) bool {
	j := 0
	for _, v := range x {
		for j < len(of) && of[j] != v {
			j++
		}
		if j == len(of) {
			return false
		}
		j++
	}
	return true
}

func lcsLen(a, b []int) (int, bool) {
	prev := make([]int, len(b)+1)
	cur := make([]int, len(b)+1)
	for i := 1; i <= len(a); i++ {
		for j := 1; j <= len(b); j++ {
			switch {
			case a[i-1] == b[j-1]:
				cur[j] = prev[j-1] + 1
			case prev[j] >= cur[j-1]:
				cur[j] = prev[j]
			default:
				cur[j] = cur[j-1]
			}
		}
		prev, cur = cur, prev
	}
	return prev[len(b)], true
}

func hasRepeat(vs []int) bool {
	seen := map[int]bool{}
	for _, v := range vs {
		if seen[v] {
			return true
		}
		seen[v] = true
	}
	return false
}

func c12seqOf(idx, a int) []int {
	l := 0
	block := 1
	for idx >= block {
		idx -= block
		block *= a
		l++
	}
	s := make([]int, l)
	for i := l - 1; i >= 0; i-- {
		s[i] = idx % a
		idx /= a
	}
	return s
}

func c12count(a, maxLen int) int {
	n, p := 0, 1
	for l := 0; l <= maxLen; l++ {
		n += p
		p *= a
	}
	return n
}

// c12quiet verifies LIS/LNDS/LCS results without touching the Ctx (for use from goroutines).
func c12quiet(vs []int, r *rand.Rand) string {
	in := make([]pe, len(vs))
	for i, v := range vs {
		in[i] = pe{V: v, Pos: i}
	}
	cm := c12cmps[r.IntN(len(c12cmps))]
	pcmp := func(a, b pe) int { return cm.f(a.V, b.V) }
	for _, strict := range []bool{true, false} {
		var out []pe
		if strict {
			out = slice.LISFunc(in, pcmp)
		} else {
			out = slice.LNDSFunc(in, pcmp)
		}
		for i, e := range out {
			if e.Pos < 0 || e.Pos >= len(in) || in[e.Pos] != e {
				return fmt.Sprintf("strict=%v input %v: output element %d is not an element of the input", strict, vs, i)
			}
			if i > 0 {
				d := cm.f(out[i-1].V, e.V)
				if out[i-1].Pos >= e.Pos || (strict && d >= 0) || (!strict && d > 0) {
					return fmt.Sprintf("strict=%v comparator %s input %v: output %v is not an ordered subsequence", strict, cm.name, vs, out)
				}
			}
		}
		if want := refLIS(vs, cm.f, strict); len(out) != want {
			return fmt.Sprintf("strict=%v comparator %s input %v: output length %d, optimum %d", strict, cm.name, vs, len(out), want)
		}
	}
	return ""
}

func c12concurrent(c *fw.Ctx, base int) {
	rounds := c.Pick(4, 40)
	for k := 0; k < rounds; k++ {
		if !c.Begin(base + k) {
			continue
		}
		seed := c.Rng().Uint64()
		// a warm-up call on an already sorted long input first (pooled scratch state, if any, is then in play)
		warm := make([]int, 300+k)
		for i := range warm {
			warm[i] = i
		}
		slice.LNDS(warm)
		slice.LIS(warm)
		msg := concurrently(8, seed, func(g int, r *rand.Rand) string {
			for i := 0; i < 120; i++ {
				n := r.IntN(40)
				if i%4 == 0 {
					n = 256 + r.IntN(400) // long enough for any size-gated path
				}
				vs := c12random(r, n, []int{2, 3, 10, 1000}[r.IntN(4)])
				if i%8 == 4 {
					for j := range vs {
						vs[j] = j / 2 // non-decreasing
					}
				}
				if pr := c12quiet(vs, r); pr != "" {
					return fmt.Sprintf("goroutine %d: %s", g, pr)
				}
				a, b := c12random(r, r.IntN(60), 3), c12random(r, r.IntN(60), 3)
				got := slice.LCS(a, b)
				if want, _ := lcsLen(a, b); len(got) != want || !isSubseq(got, a) || !isSubseq(got, b) {
					return fmt.Sprintf("goroutine %d: LCS(%v, %v) = %v is not a common subsequence of optimal length %d", g, a, b, got, want)
				}
				c.Step()
			}
			return ""
		})
		c.Add("concurrent_calls", 8*120*3)
		if msg != "" {
			c.Fail(map[string]any{"phase": "8 goroutines calling LIS/LNDS/LCS on unshared inputs"}, "%s", msg)
		}
		// re-entrant use: the comparison function itself calls LIS on another input
		inner := c12random(c.Rng(), 300, 50)
		innerWant := refLIS(inner, c12cmps[0].f, true)
		outer := c12random(c.Rng(), 300, 50)
		bad := ""
		out := slice.LISFunc(outer, func(a, b int) int {
			if got := slice.LIS(append([]int(nil), inner...)); len(got) != innerWant && bad == "" {
				bad = fmt.Sprintf("a LIS call made from inside a comparison function returned length %d, optimum %d", len(got), innerWant)
			}
			return c12cmps[0].f(a, b)
		})
		c.Add("reentrant_calls", 1)
		if want := refLIS(outer, c12cmps[0].f, true); len(out) != want && bad == "" {
			bad = fmt.Sprintf("LISFunc whose comparison function calls LIS returned length %d, optimum %d", len(out), want)
		}
		if bad != "" {
			c.Fail(map[string]any{"phase": "re-entrant use from the comparison callback", "outer": outer, "inner": inner}, "%s", bad)
		}
	}
}

// c12anyElems: the comparable entry points instantiated with interface-typed
// elements, one of which holds a value that can be compared with values of
// other types but not hashed; results are compared with the int instantiation.
func c12anyElems(c *fw.Ctx) {
	vals := []any{"a", "b", 7, 2.5, []int{1}, struct{ X int }{3}}
	r := c.Rng()
	for k := 0; k < 200; k++ {
		mk := func() ([]int, []any) {
			n := r.IntN(7)
			codes := make([]int, n)
			out := make([]any, n)
			for i := range codes {
				codes[i] = r.IntN(len(vals))
				out[i] = vals[codes[i]]
			}
			return codes, out
		}
		ca, a := mk()
		cb, b := mk()
		// the unhashable value (code 4) may occur in one input only, so that it is never compared with itself
		for i, x := range cb {
			if x == 4 {
				cb[i], b[i] = 0, vals[0]
			}
		}
		want, _ := lcsLen(ca, cb)
		var got []any
		ok, pv, stack := fw.Try(func() { got = slice.LCS(a, b) })
		c.Add("interface_element_cases", 1)
		if !ok {
			c.FailKind("panic", map[string]any{"a_codes": ca, "b_codes": cb, "values": fmt.Sprint(vals)}, "LCS on interface-typed elements (one holds a slice, which is comparable with values of other types) panicked: %v\n%s", pv, stack)
			return
		}
		if len(got) != want {
			c.Fail(map[string]any{"a_codes": ca, "b_codes": cb}, "LCS on interface-typed elements returned %d elements, the int instantiation says %d", len(got), want)
			return
		}
	}
}

// c12floatElems: LCS on element types whose == is not reflexive (NaN), given
// as unrelated slices, as the same slice twice and as windows of one array.
func c12floatElems(c *fw.Ctx) {
	r := c.Rng()
	type cell struct{ F float64 }
	for k := 0; k < 240; k++ {
		p := nrPairOf(r, k)
		want, _ := lcsLen(p.CA, p.CB)
		data := map[string]any{"a": nrShow(p.A), "b": nrShow(p.B), "arguments": p.How}
		c.Add("non_reflexive_element_cases", 1)
		var n1, n2, n3 int
		var got []float64
		ok, pv, stack := fw.Try(func() {
			got = slice.LCS(p.A, p.B)
			n1 = len(got)
			as, bs := make([]cell, len(p.A)), make([]cell, len(p.B))
			for i, v := range p.A {
				as[i] = cell{v}
			}
			for i, v := range p.B {
				bs[i] = cell{v}
			}
			if k%4 == 1 {
				bs = as
			}
			n2 = len(slice.LCS(as, bs))
			aa, ba := make([][2]float64, len(p.A)), make([][2]float64, len(p.B))
			for i, v := range p.A {
				aa[i] = [2]float64{1, v}
			}
			for i, v := range p.B {
				ba[i] = [2]float64{1, v}
			}
			if k%4 == 1 {
				ba = aa
			}
			n3 = len(slice.LCS(aa, ba))
		})
		c.Step()
		if !ok {
			c.FailKind("panic", data, "LCS on float elements panicked: %v\n%s", pv, stack)
			return
		}
		if n1 != want || n2 != want || n3 != want {
			c.Fail(data, "LCS returned %d elements on []float64, %d on structs holding them, %d on arrays holding them; the longest common subsequence under == has %d (NaN equals nothing, not even itself)", n1, n2, n3, want)
			return
		}
		// the result is a subsequence of both inputs under ==
		for _, in := range [][]float64{p.A, p.B} {
			j := 0
			for _, v := range got {
				for j < len(in) && in[j] != v {
					j++
				}
				if j == len(in) {
					c.Fail(data, "LCS result %v is not a subsequence of both inputs under ==", nrShow(got))
					return
				}
				j++
			}
		}
	}
}

func runC12(c *fw.Ctx) {
	if c.Flavour == "race" {
		c12concurrent(c, 1<<22)
		return
	}
	c12concurrent(c, 1<<22)
	if c.Block == 0 && c.Begin(1<<23) {
		c12anyElems(c)
		c12floatElems(c)
	}
	idx := 0
	type space struct{ a, maxLen int }
	spaces := []space{{4, 8}, {3, 11}, {2, 13}}
	if c.Thorough() {
		spaces = []space{{4, 9}, {3, 12}, {2, 16}, {5, 7}}
	}
	// LIS / LNDS exhaustive, bundled 512 inputs per case
	for _, sp := range spaces {
		n := c12count(sp.a, sp.maxLen)
		const bundle = 512
		nb := (n + bundle - 1) / bundle
		for bi := c.Block; bi < nb; bi += c.NBlocks {
			if !c.Begin(idx + bi) {
				continue
			}
			var cnt, nt int64
			for i := bi * bundle; i < min(n, (bi+1)*bundle); i++ {
				if i%64 == 0 {
					c12abandon(c, i/64+bi)
				}
				vs := c12seqOf(i, sp.a)
				for ci := range c12cmps {
					c12seq(c, vs, ci)
				}
				cnt++
				if hasRepeat(vs) {
					nt++
				}
				if c.WantSample() && len(vs) >= 6 && i%4099 == 0 {
					c.Sample(map[string]any{"input": vs, "LIS": slice.LIS(append([]int(nil), vs...)), "LNDS": slice.LNDS(append([]int(nil), vs...))})
				}
			}
			c.Evals(int64(len(c12cmps))*cnt - 1)
			c.Add("lis_inputs", int64(len(c12cmps))*cnt)
			c.Add("lnds_inputs", int64(len(c12cmps))*cnt)
			c.Add("wide_comparator_inputs", cnt)
			c.Add("reversed_comparator_inputs", cnt)
			c.SeenEnum(nt)
			if c.Stopped() {
				return
			}
		}
		idx += nb
	}
	// structured family: two interleaved ascending runs, the second starting
	// below (or inside) the first, for run lengths around every power of two —
	// the tails array of the algorithm then has a length of exactly 2^k when a
	// new minimum or a tie arrives.
	{
		var Ls []int
		for l := 1; l <= c.Pick(70, 300); l++ {
			Ls = append(Ls, l)
		}
		for k := 7; k <= c.Pick(10, 12); k++ {
			Ls = append(Ls, 1<<k-1, 1<<k, 1<<k+1)
		}
		for li, L := range Ls {
			if li%c.NBlocks != c.Block {
				continue
			}
			if !c.Begin(idx + li) {
				continue
			}
			var cnt int64
			for _, d := range []int{1, 5, L / 2, L} {
				for _, M := range []int{L + 3, L/2 + 1, 2} {
					for _, dup := range []bool{false, true} {
						var vs []int
						for i := 0; i < L; i++ {
							vs = append(vs, 10+i)
							if dup && i%3 == 0 {
								vs = append(vs, 10+i)
							}
						}
						for i := 0; i < M; i++ {
							vs = append(vs, 10-d+i)
						}
						for ci := range c12cmps {
							c12seq(c, vs, ci)
						}
						cnt++
					}
				}
			}
			c.Evals(int64(len(c12cmps))*cnt - 1)
			c.Add("structured_two_run_inputs", cnt)
			c.Add("lis_inputs", int64(len(c12cmps))*cnt)
			c.Add("lnds_inputs", int64(len(c12cmps))*cnt)
			c.SeenEnum(cnt)
		}
		idx += len(Ls)
	}
	// LCS exhaustive pairs
	lspaces := []space{{2, 7}, {3, 5}}
	if c.Thorough() {
		lspaces = []space{{2, 9}, {3, 6}, {4, 5}}
	}
	for _, sp := range lspaces {
		n := c12count(sp.a, sp.maxLen)
		for ai := c.Block; ai < n; ai += c.NBlocks {
			if !c.Begin(idx + ai) {
				continue
			}
			a := c12seqOf(ai, sp.a)
			c12abandon(c, ai)
			var nt, uneq int64
			for bi := 0; bi < n; bi++ {
				b := c12seqOf(bi, sp.a)
				c12lcs(c, a, b)
				if hasRepeat(a) || hasRepeat(b) {
					nt++
				}
				if len(a) != len(b) {
					uneq++
				}
			}
			c.Evals(int64(n) - 1)
			c.Add("lcs_pairs", int64(n))
			c.Add("lcs_unequal_length_pairs", uneq)
			c.SeenEnum(nt)
			if c.Stopped() {
				return
			}
		}
		idx += n
	}
	// very large inputs: LIS/LNDS on 2^16-1..2^16+1 and 100003 elements, LCS on
	// pairs whose length product passes 2^24, 2^26 and 2^27
	{
		lisSizes := []int{65535, 65536, 65537, 100003, 32769, 131072}
		for k := 0; k < 12; k++ {
			if k%c.NBlocks != c.Block || !c.Begin(idx+400000+k) {
				continue
			}
			n := lisSizes[k%len(lisSizes)]
			r := c.Rng()
			vs := make([]int, n)
			switch k / len(lisSizes) {
			case 0:
				for i := range vs { // ascending runs with dips and ties
					vs[i] = i/3 + (i%7)*5
				}
			default:
				for i := range vs {
					vs[i] = r.IntN(n / 4)
				}
			}
			c12seq(c, vs, k%len(c12cmps))
			c.Add("very_large_inputs", 1)
			c.Add("lis_inputs", 1)
			c.Add("lnds_inputs", 1)
		}
		lcsSizes := []int{4100, 8200, 11700}
		for k := 0; k < 6; k++ {
			if (k+12)%c.NBlocks != c.Block || !c.Begin(idx+400100+k) {
				continue
			}
			n := lcsSizes[k%3]
			r := c.Rng()
			a := make([]int, n)
			for i := range a {
				a[i] = r.IntN(40)
			}
			var b []int
			if k < 3 { // one of two adjacent identical blocks removed
				b = append(append([]int(nil), a[:n/2]...), a[n/2+n/8:]...)
				copy(a[n/2+n/8:], a[n/2:n/2+n/8])
			} else {
				b = make([]int, n-n/5)
				for i := range b {
					b[i] = r.IntN(40)
				}
			}
			c12lcs(c, a, b)
			c.Add("very_large_inputs", 1)
			c.Add("lcs_pairs", 1)
			c.Add("lcs_unequal_length_pairs", 1)
		}
	}
	// very long answers: an almost sorted input of 8 million elements (3 million in
	// the 32-bit build) has an answer nearly as long; whatever the functions do
	// per element of the answer (recursion, copying) is multiplied accordingly
	if (c.Flavour == "plain" || c.Flavour == "386") && c.Block < 2 && c.Begin(idx+400300+c.Block) {
		n := 8000000
		if strconv.IntSize == 32 {
			n = 3000000
		}
		r := c.Rng()
		vs := make([]int32, n)
		for i := range vs {
			vs[i] = int32(i)
			if r.IntN(997) == 0 {
				vs[i] = int32(r.IntN(n)) // a few elements out of place
			}
		}
		keep := append([]int32(nil), vs...)
		var out []int32
		name := []string{"LIS", "LNDS"}[c.Block]
		c.Call("slice.%s on %d almost sorted elements", name, n)
		ok, pv, stack := fw.Try(func() {
			if c.Block == 0 {
				out = slice.LIS(vs)
			} else {
				out = slice.LNDS(vs)
			}
		})
		data := map[string]any{"func": name, "elements": n, "input": "0..n-1 with about one element in a thousand replaced by a random value"}
		switch {
		case !ok:
			c.FailKind("panic", data, "%s panicked: %v\n%s", name, pv, stack)
		case !slices.Equal(vs, keep):
			c.Fail(data, "%s modified its input", name)
		default:
			// subsequence (greedy), order, and length against patience sorting
			j := 0
			for i, v := range out {
				for j < n && keep[j] != v {
					j++
				}
				if j == n {
					c.Fail(data, "%s: output element %d is not found in the input after its predecessor", name, i)
					break
				}
				j++
				if i > 0 && (out[i-1] > v || (c.Block == 0 && out[i-1] == v)) {
					c.Fail(data, "%s: output not ordered at index %d", name, i)
					break
				}
			}
			var tails []int32
			for _, v := range keep {
				k := sort.Search(len(tails), func(k int) bool {
					if c.Block == 0 {
						return tails[k] >= v
					}
					return tails[k] > v
				})
				if k == len(tails) {
					tails = append(tails, v)
				} else {
					tails[k] = v
				}
			}
			if len(out) != len(tails) {
				c.Fail(data, "%s: output has length %d, the optimum is %d", name, len(out), len(tails))
			}
			c.Max("max:answer_length", int64(len(out)))
		}
		c.Add("very_long_answer_inputs", 1)
	}
	// wrap-around schedule: a larger call, exactly N one-element calls (N around
	// 2^8, 2^9, 2^16, 2^17; one N per block), then a larger call on other content
	if c.Begin(idx + 400200 + c.Block) {
		var gaps []int // windows of +-5 around 2^8, 2^9, 2^16, 2^17: 44 values over 16 blocks x 3 rounds
		for _, centre := range []int{255, 510, 65535, 131071} {
			for d := -5; d <= 5; d++ {
				gaps = append(gaps, centre+d)
			}
		}
		old := runtime.GOMAXPROCS(1)
		func() {
			defer runtime.GOMAXPROCS(old)
			for round := 0; round < 3; round++ {
				gap := gaps[(3*c.Block+round)%len(gaps)]
				vs := make([]int, 30+round)
				for i := range vs {
					vs[i] = (i*7)%13 + i/2
				}
				c12seq(c, vs, round%len(c12cmps))
				c12lcs(c, vs[:12], vs[5:20])
				one := []int{5}
				for i := 0; i < gap; i++ {
					switch (c.Block + round) % 3 { // one kind of small call per round
					case 0:
						slice.LIS(one)
					case 1:
						slice.LNDS(one)
					default:
						slice.LCS(one, one)
					}
					if i%4096 == 0 {
						c.Step()
					}
				}
				ws := make([]int, 30+round)
				for i := range ws {
					ws[i] = 100 - (i*5)%17 + i
				}
				c12lcs(c, ws[3:17], ws[:11])
				c12seq(c, ws, (round+1)%len(c12cmps))
			}
		}()
		c.Add("wraparound_schedules", 1)
	}
	if c.Block == 0 && c.Begin(idx+500000) {
		// nil and empty inputs
		for ci := range c12cmps {
			c12seq(c, nil, ci)
			c12seq(c, []int{}, ci)
		}
		c12lcs(c, nil, nil)
		c12lcs(c, nil, []int{1, 2})
		c12lcs(c, []int{1}, nil)
		c12lcs(c, []int{}, []int{})
	}
	// inputs made of a few monotone runs (descending and ascending stretches of
	// 1..40 elements at random levels, single outliers between them): streaks of
	// events of one kind followed by one of another kind
	for k := 0; k < c.Pick(3000, 40000); k++ {
		if !c.Begin(idx + 600000 + k) {
			continue
		}
		r := c.Rng()
		var vs []int
		for runs := 2 + r.IntN(7); runs > 0; runs-- {
			L := 1 + r.IntN(40)
			base := r.IntN(200)
			step := []int{-1, 1, -3, 2, 0}[r.IntN(5)]
			for i := 0; i < L; i++ {
				vs = append(vs, base+i*step)
			}
			if r.IntN(2) == 0 {
				vs = append(vs, r.IntN(260)) // an outlier: possibly a new maximum
			}
		}
		c12seq(c, vs, r.IntN(len(c12cmps)))
		c.Add("monotone_run_inputs", 1)
		c.Add("lis_inputs", 1)
		c.Add("lnds_inputs", 1)
	}
	// random
	nr := c.Pick(120, 1500)
	for k := 0; k < nr; k++ {
		if !c.Begin(idx + k) {
			continue
		}
		r := c.Rng()
		n := r.IntN(c.Pick(1500, 5000))
		alpha := []int{2, 3, 10, 100, 1 << 30}[r.IntN(5)]
		vs := c12random(r, n, alpha)
		c12abandon(c, k+17*c.Block)
		ci := r.IntN(len(c12cmps))
		c12seq(c, vs, ci)
		c.Add("lis_inputs", 1)
		c.Add("lnds_inputs", 1)
		if ci == 2 {
			c.Add("wide_comparator_inputs", 1)
		}
		if ci == 1 {
			c.Add("reversed_comparator_inputs", 1)
		}
		h := fw.NewH()
		h.Ints(vs)
		if hasRepeat(vs) {
			c.Seen(h.Sum())
		}
		// LCS: very different lengths, repetitive
		la, lb := r.IntN(300), r.IntN(300)
		if r.IntN(2) == 0 {
			lb = r.IntN(12)
		}
		a := c12random(r, la, []int{2, 3, 5}[r.IntN(3)])
		b := c12random(r, lb, []int{2, 3, 5}[r.IntN(3)])
		if r.IntN(3) == 0 && len(a) > 2 {
			// b shares a prefix and a suffix with a
			p := r.IntN(len(a))
			b = append(append([]int(nil), a[:p]...), a[max(p, len(a)-r.IntN(len(a)-p+1)):]...)
		}
		c12lcs(c, a, b)
		c.Add("lcs_pairs", 1)
		if len(a) != len(b) {
			c.Add("lcs_unequal_length_pairs", 1)
		}
	}
}

func c12random(r *rand.Rand, n, alpha int) []int {
	vs := make([]int, n)
	mode := r.IntN(4)
	for i := range vs {
		switch mode {
		case 0:
			vs[i] = r.IntN(alpha)
		case 1: // mostly ascending with noise
			vs[i] = i*alpha/(n+1) + r.IntN(3) - 1
		case 2: // sawtooth
			vs[i] = (i % 17) * alpha / 17
		case 3: // runs of equals
			if i > 0 && r.IntN(4) != 0 {
				vs[i] = vs[i-1]
			} else {
				vs[i] = r.IntN(alpha)
			}
		}
	}
	_ = fmt.Sprint
	return vs
}

// c12abandon makes calls that the caller abandons half-way: the comparison
// function panics after m calls and the panic is recovered here. Nothing is
// asserted about the abandoned call; the point is that the well-formed calls
// verified afterwards (same goroutine, same process) must be unaffected by
// whatever the package keeps between calls.
func c12abandon(c *fw.Ctx, seed int) {
	n := 3 + seed%41
	ints := make([]int, n)
	pes := make([]pe, n)
	for i := range ints {
		v := 10 + i // mostly ascending (long tails), with dips
		if (i+seed)%7 == 6 {
			v = i / 2
		}
		ints[i] = v
		pes[i] = pe{V: v, Pos: i}
	}
	m := 1 + seed%(2*n)
	var cnt int
	tick := func() {
		cnt++
		if cnt > m {
			panic("abandoned by the comparison function")
		}
	}
	calls := []func(){
		func() { slice.LNDSFunc(pes, func(a, b pe) int { tick(); return cmp.Compare(a.V, b.V) }) },
		func() { slice.LISFunc(pes, func(a, b pe) int { tick(); return cmp.Compare(a.V, b.V) }) },
		func() { slice.LNDSFunc(ints, func(a, b int) int { tick(); return cmp.Compare(a, b) }) },
		func() { slice.LISFunc(ints, func(a, b int) int { tick(); return cmp.Compare(a, b) }) },
		func() { slice.LCSFunc(ints, ints, func(a, b int) bool { tick(); return a == b }) },
		func() { slice.LCSFunc(pes, pes, func(a, b pe) bool { tick(); return a.V == b.V }) },
	}
	for _, f := range calls {
		cnt = 0
		if p, _ := fw.Panics(f); p {
			c.Add("abandoned_calls", 1)
		}
	}
}
