//go:build pC15 || pall

package props

import (
	"fmt"
	"math/rand/v2"
	"strconv"
	"strings"
	"sync"

	"github.com/creachadair/mds/shell"
	"verif/harness/fw"
)

// C15 — shell.Quote/Join protect every string; Split inverts Join.
// Monitors: (1) the package's own round trip, (2) an independent scanner of
// the quoted text (XCU 2.2: single quotes and backslash) that requires every
// special byte to be quoted and recovers the original, (3) dash and bash +B
// evaluating the quoted text as command words in a bait directory, (4) pool
// aliasing (kept results re-verified later), (5) concurrent use under -race.

func init() {
	fw.Register(&fw.Property{
		ID: "C15",
		Meta: func(tier string) fw.Meta {
			return fw.Meta{
				Flavours: []string{"plain", "race", "cover", "386"},
				Blocks:   16,
				Procs:    16,
				Rule: "case = a string s or a list ss. Exhaustive: every single byte 1..255 alone and embedded in four positions; every string of length <= 3 (<= 4 thorough) over a 24-byte alphabet of every shell metacharacter, both quotes, backslash, blank, tab, newline, glob/comment/tilde/assignment characters, two plain letters and a two-byte non-ASCII rune; every rune U+0080..U+FFFF (and a stride of the supplementary planes) alone, at the start of a word and of a list, plus byte-order marks, '#!', CR LF, escape sequences and option-like words in first position; a position sweep (one byte of every value at every offset of an otherwise plain word of every length 1..40 and around 64/128/4096; pairs of special characters at every two offsets up to length 26); strings of 4090..70000 bytes around common buffer sizes (quoted spans longer than 4096 and 65536 bytes); random lists of 0..4 such strings (incl. the empty string and the empty list) and random byte strings up to 40 bytes incl. invalid UTF-8. " +
					"Per string: Split(Quote(s)) == [s], the independent scanner (special byte only inside single quotes or after a backslash; unquoting gives s), and dash + 'bash +B' evaluating 'emit Quote(s)' in a directory with bait files (a b ab [a] x=y ~ #a ...) and HOME set; per list: Split(Join(ss)) == ss && complete, and the shells on Join(ss). Quote and Join calls are interleaved and every result is kept and re-verified at the end (pool aliasing); under -race 8 goroutines do the same concurrently. " +
					"distinct = the string/list itself (enumerated; random ones by hash); non-trivial = it contains a byte that needs protection, or is empty",
				Required:     []string{"strings_checked", "lists_checked", "scanner_checks", "shell_words_dash", "shell_words_bash", "kept_results_rechecked", "concurrent_calls", "all_single_bytes", "long_strings", "rune_sweep_strings", "position_sweep_strings", "huge_strings"},
				Exhaustive:   true,
				Assumptions:  []string{"dash and bash (+B, LC_ALL=C) as installed are the POSIX shells consulted", "strings containing NUL are not passed to the shells"},
				CoverPkgs:    []string{"github.com/creachadair/mds/shell"},
				CoverAnchors: []string{"shell/shell.go:Quote", "shell/shell.go:quote", "shell/shell.go:quotable", "shell/shell.go:Join", "shell/shell.go:Split"},
			}
		},
		Run: runC15,
	})
}

const c15special = "|&;<>()$`\\\"' \t\n*?[#~=%"

var c15alphabet = []string{"|", "&", ";", "<", ">", "(", ")", "$", "`", "\\", "\"", "'", " ", "\t", "\n", "*", "?", "[", "#", "~", "=", "%", "a", "b", "é"}

// unquoteRef scans quoted text as one shell word made of single-quoted spans,
// backslash escapes and plain bytes. It reports the word and the first special
// byte that occurs unquoted (0 if none); ok is false for unbalanced quoting or
// an unquoted double quote (which would open another quoting style).
func unquoteRef(q string) (word string, unprotected byte, ok bool) {
	var sb strings.Builder
	i := 0
	for i < len(q) {
		ch := q[i]
		switch {
		case ch == '\'':
			j := strings.IndexByte(q[i+1:], '\'')
			if j < 0 {
				return "", 0, false
			}
			sb.WriteString(q[i+1 : i+1+j])
			i += j + 2
		case ch == '\\':
			if i+1 >= len(q) {
				return "", 0, false
			}
			if q[i+1] == '\n' {
				// backslash-newline is a line continuation, not a quoted newline
				return "", '\n', true
			}
			sb.WriteByte(q[i+1])
			i += 2
		default:
			if strings.IndexByte(c15special, ch) >= 0 && unprotected == 0 {
				unprotected = ch
			}
			sb.WriteByte(ch)
			i++
		}
	}
	return sb.String(), unprotected, true
}

type c15kept struct {
	in  []string // one element: Quote; several or zero: Join
	out string
	isJ bool
}

type c15mon struct {
	c    *fw.Ctx
	kept []c15kept
}

func (m *c15mon) checkString(s string) bool {
	c := m.c
	data := map[string]any{"s": fw.Q(s)}
	var q string
	ok, pv, stack := fw.Try(func() { q = shell.Quote(s) })
	if !ok {
		c.FailKind("panic", data, "Quote panicked: %v\n%s", pv, stack)
		return false
	}
	data["quoted"] = fw.Q(q)
	c.Step()
	c.Add("strings_checked", 1)
	fs, complete := shell.Split(q)
	if !complete || len(fs) != 1 || fs[0] != s {
		c.Fail(data, "Split(Quote(s)) = %q (complete=%v), want the single field s", fs, complete)
		return false
	}
	w, unp, okq := unquoteRef(q)
	c.Add("scanner_checks", 1)
	if !okq {
		c.Fail(data, "Quote(s) is not a well-formed shell word (unbalanced quote, trailing backslash or a bare double quote)")
		return false
	}
	if unp != 0 {
		c.Fail(data, "Quote(s) leaves the special character %q unquoted", string(unp))
		return false
	}
	if w != s {
		c.Fail(data, "unquoting Quote(s) by the shell's rules gives %q, not s", w)
		return false
	}
	if q == "" {
		c.Fail(data, "Quote(s) is empty: the shell would see no word")
		return false
	}
	m.kept = append(m.kept, c15kept{in: []string{s}, out: q})
	return true
}

func (m *c15mon) checkList(ss []string) bool {
	c := m.c
	data := map[string]any{"ss": fw.Qs(ss)}
	var j string
	ok, pv, stack := fw.Try(func() { j = shell.Join(ss) })
	if !ok {
		c.FailKind("panic", data, "Join panicked: %v\n%s", pv, stack)
		return false
	}
	data["joined"] = fw.Q(j)
	c.Step()
	c.Add("lists_checked", 1)
	fs, complete := shell.Split(j)
	if !complete || !equalStrings(fs, ss) {
		c.Fail(data, "Split(Join(ss)) = %q (complete=%v), want ss", fs, complete)
		return false
	}
	m.kept = append(m.kept, c15kept{in: append([]string(nil), ss...), out: j, isJ: true})
	return true
}

// recheck re-verifies every kept result (a pooled buffer reused by a later
// call must not have changed a string returned earlier) and sends them to the
// shells.
func (m *c15mon) recheck(rig *shellRig) {
	c := m.c
	var tails []string
	var want [][]string
	var idxs []int
	for i, k := range m.kept {
		c.Add("kept_results_rechecked", 1)
		if k.isJ {
			fs, complete := shell.Split(k.out)
			if !complete || !equalStrings(fs, k.in) {
				c.Fail(map[string]any{"ss": fw.Qs(k.in), "joined_now": fw.Q(k.out)}, "a string returned earlier by Join no longer splits into its input: it changed after later calls (buffer aliasing) — now %q", fs)
				return
			}
		} else {
			w, unp, ok := unquoteRef(k.out)
			if !ok || unp != 0 || w != k.in[0] {
				c.Fail(map[string]any{"s": fw.Q(k.in[0]), "quoted_now": fw.Q(k.out)}, "a string returned earlier by Quote no longer unquotes to its input: it changed after later calls (buffer aliasing)")
				return
			}
		}
		hasNUL := false
		for _, s := range k.in {
			if strings.IndexByte(s, 0) >= 0 {
				hasNUL = true
			}
		}
		if !hasNUL {
			tails = append(tails, k.out)
			want = append(want, k.in)
			idxs = append(idxs, i)
		}
	}
	rig.compare(c, tails, want, "shell_words", func(i int, sh string, got []string, diag string) {
		k := m.kept[idxs[i]]
		c.Fail(map[string]any{"input": fw.Qs(k.in), "quoted": fw.Q(k.out), "shell": sh}, "%s evaluating the quoted text as command words obtained %q (%s), want exactly the input", sh, got, diag)
	})
	m.kept = m.kept[:0]
}

// c15magic: byte sequences that text tools treat specially at the start of
// their input or anywhere in it (byte-order marks, interpreter line, escape
// sequences, CR LF, option-like words).
var c15magic = []string{"\xef\xbb\xbf", "\xef\xbb", "\xff\xfe", "\xfe\xff", "\xff\xfe\x00\x00", "#!", "#!/bin/sh", "\r\n", "\n\r", "\x1b[0m", "\x1b]0;t\a", "--", "-", "-n", "-e", "--help", "\\\n", "\\\r\n", "\x7f", "\x01", "\xc0\x80", "\xed\xa0\x80", "\xf4\x90\x80\x80", "\xe2\x80\xa8", "\xc2\x85", "\xc2\xa0"}

func nontrivialC15(s string) bool { return s == "" || strings.ContainsAny(s, c15special) }

func runC15(c *fw.Ctx) {
	// before anything else in this process touches the package
	if c.Begin(1<<24 + c.Block) {
		if msg := shellFirstUse(); msg != "" {
			c.Fail(map[string]any{"phase": "first use of the shell package in a fresh process, from 16 goroutines at once"}, "%s", msg)
		}
		c.Add("first_use_from_many_goroutines", 1)
	}
	rig := newShellRig()
	defer rig.close()
	if c.Block == 0 && len(rig.shells) < 2 {
		c.Inconclusive("need dash (or /bin/sh) and bash; found %d shells", len(rig.shells))
	}
	m := &c15mon{c: c}
	idx := 0
	light := c.Flavour == "race" // the race flavour is about the concurrent phase; keep its sequential part small

	// single bytes
	if c.Block == 0 && c.Begin(idx) {
		var n int64
		for b := 1; b <= 255; b++ {
			ch := string([]byte{byte(b)})
			for _, s := range []string{ch, "a" + ch, ch + "a", "a" + ch + "b", ch + ch} {
				m.checkString(s)
				n++
			}
		}
		m.checkString("")
		m.checkString("a\x00b") // NUL: package round trip and scanner only
		c.Add("all_single_bytes", 255)
		c.Evals(n)
		c.SeenEnum(n)
		m.recheck(rig)
	}
	idx++

	// all strings of length <= L over the alphabet
	L := c.Pick(3, 4)
	if light {
		L = 2
	}
	A := len(c15alphabet)
	total := 1
	for i := 0; i < L; i++ {
		total *= A
	}
	// enumerate strings of exactly L symbols plus shorter ones via a "blank" symbol trick: do lengths separately
	code := 0
	for length := 1; length <= L; length++ {
		cnt := 1
		for i := 0; i < length; i++ {
			cnt *= A
		}
		const bundle = 2000
		for start := 0; start < cnt; start += bundle {
			code++
			if code%c.NBlocks != c.Block {
				continue
			}
			if !c.Begin(idx + code) {
				continue
			}
			var n, nt int64
			for x := start; x < min(cnt, start+bundle); x++ {
				var sb strings.Builder
				y := x
				for i := 0; i < length; i++ {
					sb.WriteString(c15alphabet[y%A])
					y /= A
				}
				s := sb.String()
				m.checkString(s)
				n++
				if nontrivialC15(s) {
					nt++
				}
				// interleave Join calls so that pooled buffers change hands
				if x%7 == 0 {
					m.checkList([]string{s, "x y", s})
				}
				if c.WantSample() && length == 3 && x%3001 == 17 {
					c.Sample(map[string]any{"s": fw.Q(s), "quoted": fw.Q(shell.Quote(s))})
				}
			}
			c.Evals(n - 1)
			c.SeenEnum(nt)
			m.recheck(rig)
			if c.Stopped() {
				return
			}
		}
	}
	idx += code + 1

	// long strings: quoted spans beyond common buffer sizes (4096, 8192, 65536)
	if c.Block < 8 && c.Begin(idx+700000+c.Block) {
		lens := []int{4090, 4094, 4095, 4096, 4097, 4100, 5000, 8191, 8192, 8193, 20000, 65536, 70000}
		for li, L := range lens {
			if li%8 != c.Block {
				continue
			}
			for _, unit := range []string{"a b", "x", "$y ", "it's ", "é*"} {
				s := strings.Repeat(unit, L/len(unit)+1)[:L]
				m.checkString(s)
				m.checkString(s + "'" + s[:10])
				m.checkList([]string{"pre", s, "", s[:L/2], "post"})
				c.Add("long_strings", 3)
			}
		}
		m.recheck(rig)
	}
	// every rune of the Basic Multilingual Plane (and a stride of the other
	// planes), alone and at the start / in the middle of a word and of a list:
	// a rune-specific rule anywhere (byte-order mark, no-break space, line and
	// paragraph separators, ...) changes one of these.
	if !light && c.Begin(idx+710000+c.Block) {
		var n int64
		keepEvery := 257
		for cp := 0x80 + c.Block; cp <= 0x10FFFF; cp += c.NBlocks {
			if cp >= 0xD800 && cp <= 0xDFFF {
				continue
			}
			if cp > 0xFFFF && (cp/c.NBlocks)%97 != 0 {
				continue
			}
			u := string(rune(cp))
			before := len(m.kept)
			m.checkString(u)
			m.checkString(u + "cmd")
			m.checkList([]string{u + "cmd", "-flag", "a b"})
			m.checkList([]string{"x", u, "a" + u + "b"})
			n += 4
			if cp%keepEvery != 0 {
				m.kept = m.kept[:before] // the shells see a sample only
			}
			if c.Stopped() {
				return
			}
		}
		// multi-byte sequences with a meaning to other tools, in first position
		for _, u := range c15magic {
			m.checkString(u)
			m.checkString(u + "x")
			m.checkList([]string{u})
			m.checkList([]string{u + "x", "y"})
			m.checkList([]string{"y", u + "x", u})
			n += 5
		}
		c.Add("rune_sweep_strings", n)
		c.Evals(n)
		c.SeenEnum(n)
		m.recheck(rig)
	}
	// position sweep: ONE character that needs protection (every byte value in
	// turn) at every offset of an otherwise plain word of every length up to 40
	// (a few lengths around 64 and 4096 too), and pairs of such characters at two
	// offsets: a scan that looks at bytes in blocks must not have a blind lane
	if !light && c.Begin(idx+720000+c.Block) {
		var n int64
		plain := "abcdefghijklmnopqrstuvwxyzABCDEFGHIJKLMNOPQRSTUVWXYZ"
		word := func(L int) []byte {
			w := make([]byte, L)
			for i := range w {
				w[i] = plain[i%len(plain)]
			}
			return w
		}
		lens := []int{}
		for L := 1; L <= 40; L++ {
			lens = append(lens, L)
		}
		lens = append(lens, 63, 64, 65, 127, 128, 129)
		for b := 1 + c.Block; b < 256; b += c.NBlocks {
			for _, L := range lens {
				for p := 0; p < L; p++ {
					if L > 40 && p%8 != b%8 && p < L-9 {
						continue
					}
					w := word(L)
					w[p] = byte(b)
					before := len(m.kept)
					m.checkString(string(w))
					n++
					if (b*31+L*7+p)%97 != 0 {
						m.kept = m.kept[:before] // the shells see a sample
					}
				}
			}
			if c.Stopped() {
				return
			}
		}
		specials := " '\"\\$;*\n\t|"
		for si := c.Block % len(specials); si < len(specials); si += c.NBlocks {
			for sj := 0; sj < len(specials); sj++ {
				for L := 2; L <= 26; L++ {
					for p := 0; p < L; p++ {
						for q := p + 1; q < L; q++ {
							w := word(L)
							w[p], w[q] = specials[si], specials[sj]
							before := len(m.kept)
							m.checkString(string(w))
							n++
							if (L*131+p*17+q)%211 != 0 {
								m.kept = m.kept[:before]
							}
						}
					}
				}
			}
		}
		// long words with a single special at one offset of each residue mod 8 and 16
		for _, L := range []int{4096, 4100, 8200} {
			for p := L - 40; p < L; p++ {
				w := word(L)
				w[p] = " '$\\"[p%4]
				m.checkString(string(w))
				n++
			}
		}
		c.Add("position_sweep_strings", n)
		c.Evals(n)
		c.SeenEnum(n)
		m.recheck(rig)
	}
	// huge strings: 24 MiB (6 MiB in the 32-bit build) made of one kind of
	// character that needs protection, or of alternating runs: whatever the
	// functions do per such character (recursion, repeated copying) is
	// multiplied by millions
	if c.Flavour != "race" && c.Flavour != "cover" && c.Block < 4 && c.Begin(idx+730000+c.Block) {
		n := 24 << 20
		if strconv.IntSize == 32 {
			n = 6 << 20
		}
		unit := []string{"'", "a'", " ", "$x "}[c.Block]
		s := strings.Repeat(unit, n/len(unit))
		c.Call("shell.Quote / Join / Split on %d bytes of %q repeated", len(s), unit)
		ok, pv, stack := fw.Try(func() {
			q := shell.Quote(s)
			fs, complete := shell.Split(q)
			if !complete || len(fs) != 1 || fs[0] != s {
				c.Fail(map[string]any{"s": fmt.Sprintf("%q repeated to %d bytes", unit, len(s))}, "Split(Quote(s)) returns %d fields (complete=%v), want the single field s", len(fs), complete)
				return
			}
			if w, unp, okq := unquoteRef(q); !okq || unp != 0 || w != s {
				c.Fail(map[string]any{"s": fmt.Sprintf("%q repeated to %d bytes", unit, len(s))}, "Quote(s) does not unquote to s by the shell's rules (well-formed=%v, unprotected=%q)", okq, string(unp))
				return
			}
			j := shell.Join([]string{"pre", s, "post"})
			if fs, complete := shell.Split(j); !complete || len(fs) != 3 || fs[1] != s {
				c.Fail(map[string]any{"ss": fmt.Sprintf("[pre, %q repeated to %d bytes, post]", unit, len(s))}, "Split(Join(ss)) returns %d fields (complete=%v)", len(fs), complete)
			}
		})
		if !ok {
			c.FailKind("panic", map[string]any{"s": fmt.Sprintf("%q repeated to %d bytes", unit, len(s))}, "panic: %v\n%s", pv, stack)
		}
		c.Add("huge_strings", 1)
	}
	// random lists and random byte strings
	nr := c.Pick(1500, 120000)
	if light {
		nr = 200
	}
	pend := 0
	for k := 0; k < nr; k++ {
		if !c.Begin(idx + k) {
			continue
		}
		r := c.Rng()
		ss := c15randomList(r)
		if m.checkList(ss) {
			h := fw.NewH()
			nt := len(ss) == 0
			for _, s := range ss {
				h.Str(s)
				if nontrivialC15(s) {
					nt = true
				}
			}
			if nt {
				c.Seen(h.Sum())
			}
		}
		for _, s := range ss {
			m.checkString(s)
		}
		pend++
		if pend >= 400 {
			m.recheck(rig)
			pend = 0
		}
	}
	m.recheck(rig)
	idx += nr

	// concurrent phase: 8 goroutines, disjoint inputs, each verifies its own results
	rounds := c.Pick(6, 40)
	for k := 0; k < rounds; k++ {
		if !c.Begin(idx + k) {
			continue
		}
		seeds := make([]uint64, 8)
		r := c.Rng()
		for i := range seeds {
			seeds[i] = r.Uint64()
		}
		var wg sync.WaitGroup
		errs := make([]string, 8)
		for g := 0; g < 8; g++ {
			wg.Add(1)
			go func(g int) {
				defer wg.Done()
				lr := rand.New(rand.NewPCG(seeds[g], uint64(g)))
				var kept []c15kept
				for i := 0; i < 400; i++ {
					ss := c15randomList(lr)
					for j := range ss {
						ss[j] = fmt.Sprintf("g%d:", g) + ss[j]
					}
					j := shell.Join(ss)
					fs, ok := shell.Split(j)
					if !ok || !equalStrings(fs, ss) {
						errs[g] = fmt.Sprintf("goroutine %d: Split(Join(%q)) = %q ok=%v", g, ss, fs, ok)
						return
					}
					kept = append(kept, c15kept{in: ss, out: j, isJ: true})
					if len(ss) > 0 {
						q := shell.Quote(ss[0])
						if w, unp, okq := unquoteRef(q); !okq || unp != 0 || w != ss[0] {
							errs[g] = fmt.Sprintf("goroutine %d: Quote(%q) = %q does not unquote to its input", g, ss[0], q)
							return
						}
						kept = append(kept, c15kept{in: ss[:1], out: q})
					}
					c.Step()
				}
				for _, k := range kept {
					if k.isJ {
						if fs, ok := shell.Split(k.out); !ok || !equalStrings(fs, k.in) {
							errs[g] = fmt.Sprintf("goroutine %d: a Join result changed after later concurrent calls: %q no longer splits into %q", g, k.out, k.in)
							return
						}
					} else if w, _, _ := unquoteRef(k.out); w != k.in[0] {
						errs[g] = fmt.Sprintf("goroutine %d: a Quote result changed after later concurrent calls: %q", g, k.out)
						return
					}
				}
			}(g)
		}
		wg.Wait()
		c.Add("concurrent_calls", 8*400*3)
		for _, e := range errs {
			if e != "" {
				c.Fail(map[string]any{"phase": "concurrent"}, "%s", e)
				break
			}
		}
	}
}

func c15randomList(r *rand.Rand) []string {
	n := r.IntN(5)
	ss := make([]string, n)
	for i := range ss {
		switch r.IntN(6) {
		case 0:
			ss[i] = ""
		case 1: // arbitrary bytes incl. invalid UTF-8, no NUL
			b := make([]byte, 1+r.IntN(40))
			for j := range b {
				b[j] = byte(1 + r.IntN(255))
			}
			ss[i] = string(b)
		default:
			var sb strings.Builder
			for j := r.IntN(8); j >= 0; j-- {
				sb.WriteString(c15alphabet[r.IntN(len(c15alphabet))])
			}
			ss[i] = sb.String()
		}
	}
	return ss
}
