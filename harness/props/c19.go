//go:build pC19 || pall

package props

import (
	"encoding/binary"
	"fmt"
	"math"
	"math/bits"
	"math/rand/v2"

	"github.com/creachadair/mds/distinct"
	"verif/harness/fw"
)

// C19 — distinct.Counter is exact below capacity, bounded, and unbiased above
// it. Deterministic clauses are checked after every Add of seeded runs (the
// verif hook replaces the counter's random source so that every run replays);
// the unbiasedness clause is a seeded mean test with a tolerance of 7 standard
// errors plus 0.2 % of the true count.

func init() {
	fw.Register(&fw.Property{
		ID: "C19",
		Meta: func(tier string) fw.Meta {
			return fw.Meta{
				Flavours: []string{"plain", "cover", "386"},
				Blocks:   16,
				Procs:    16,
				Rule: "(a) deterministic runs: buffer sizes 2..64 and a few large ones, streams whose number of distinct values is below, at and far above the size, every value repeated 1..4 times in interleaved order, Reset at random points; after EVERY Add: Count == exact number of distinct values while fewer than size distinct values have been added since creation/Reset, Len <= size, Count == Len * 2^j with j an integer that never decreases until Reset; after Reset: Len == 0, Count == 0 and the exact regime again. " +
					"(b) statistical configurations (size, D): sizes 8, 16, 64 with D below, 10x and 100x the size using R = 4000 (40000 thorough) independent seeded counters each, sizes 4, 5, 6 with D = 48 and 600 using R = 200000 (larger R because the estimator is more skewed there), sizes 64..256 with enough distinct values for many halving rounds, and scripted streams that sit just above capacity with the zero value of the element type at the critical position (first Add after the buffer fills, first Add overall, back-to-back repeats), and streams counted after a Reset that followed a long run far above capacity; the fixed stream repeats every value 1..3 times, interleaved; |mean(Count) - D| <= 7 * sd/sqrt(R) + 0.002 * D. (c) natively seeded counters (the reseeding hook is not used: NewCounter's own seeding is part of what is monitored): 20 000..140 000 counters per configuration on one stream, mean test as above, and no lag L at which run r and run r+L agree at all of 8 checkpoints for 99 % of 300+ pairs (independence of repeated runs). (d) scripted coin flips (hook VerifSetSource): counters taken through up to 60 halving rounds in a few thousand Adds, deterministic clauses checked after every Add. Sizes 2 and 3 get the deterministic clauses only (estimator too heavy-tailed for a CLT-based tolerance). " +
					"(e) buffers of 1025..3000 elements stopped at their first halving pass: the number of values that remain is Binomial(L, 1/2) exactly (L = values buffered before the pass); mean and variance over 16*size (48*size thorough) seeded runs are compared with L/2 and L/4 at 6.5 standard errors, which is less than one element. " +
					"(f) one counter used for 2500 runs with Reset in between (sizes 8..64, 100..1000 distinct values, hook-seeded and natively seeded): the mean of Count over those runs against the true number, 7 standard errors + 0.2 %. " +
					"All randomness derives from VERIF_SEED. distinct = hash(size, stream, seed) of deterministic runs + one per statistical configuration; non-trivial = the run went above capacity (at least one halving)",
				Required:     []string{"deterministic_runs", "adds_checked", "exact_regime_checks", "halvings_observed", "resets", "statistical_configs", "statistical_runs", "runs_with_repeats_above_capacity", "resets_on_empty_buffer", "natively_seeded_runs", "scripted_coin_runs", "very_large_buffer_runs", "first_halving_configs", "reused_counter_configs"},
				Assumptions:  []string{"CLT tolerance: 7 sample standard errors + 0.2 % of D; measured skewness is reported in the evidence (|skew| * 343 / (6 sqrt(R)) stays below 1, so the normal tail 2.6e-12 is off by a small factor only)", "the hook distinct.VerifReseed only replaces the random source of a counter built by NewCounter"},
				CoverPkgs:    []string{"github.com/creachadair/mds/distinct"},
				CoverAnchors: []string{"distinct/distinct.go:NewCounter", "distinct/distinct.go:Add", "distinct/distinct.go:Count", "distinct/distinct.go:Len", "distinct/distinct.go:Reset"},
			}
		},
		Run: runC19,
	})
}

func c19seed(a, b, cc uint64) [32]byte {
	var s [32]byte
	h := fw.NewH()
	h.U64(a)
	h.U64(b)
	h.U64(cc)
	for i := 0; i < 4; i++ {
		h.Int(i)
		binary.LittleEndian.PutUint64(s[8*i:], h.Sum())
	}
	return s
}

func c19det(c *fw.Ctx, r *rand.Rand, caseNo int) {
	size := 2 + r.IntN(63)
	switch caseNo % 10 {
	case 0:
		size = 2 + r.IntN(5)
	case 1:
		size = []int{100, 128, 1000}[r.IntN(3)]
	}
	seed := c19seed(c.Seed, uint64(c.Block), uint64(caseNo))
	ctr := distinct.NewCounter[int](size)
	distinct.VerifReseed(ctr, seed)
	// stream: value range chosen so that the distinct count ends below, at or far above the size
	var rng int
	switch r.IntN(4) {
	case 0:
		rng = max(1, size-1-r.IntN(size/2+1)) // stays below the size
	case 1:
		rng = size // reaches exactly the size
	case 2:
		rng = size * (2 + r.IntN(8))
	default:
		rng = size * (20 + r.IntN(100))
	}
	n := min(rng*(1+r.IntN(4)), 4000) + r.IntN(20)
	data := map[string]any{"size": size, "value_range": rng, "adds": n, "seed": fmt.Sprintf("%x", seed[:8])}
	var log []int
	seen := map[int]bool{}
	exact := true
	lastJ := -1
	halved, repeatsAbove := false, false
	fail := func(format string, args ...any) {
		if len(log) <= 300 {
			data["stream_so_far"] = fmt.Sprint(log)
		} else {
			data["stream_tail"] = fmt.Sprint(log[len(log)-300:])
		}
		c.Fail(data, "after %d Adds: %s", len(log), fmt.Sprintf(format, args...))
	}
	if ctr.Len() != 0 || ctr.Count() != 0 {
		fail("a new counter has Len=%d Count=%d", ctr.Len(), ctr.Count())
		return
	}
	for i := 0; i < n; i++ {
		if r.IntN(400) == 0 {
			ctr.Reset()
			c.Add("resets", 1)
			log = append(log, -1) // marks a Reset
			seen = map[int]bool{}
			exact, lastJ = true, -1
			if ctr.Len() != 0 || ctr.Count() != 0 {
				fail("after Reset: Len=%d Count=%d", ctr.Len(), ctr.Count())
				return
			}
		}
		v := r.IntN(rng)
		if r.IntN(3) == 0 && len(log) > 0 && log[len(log)-1] >= 0 {
			v = log[r.IntN(len(log))] // repeat an earlier value
			if v < 0 {
				v = 0
			}
		}
		if seen[v] && !exact {
			repeatsAbove = true
		}
		seen[v] = true
		log = append(log, v)
		ctr.Add(v)
		c.Step()
		c.Add("adds_checked", 1)
		ln, cnt := ctr.Len(), ctr.Count()
		if len(seen) >= size {
			exact = false
		}
		if exact {
			c.Add("exact_regime_checks", 1)
			if cnt != uint64(len(seen)) || ln != len(seen) {
				fail("%d distinct values (< size %d) have been added but Count=%d Len=%d", len(seen), size, cnt, ln)
				return
			}
		}
		if ln > size {
			fail("Len=%d exceeds the buffer size %d", ln, size)
			return
		}
		if ln < 0 {
			fail("Len=%d", ln)
			return
		}
		if ln == 0 {
			if cnt != 0 {
				fail("Len=0 but Count=%d", cnt)
				return
			}
			continue
		}
		if cnt%uint64(ln) != 0 || bits.OnesCount64(cnt/uint64(ln)) != 1 {
			fail("Count=%d is not Len=%d times a power of two", cnt, ln)
			return
		}
		j := bits.TrailingZeros64(cnt / uint64(ln))
		if j < lastJ {
			fail("Count=%d = Len %d * 2^%d, but the exponent was %d before: it decreased without a Reset", cnt, ln, j, lastJ)
			return
		}
		if j > lastJ && lastJ >= 0 || j > 0 && lastJ < 0 {
			halved = true
			c.Add("halvings_observed", 1)
		}
		lastJ = j
	}
	// Reset while the buffer is empty but the counter is in the sampling regime
	// (re-offering values that were seen can empty the buffer): Reset must still
	// restore the exact regime.
	if size <= 10 && !exact && len(log) > 0 {
		for tries := 0; tries < 4000 && ctr.Len() > 0; tries++ {
			v := log[r.IntN(len(log))]
			if v >= 0 {
				ctr.Add(v)
			}
		}
		if ctr.Len() == 0 {
			c.Add("resets_on_empty_buffer", 1)
			ctr.Reset()
			ctr.Add(12345)
			if ctr.Count() != 1 || ctr.Len() != 1 {
				fail("after Reset (called while the buffer was empty in the sampling regime) and one Add: Count=%d Len=%d, want the exact regime (1, 1)", ctr.Count(), ctr.Len())
				return
			}
			ctr.Add(12346)
			ctr.Add(12345)
			if size > 2 && ctr.Count() != 2 {
				fail("after Reset and Adds of 2 distinct values: Count=%d", ctr.Count())
				return
			}
		}
	}
	c.Add("deterministic_runs", 1)
	if repeatsAbove {
		c.Add("runs_with_repeats_above_capacity", 1)
	}
	if halved {
		h := fw.NewH()
		h.Int(size)
		h.Ints(log)
		c.Seen(h.Sum())
	}
	if c.WantSample() && len(log) < 60 && halved {
		c.Sample(map[string]any{"size": size, "stream(-1=Reset)": fmt.Sprint(log), "final_Len": ctr.Len(), "final_Count": ctr.Count()})
	}
}

type c19cfg struct {
	Size, D, R int
	Kind       string // "" = shuffled stream with repeats; otherwise a scripted stream just above capacity
}

func c19stat(c *fw.Ctx, cfg c19cfg, cfgNo int) {
	// fixed stream: D distinct values, each 1..3 times, interleaved (depends on the configuration only)
	sr := rand.New(rand.NewPCG(uint64(cfg.Size)*1000003+uint64(cfg.D), 77))
	var stream []int
	switch cfg.Kind {
	case "":
		for v := 0; v < cfg.D; v++ {
			for k := 1 + sr.IntN(3); k > 0; k-- {
				stream = append(stream, v)
			}
		}
		sr.Shuffle(len(stream), func(i, j int) { stream[i], stream[j] = stream[j], stream[i] })
	case "fill-then-zero":
		// exactly fill the buffer with non-zero values, then the zero value of the
		// element type arrives as the first Add above capacity, then the rest
		for v := 1; v < cfg.D; v++ {
			stream = append(stream, v)
			if v == cfg.Size {
				stream = append(stream, 0)
			}
		}
		if cfg.D <= cfg.Size {
			stream = append(stream, 0)
		}
	case "reset-then-stream":
		// handled below: a first stream far above capacity, Reset, then this stream
		for v := 0; v < cfg.D; v++ {
			stream = append(stream, v)
			if v%3 == 0 {
				stream = append(stream, v)
			}
		}
	case "zero-first":
		for v := 0; v < cfg.D; v++ {
			stream = append(stream, v)
		}
	case "ascending-pairs":
		// every value twice in a row (back-to-back repeats), zero included
		for v := 0; v < cfg.D; v++ {
			stream = append(stream, v, v)
		}
	}
	var sum, sum2, sum3 float64
	maxLen := 0
	for run := 0; run < cfg.R; run++ {
		ctr := distinct.NewCounter[int](cfg.Size)
		distinct.VerifReseed(ctr, c19seed(c.Seed, uint64(cfgNo)<<32|uint64(run), 0xc19))
		if cfg.Kind == "reset-then-stream" {
			for v := 0; v < 40*cfg.Size; v++ {
				ctr.Add(1000000 + v) // drives the counter through several halving rounds
			}
			ctr.Reset()
		}
		for _, v := range stream {
			ctr.Add(v)
		}
		x := float64(ctr.Count())
		sum += x
		sum2 += x * x
		sum3 += x * x * x
		if ctr.Len() > maxLen {
			maxLen = ctr.Len()
		}
		if run%256 == 0 {
			c.Step()
		}
	}
	R := float64(cfg.R)
	mean := sum / R
	variance := sum2/R - mean*mean
	if variance < 0 {
		variance = 0
	}
	sd := math.Sqrt(variance)
	se := sd / math.Sqrt(R)
	skew := 0.0
	if sd > 0 {
		skew = (sum3/R - 3*mean*variance - mean*mean*mean) / (sd * sd * sd)
	}
	tol := 7*se + 0.002*float64(cfg.D)
	dev := mean - float64(cfg.D)
	z := 0.0
	if se > 0 {
		z = dev / se
	}
	c.Add("statistical_configs", 1)
	c.Add("statistical_runs", int64(cfg.R))
	c.Note("statistical config %q size=%d D=%d R=%d: mean=%.3f sd=%.2f se=%.4f z=%.2f skew=%.2f tolerance=%.3f", cfg.Kind, cfg.Size, cfg.D, cfg.R, mean, sd, se, z, skew, tol)
	c.SeenEnum(1)
	if c.WantSample() {
		c.Sample(map[string]any{"statistical_config": cfg, "mean_Count": mean, "sd": sd, "standard_error": se, "z": z, "skewness": skew, "tolerance": tol})
	}
	if math.Abs(dev) > tol {
		c.Fail(map[string]any{"size": cfg.Size, "distinct_values": cfg.D, "runs": cfg.R, "stream_length": len(stream), "seed_base": c.Seed},
			"mean of Count over %d seeded counters is %.3f for %d distinct values: off by %.3f = %.1f standard errors (tolerance %.3f)", cfg.R, mean, cfg.D, dev, z, tol)
	}
	if maxLen > cfg.Size {
		c.Fail(map[string]any{"size": cfg.Size, "distinct_values": cfg.D}, "Len reached %d with buffer size %d", maxLen, cfg.Size)
	}
}

// c19native: counters seeded the way NewCounter itself seeds them (the
// monitor's reseeding hook is NOT used). Runs are not replayable, but the
// verdicts keep a false-alarm probability far below 1e-9: (1) the mean test
// with the usual tolerance; (2) the runs must not repeat each other: for every
// lag L, the fingerprints (Count at 8 checkpoints of the stream) of run r and
// run r+L may not agree for 99 % of at least 300 pairs. Independent runs agree
// with a probability of a few per cent at most, so 297 of 300 is out of reach
// for chance, while a seed sequence with a period fires at once.
func c19native(c *fw.Ctx, size, D, R int) {
	// every value once: the counter's trajectory then depends on its random
	// bits only (not on the iteration order of its buffer, which Go randomises),
	// so two counters with the same seed produce the same fingerprint
	stream := make([]int, 0, D)
	sr := rand.New(rand.NewPCG(uint64(size)*7919+uint64(D), 5))
	for v := 0; v < D; v++ {
		stream = append(stream, v)
	}
	sr.Shuffle(len(stream), func(i, j int) { stream[i], stream[j] = stream[j], stream[i] })
	fps := make([]uint64, R)
	var sum, sum2 float64
	for run := 0; run < R; run++ {
		ctr := distinct.NewCounter[int](size)
		h := fw.NewH()
		for i, v := range stream {
			ctr.Add(v)
			if (i+1)%(len(stream)/8) == 0 {
				h.Int(int(ctr.Count()))
			}
		}
		fps[run] = h.Sum()
		x := float64(ctr.Count())
		sum += x
		sum2 += x * x
		if run%256 == 0 {
			c.Step()
		}
	}
	c.Add("natively_seeded_runs", int64(R))
	mean := sum / float64(R)
	variance := max(0, sum2/float64(R)-mean*mean)
	se := math.Sqrt(variance / float64(R))
	tol := 7*se + 0.002*float64(D)
	data := map[string]any{"size": size, "distinct_values": D, "runs": R, "seeding": "NewCounter's own (no reseeding hook)"}
	if math.Abs(mean-float64(D)) > tol {
		c.Fail(data, "mean of Count over %d natively seeded counters is %.3f for %d distinct values (tolerance %.3f)", R, mean, D, tol)
		return
	}
	// exact repeats at a fixed lag
	for lag := 1; lag <= R-300; lag++ {
		agree, pairs := 0, 0
		for r := 0; r+lag < R && pairs < 400; r++ {
			pairs++
			if fps[r] == fps[r+lag] {
				agree++
			} else if pairs-agree > 4 {
				break
			}
		}
		if pairs >= 300 && agree*100 >= pairs*99 {
			c.Fail(data, "runs are not independent: run r and run r+%d produced the same Count at all 8 checkpoints in %d of %d pairs", lag, agree, pairs)
			return
		}
	}
	// and overall: far too few distinct outcomes
	distinctFP := map[uint64]bool{}
	for _, f := range fps {
		distinctFP[f] = true
	}
	c.Max("max:natively_seeded_distinct_outcomes", int64(len(distinctFP)))
	c.SeenEnum(1)
}

// c19firstHalving: buffers of 1000..3000 elements, where the counter is
// stopped at its first halving pass. Up to that pass every value is accepted,
// so with L values buffered before it the number that remain is Binomial(L,
// 1/2) exactly; its mean and variance are compared with L/2 and L/4 over
// 16*size independently seeded runs (48*size in thorough), which makes 6.5
// standard errors of the mean less than one element: a pass that lets a single
// element too many (or too few) through is visible.
func c19firstHalving(c *fw.Ctx, size, runs, no int) {
	var sum, sum2 float64
	before := -1
	data := map[string]any{"size": size, "runs": runs, "phase": "first halving pass"}
	for run := 0; run < runs; run++ {
		ctr := distinct.NewCounter[int](size)
		distinct.VerifReseed(ctr, c19seed(c.Seed, uint64(no)<<32|uint64(run), 0xf1a))
		base := run * 3
		n := 0
		for ; n <= size+1 && ctr.Count() == uint64(ctr.Len()) && ctr.Len() == n; n++ {
			ctr.Add(base + n)
		}
		ln := ctr.Len()
		if n > size+1 || ln > size {
			c.Fail(data, "run %d: %d distinct values added to a counter of size %d: Len=%d Count=%d (no halving pass, or the buffer exceeds its size)", run, n, size, ln, ctr.Count())
			return
		}
		if before < 0 {
			before = n
		} else if before != n {
			c.Fail(data, "run %d: the first halving pass came after %d values, in earlier runs after %d", run, n, before)
			return
		}
		if ctr.Count() != 2*uint64(ln) {
			c.Fail(data, "run %d: after the first halving pass Len=%d Count=%d, want Count = 2*Len", run, ln, ctr.Count())
			return
		}
		d := float64(ln) - float64(n)/2
		sum += d
		sum2 += d * d
		if run%64 == 0 {
			c.Step()
		}
	}
	R := float64(runs)
	L := float64(before)
	mean := sum / R
	se := math.Sqrt(L / 4 / R)
	variance := sum2/R - mean*mean
	data["values_buffered_before_the_pass"] = before
	data["mean_of_Len_minus_half"] = mean
	data["standard_error"] = se
	data["variance_over_quarter"] = variance / (L / 4)
	if math.Abs(mean) > 6.5*se {
		c.Fail(data, "size %d: after the first halving pass over %d buffered values, Len - %d/2 has mean %+.3f over %d runs; each value should remain with probability 1/2, which puts the mean within 6.5 standard errors (%.3f) of zero", size, before, before, mean, runs, 6.5*se)
		return
	}
	if rel := variance/(L/4) - 1; math.Abs(rel) > 6.5*math.Sqrt(2/R) {
		c.Fail(data, "size %d: after the first halving pass the variance of Len over %d runs is %.4f times that of Binomial(%d, 1/2); 6.5 standard errors allow a deviation of %.4f", size, runs, variance/(L/4), before, 6.5*math.Sqrt(2/R))
		return
	}
	c.Add("first_halving_runs_at_sizes_1000_to_3000", int64(runs))
	c.Add("first_halving_configs", 1)
	if c.WantSample() {
		c.Sample(data)
	}
}

// c19reused: one counter used for run after run with Reset in between. Reset
// restores the exact regime, and the runs that follow must be as good as runs
// on fresh counters: their mean converges to the true number of distinct
// values (it would not if the runs shared their coin flips). Odd-numbered
// configurations leave the counter natively seeded.
func c19reused(c *fw.Ctx, no int) {
	size := []int{8, 16, 32, 64}[no%4]
	D := []int{100, 400, 640, 1000}[(no/4)%4]
	R := 2500
	ctr := distinct.NewCounter[int](size)
	native := no%2 == 1
	if !native {
		distinct.VerifReseed(ctr, c19seed(c.Seed, uint64(no), 0x5e7))
	}
	var sum, sum2 float64
	for run := 0; run < R; run++ {
		base := run * 1000003
		for v := 0; v < D; v++ {
			ctr.Add(base + v)
			if v%3 == 0 {
				ctr.Add(base + v/2)
			}
		}
		x := float64(ctr.Count())
		sum += x
		sum2 += x * x
		ctr.Reset()
		if ctr.Len() != 0 || ctr.Count() != 0 {
			c.Fail(map[string]any{"size": size}, "after Reset: Len=%d Count=%d", ctr.Len(), ctr.Count())
			return
		}
		if run%64 == 0 {
			c.Step()
		}
	}
	mean := sum / float64(R)
	variance := max(sum2/float64(R)-mean*mean, 0)
	se := math.Sqrt(variance / float64(R))
	tol := 7*se + 0.002*float64(D)
	data := map[string]any{"size": size, "distinct_values": D, "runs_separated_by_Reset": R, "natively_seeded": native, "mean": mean, "standard_error": se}
	if math.Abs(mean-float64(D)) > tol {
		c.Fail(data, "one counter (size %d) used for %d runs with Reset in between, %d distinct values each: the mean of Count is %.2f, which is %.2f away from %d; 7 standard errors + 0.2%% allow %.2f", size, R, D, mean, mean-float64(D), D, tol)
		return
	}
	c.Add("reused_counter_configs", 1)
	c.Add("runs_on_a_reused_counter", int64(R))
}

func runC19(c *fw.Ctx) {
	if c.Begin(1<<22 + 200 + c.Block) {
		ok, pv, stack := fw.Try(func() { c19reused(c, c.Block) })
		if !ok {
			c.FailKind("panic", map[string]any{"phase": "reused counter"}, "panic: %v\n%s", pv, stack)
		}
	}
	if c.Flavour == "plain" && c.Begin(1<<22+100+c.Block) {
		size := []int{1025, 1100, 1200, 1300, 1500, 1600, 1800, 2049, 2100, 2200, 2300, 2500, 2600, 2800, 3000, 1030}[c.Block%16]
		ok, pv, stack := fw.Try(func() { c19firstHalving(c, size, c.Pick(16, 48)*size, c.Block) })
		if !ok {
			c.FailKind("panic", map[string]any{"phase": "first halving pass", "size": size}, "panic: %v\n%s", pv, stack)
		}
	}
	for k := 0; k < 6; k++ {
		if !c.Begin(1<<22 + k) {
			continue
		}
		size := []int{2, 3, 5, 16, 64, 300}[k]
		seed := c.Rng().Uint64()
		ok, pv, stack := fw.Try(func() { c19scripted(c, size, seed) })
		if !ok {
			c.FailKind("panic", map[string]any{"phase": "scripted coin flips", "size": size}, "panic: %v\n%s", pv, stack)
		}
	}
	if c.Begin(1<<21 + c.Block) {
		// natural seeding: many more counters than any plausible period of a seed sequence
		cfgs := [][3]int{{8, 80, 40000}, {16, 300, 30000}, {32, 400, 70000}, {64, 640, 20000}, {5, 48, 140000}, {100, 1000, 20000}, {12, 100, 66000}, {24, 200, 33000}}
		cf := cfgs[c.Block%len(cfgs)]
		ok, pv, stack := fw.Try(func() { c19native(c, cf[0], cf[1], cf[2]) })
		if !ok {
			c.FailKind("panic", map[string]any{"phase": "natively seeded counters"}, "panic: %v\n%s", pv, stack)
		}
	}
	n := c.Pick(1500, 120000)
	for k := 0; k < n; k++ {
		if !c.Begin(k) {
			continue
		}
		r := c.Rng()
		ok, pv, stack := fw.Try(func() { c19det(c, r, k) })
		if !ok {
			c.FailKind("panic", map[string]any{"phase": "deterministic run"}, "panic: %v\n%s", pv, stack)
		}
	}
	// very large buffers (beyond 2^19 elements): a single run is precise enough
	// there (relative standard error about 1/sqrt(size)); natively seeded
	if c.Block < 4 && c.Begin(1<<23+c.Block) {
		size := []int{524289, 700000, 1048577, 300000}[c.Block]
		D := 2*size + 12345
		ok, pv, stack := fw.Try(func() {
			ctr := distinct.NewCounter[int](size)
			for v := 0; v < D; v++ {
				ctr.Add(v)
				if v < size-1 && v%65536 == 0 && (ctr.Count() != uint64(v+1) || ctr.Len() != v+1) {
					c.Fail(map[string]any{"size": size}, "exact regime: after %d distinct values Count=%d Len=%d", v+1, ctr.Count(), ctr.Len())
					return
				}
				if v%1000003 == 0 {
					c.Step()
				}
			}
			got := float64(ctr.Count())
			rel := math.Abs(got-float64(D)) / float64(D)
			tol := 9 / math.Sqrt(float64(size)) // nine single-run standard errors: about 1 %
			if ctr.Len() > size || rel > tol {
				c.Fail(map[string]any{"size": size, "distinct_values": D}, "one run with a buffer of %d: Count=%d for %d distinct values (off by %.2f %%, tolerance %.2f %%), Len=%d", size, ctr.Count(), D, 100*rel, 100*tol, ctr.Len())
			}
		})
		if !ok {
			c.FailKind("panic", map[string]any{"size": size}, "panic: %v\n%s", pv, stack)
		}
		c.Add("very_large_buffer_runs", 1)
	}
	R := c.Pick(4000, 40000)
	Rs := c.Pick(200000, 1000000)
	cfgs := []c19cfg{
		{8, 6, R, ""}, {8, 80, R, ""}, {8, 800, R, ""},
		{16, 12, R, ""}, {16, 160, R, ""}, {16, 1600, R, ""},
		{64, 50, R, ""}, {64, 640, R, ""}, {64, 2000, R, ""}, {64, 6400, R / 2, ""},
		{4, 48, Rs, ""}, {5, 48, Rs, ""}, {6, 48, Rs, ""}, {4, 600, Rs / 4, ""}, {5, 600, Rs / 4, ""}, {6, 600, Rs / 4, ""},
		// larger buffers with many halving rounds (size + rounds beyond 64 bits of one random word)
		{64, 65536, R / 8, ""}, {100, 20000, R / 4, ""}, {128, 30000, R / 4, ""}, {256, 20000, R / 4, ""},
		// just above capacity, with the zero value of the element type at the critical position
		{8, 9, 10 * R, "fill-then-zero"}, {8, 16, 10 * R, "fill-then-zero"}, {16, 17, 10 * R, "fill-then-zero"}, {4, 5, Rs / 2, "fill-then-zero"},
		{8, 80, R, "reset-then-stream"}, {16, 400, R, "reset-then-stream"}, {64, 2000, R, "reset-then-stream"}, {64, 40, R, "reset-then-stream"},
		{8, 12, 10 * R, "zero-first"}, {16, 40, 10 * R, "ascending-pairs"}, {8, 9, 10 * R, "ascending-pairs"}, {64, 65, 4 * R, "fill-then-zero"},
		// buffers just beyond 64, 128 and 256 elements (one machine word of random bits per
		// 64 elements in a halving pass), with enough runs that 7 standard errors stay below
		// 0.45 % of D: an error affecting one element per pass (about 1/size) is visible
		{65, 650, 15 * R, ""}, {72, 600, 15 * R, ""}, {100, 1000, 10 * R, ""}, {130, 1300, 8 * R, ""}, {200, 2000, 10 * R, ""}, {260, 2600, 8 * R, ""},
		{66, 400, 15 * R, "ascending-pairs"}, {129, 700, 10 * R, "zero-first"},
	}
	for i, cfg := range cfgs {
		if i%c.NBlocks != c.Block {
			continue
		}
		if !c.Begin(1<<20 + i) {
			continue
		}
		ok, pv, stack := fw.Try(func() { c19stat(c, cfg, i) })
		if !ok {
			c.FailKind("panic", map[string]any{"phase": "statistical", "config": cfg}, "panic: %v\n%s", pv, stack)
		}
	}
}

// c19scripted: the counter's coin flips are scripted (hook VerifSetSource), so
// that it goes through 50 and more halving rounds in a few thousand Adds: every
// other acceptance draw lands just below the threshold, every other just at
// it, and the halving passes keep a pseudo-random half. Each such outcome has
// a positive (if tiny) probability, and the deterministic clauses of the
// property hold for every outcome: Len <= size, Count == Len * 2^k with k
// never decreasing, exact counting restored by Reset. (Rounds beyond 60 -
// more than 2^60 distinct values - are not examined.)
type c19script struct {
	ctr   *distinct.Counter[int]
	n     uint64
	state uint64
	mode  int // what the next draw is for: set by the monitor before each Add
}

func (s *c19script) Uint64() uint64 {
	s.n++
	s.state = s.state*6364136223846793005 + 1442695040888963407
	if s.mode == 1 { // the acceptance draw of the Add that follows
		s.mode = 2
		p := distinct.VerifThreshold(s.ctr)
		if s.n%2 == 0 || p == 0 {
			return p // rejected (draw >= p)
		}
		return p - 1 // accepted
	}
	return s.state ^ s.state>>29 // halving pass: an arbitrary half survives
}

func c19scripted(c *fw.Ctx, size int, seed uint64) {
	ctr := distinct.NewCounter[int](size)
	sc := &c19script{ctr: ctr, state: seed}
	distinct.VerifSetSource(ctr, sc)
	data := map[string]any{"size": size, "coin_flips": "scripted (hook VerifSetSource): acceptance draws alternate just below / at the threshold, halving passes keep a pseudo-random half"}
	var prevShift int = -1
	maxRounds := 0
	for v := 0; v < 40000; v++ {
		if distinct.VerifThreshold(ctr) < 1<<(bits.Len(uint(size))+6) {
			break // stay where Len * 2^k is far from the end of uint64 (estimates beyond 2^58 are not examined)
		}
		sc.mode = 1
		ctr.Add(v)
		ln, cnt := ctr.Len(), ctr.Count()
		if ln > size {
			c.Fail(data, "after %d Adds: Len=%d exceeds the buffer size %d", v+1, ln, size)
			return
		}
		if ln > 0 {
			if cnt%uint64(ln) != 0 {
				c.Fail(data, "after %d Adds: Count=%d is not a multiple of Len=%d", v+1, cnt, ln)
				return
			}
			f := cnt / uint64(ln)
			if f&(f-1) != 0 {
				c.Fail(data, "after %d Adds: Count=%d is Len=%d times %d, which is not a power of two", v+1, cnt, ln, f)
				return
			}
			shift := bits.TrailingZeros64(f)
			if shift < prevShift {
				c.Fail(data, "after %d Adds: Count/Len went down from 2^%d to 2^%d without a Reset", v+1, prevShift, shift)
				return
			}
			prevShift = shift
			maxRounds = max(maxRounds, shift)
		}
		if v%512 == 0 {
			c.Step()
		}
	}
	ctr.Reset()
	for v := 0; v < size-1; v++ {
		sc.mode = 1
		ctr.Add(1000000 + v)
	}
	if ctr.Len() != size-1 || ctr.Count() != uint64(size-1) {
		c.Fail(data, "after Reset following %d halving rounds and %d further distinct values: Len=%d Count=%d", maxRounds, size-1, ctr.Len(), ctr.Count())
		return
	}
	c.Add("scripted_coin_runs", 1)
	c.Max("max:halving_rounds_reached", int64(maxRounds))
}
