//go:build pC13 || pall

package props

import (
	"fmt"
	"io"
	"math"
	"math/rand/v2"

	"github.com/creachadair/mds/mdiff"
	"verif/harness/fw"
)

// C13 — mdiff chunks always describe a correct patch from Left to Right, at
// three observation points: after New, after AddContext(n), after Unify.

func init() {
	fw.Register(&fw.Property{
		ID: "C13",
		Meta: func(tier string) fw.Meta {
			return fw.Meta{
				Flavours: []string{"plain", "cover", "386"},
				Blocks:   16,
				Procs:    16,
				Rule: "case = (Left, Right, n). Exhaustive: every pair of line sequences over alphabet 2 x length <= 8, alphabet 3 x length <= 5 and alphabet 4 x length <= 4 (alphabet 2 x length <= 9, alphabet 3 x length <= 6 in thorough), each with every context size n in 0..5 (so n exceeds every gap for short inputs); random repetitive inputs of up to 60 lines with n in 0..8; context sizes 1000, 2^31, 2^40, MaxInt-1 and MaxInt; inputs that are windows of one shared backing array; very large inputs (4100..11700 lines a side, 16400 and 23200 in thorough: length products past 2^24..2^29) whose seam repeats (one of two adjacent identical blocks removed or added), with the middle replaced, with nothing in common at the ends, and with scattered edits; the F4 witnesses as regression cases. " +
					"In about half of the cases the diff is rendered (Diff.Format with all three formatters) between the stages, before the stage is checked. At each of the three stages every chunk's edits are interpreted against Left[LStart,LEnd) and Right[RStart,REnd); leading/trailing context <= n; after New and after Unify chunks ascending and disjoint (after Unify also not adjacent) and replacing each left range by the chunk's output yields Right; Edits deep-equals its value after New and is itself a correct script; Left/Right are not modified. " +
					"Lopsided pairs with 66000..132000 pairwise different lines on one side and one to three lines on the other. " +
					"Every seventh sparse input has 1500..5500 lines and is given a context of 300..6000 lines (values around 512, 1024, 2048, 4096 included). " +
					"distinct = enumerated (Left, Right, n) triples, random ones by hash; non-trivial = New produced >= 2 chunks and n >= 1 (context of neighbouring chunks can interact)",
				Required:     []string{"triples", "multi_chunk_triples", "merged_by_unify", "n_exceeds_gap", "f4_witnesses", "aliased_input_triples", "huge_n_triples", "very_large_input_triples", "formats_between_stages", "unify_on_rebuilt_chunks", "long_sparse_input_triples", "long_sparse_inputs_with_context_in_the_hundreds_or_thousands", "lopsided_pairs_with_over_65536_distinct_lines"},
				Exhaustive:   true,
				Assumptions:  []string{"chunk interpreter written from the Chunk field documentation (1-based half-open ranges)"},
				CoverPkgs:    []string{"github.com/creachadair/mds/mdiff"},
				CoverAnchors: []string{"mdiff/mdiff.go"},
			}
		},
		Run: runC13,
	})
}

var c13letters = []string{"a", "b", "c", "d", "e"}

// pairs of different lines that collide under common 32-bit hashes (CRC-32, FNV-1, FNV-1a, Java hashCode)
var c13collide = []string{"plumless", "buckeroo", "costarring", "liquid", "declinate", "macallums", "Aa", "BB"}

func linesOf(code []int) []string {
	out := make([]string, len(code))
	for i, v := range code {
		out[i] = c13letters[v]
	}
	return out
}

// c13check runs the three-stage check; returns (#chunks after New, merged, nExceedsGap).
func c13check(c *fw.Ctx, left, right []string, n int) (nchunks int, merged, exceeds bool) {
	l0, r0 := append([]string(nil), left...), append([]string(nil), right...)
	caseData := map[string]any{"left": left, "right": right, "n": n}
	stage := "New"
	var d *mdiff.Diff
	fail := func(format string, args ...any) {
		if d != nil {
			caseData["chunks"] = chunksString(d.Chunks)
		}
		c.Fail(caseData, "after %s: %s", stage, fmt.Sprintf(format, args...))
	}
	ok, pv, stack := fw.Try(func() {
		d = mdiff.New(left, right)
		c.Step()
		if (len(left)+2*len(right)+n)%3 == 0 {
			for _, f := range []mdiff.FormatFunc{mdiff.Unified, mdiff.Normal, mdiff.Context} {
				d.Format(io.Discard, f, nil)
			}
		}
		checkChunks := func(maxCtx int, needDisjoint, needNonAdjacent bool) bool {
			for i, ch := range d.Chunks {
				lead, trail, prob := interpretChunk(ch, left, right)
				if prob != "" {
					fail("chunk %d %s: %s", i, chunkString(ch), prob)
					return false
				}
				if lead > maxCtx || trail > maxCtx {
					fail("chunk %d %s has %d leading / %d trailing context lines, more than n=%d", i, chunkString(ch), lead, trail, maxCtx)
					return false
				}
				if len(ch.Edits) == 0 {
					fail("chunk %d has no edits", i)
					return false
				}
				if i > 0 && needDisjoint {
					p := d.Chunks[i-1]
					if ch.LStart < p.LEnd || ch.RStart < p.REnd {
						fail("chunks %d and %d overlap or are out of order: %s %s", i-1, i, chunkString(p), chunkString(ch))
						return false
					}
					if needNonAdjacent && (ch.LStart == p.LEnd) {
						fail("chunks %d and %d are adjacent after Unify: %s %s", i-1, i, chunkString(p), chunkString(ch))
						return false
					}
				}
			}
			if needDisjoint {
				got, prob := applyChunks(d.Chunks, left)
				if prob != "" {
					fail("%s", prob)
					return false
				}
				if !equalStrings(got, right) {
					fail("replacing each chunk's left range by its output gives %q, not Right", got)
					return false
				}
			}
			return true
		}
		if !checkChunks(0, true, false) {
			return
		}
		nchunks = len(d.Chunks)
		if (len(d.Chunks) == 0) != equalStrings(left, right) {
			fail("%d chunks but inputs equal=%v", len(d.Chunks), equalStrings(left, right))
			return
		}
		// Edits is a correct full script
		whole := &mdiff.Chunk{Edits: d.Edits, LStart: 1, LEnd: len(left) + 1, RStart: 1, REnd: len(right) + 1}
		if len(d.Edits) > 0 {
			if _, _, prob := interpretChunk(whole, left, right); prob != "" {
				fail("Edits is not a script from Left to Right: %s", prob)
				return
			}
		} else if !equalStrings(left, right) {
			fail("Edits is empty for different inputs")
			return
		}
		edits0 := cloneEdits(d.Edits)
		for i := 1; i < len(d.Chunks); i++ {
			if gap := d.Chunks[i].LStart - d.Chunks[i-1].LEnd; n > gap {
				exceeds = true
			}
		}
		stage = fmt.Sprintf("AddContext(%d)", n)
		if got := d.AddContext(n); got != d {
			fail("AddContext did not return its receiver")
			return
		}
		c.Step()
		if (len(left)+len(right)+n)%2 == 0 {
			// read-only use between the stages: rendering the diff must not
			// change what the next stage works on
			stage = fmt.Sprintf("AddContext(%d) and Format", n)
			for _, f := range []mdiff.FormatFunc{mdiff.Unified, mdiff.Normal, mdiff.Context} {
				d.Format(io.Discard, f, nil)
			}
			c.Add("formats_between_stages", 1)
		}
		if !checkChunks(n, false, false) {
			return
		}
		if !equalEdits(d.Edits, edits0) {
			fail("Edits was disturbed: %v, was %v", d.Edits, edits0)
			return
		}
		if (len(left)+3*len(right)+n)%4 == 1 {
			// the chunks are rebuilt from their exported fields (a deep copy through
			// struct literals, as a caller who wants to keep the originals would make)
			// and unified with UnifyChunks; the result must satisfy the same clauses
			stage = fmt.Sprintf("AddContext(%d), then UnifyChunks on chunks rebuilt from their exported fields", n)
			cp := make([]*mdiff.Chunk, len(d.Chunks))
			for i, ch := range d.Chunks {
				es := make([]mdiff.Edit, len(ch.Edits))
				for j, e := range ch.Edits {
					es[j] = mdiff.Edit{Op: e.Op, X: append([]string(nil), e.X...), Y: append([]string(nil), e.Y...)}
				}
				cp[i] = &mdiff.Chunk{Edits: es, LStart: ch.LStart, LEnd: ch.LEnd, RStart: ch.RStart, REnd: ch.REnd}
			}
			keepChunks := d.Chunks
			d.Chunks = mdiff.UnifyChunks(cp)
			c.Add("unify_on_rebuilt_chunks", 1)
			okc := checkChunks(n, true, true)
			d.Chunks = keepChunks
			if !okc {
				return
			}
		}
		stage = fmt.Sprintf("AddContext(%d).Unify()", n)
		if got := d.Unify(); got != d {
			fail("Unify did not return its receiver")
			return
		}
		c.Step()
		if !checkChunks(n, true, true) {
			return
		}
		if !equalEdits(d.Edits, edits0) {
			fail("Edits was disturbed: %v, was %v", d.Edits, edits0)
			return
		}
		merged = len(d.Chunks) < nchunks
		if !equalStrings(left, l0) || !equalStrings(right, r0) {
			fail("the inputs were modified")
			return
		}
		if n >= 1 && n <= 3 && len(left)%3 == 0 {
			// a second AddContext/Unify pass on the same Diff: the width clause is
			// not applied (the statement bounds one pass), but every chunk must
			// still be a correct patch, chunks disjoint, and Left must become Right
			stage = fmt.Sprintf("AddContext(%d).Unify().AddContext(%d).Unify()", n, n)
			d.AddContext(n).Unify()
			c.Step()
			checkChunks(1<<30, true, true)
		}
	})
	if !ok {
		c.FailKind("panic", caseData, "panic after %s: %v\n%s", stage, pv, stack)
	}
	return
}

func runC13(c *fw.Ctx) {
	idx := 0
	if c.Block == 0 {
		if c.Begin(idx) {
			// F4 witnesses (fixed): regression cases
			w := [][3]any{
				{[]string{"c", "c", "c", "a", "b", "a", "a", "a"}, []string{"a", "b", "c", "b", "a", "c"}, 2},
				{[]string{"a", "b"}, []string{"a", "a", "b", "a"}, 2},
				{[]string{"a", "b"}, []string{"a", "a", "b", "a"}, 3},
			}
			for _, x := range w {
				c13check(c, x[0].([]string), x[1].([]string), x[2].(int))
				c.Add("f4_witnesses", 1)
			}
		}
	}
	idx++
	type space struct{ a, maxLen int }
	spaces := []space{{2, 8}, {3, 5}, {4, 4}}
	if c.Thorough() {
		spaces = []space{{2, 9}, {3, 6}, {4, 4}}
	}
	for _, sp := range spaces {
		cnt := countSeqsN(sp.a, sp.maxLen)
		for li := c.Block; li < cnt; li += c.NBlocks {
			if !c.Begin(idx + li) {
				continue
			}
			left := linesOf(seqOfN(li, sp.a))
			var triples, multi, mg, ex int64
			for ri := 0; ri < cnt; ri++ {
				right := linesOf(seqOfN(ri, sp.a))
				for n := 0; n <= 5; n++ {
					nch, merged, exceeds := c13check(c, left, right, n)
					triples++
					if nch >= 2 && n >= 1 {
						multi++
					}
					if merged {
						mg++
					}
					if exceeds {
						ex++
					}
				}
				if c.WantSample() && (li*31+ri)%1999 == 7 && len(left) >= 5 && len(right) >= 5 {
					d := mdiff.New(left, right).AddContext(1).Unify()
					c.Sample(map[string]any{"left": left, "right": right, "n": 1, "chunks_after_unify": chunksString(d.Chunks)})
				}
			}
			c.Evals(triples - 1)
			c.Add("triples", triples)
			c.Add("multi_chunk_triples", multi)
			c.Add("merged_by_unify", mg)
			c.Add("n_exceeds_gap", ex)
			c.SeenEnum(multi)
			if c.Stopped() {
				return
			}
		}
		idx += cnt
	}
	// extreme context sizes and inputs that share storage
	if c.Begin(idx + 800000 + c.Block) {
		var n64 int64
		for total := 1; total <= 8; total++ {
			buf := make([]string, total)
			for code := c.Block; code < 1<<uint(total); code += c.NBlocks {
				for i := range buf {
					buf[i] = c13letters[code>>uint(i)&1]
				}
				for a := 0; a <= total; a++ {
					for b := a; b <= total; b++ {
						for _, pr := range [][2][]string{{buf[:b], buf[:a]}, {buf[:a], buf[:b]}, {buf[a:b], buf[:b]}, {buf[a:], buf[:b]}} {
							c13check(c, pr[0], pr[1], (a+b)%4)
							n64++
						}
					}
				}
			}
		}
		c.Add("aliased_input_triples", n64)
		for i := 0; i < len(c13collide); i += 2 {
			a, b := c13collide[i], c13collide[i+1]
			for n := 0; n <= 2; n++ {
				c13check(c, []string{"x", a, "y"}, []string{"x", b, "y"}, n)
				c13check(c, []string{a, b, a}, []string{b, a}, n)
				c13check(c, []string{a}, []string{b}, n)
				n64 += 3
			}
		}
		for n := 0; n <= 3; n++ {
			c13check(c, nil, nil, n)
			c13check(c, nil, []string{"a", "b"}, n)
			c13check(c, []string{"a"}, nil, n)
			n64 += 3
		}
		for _, n := range []int{math.MaxInt, math.MaxInt - 1, clipInt(1 << 40), clipInt(1 << 31), 1000} {
			for li := 0; li < 40; li++ {
				left := linesOf(seqOfN(li*7+c.Block, 3))
				right := linesOf(seqOfN(li*13+3*c.Block+1, 3))
				c13check(c, left, right, n)
				n64++
				c.Add("huge_n_triples", 1)
			}
		}
		c.Evals(n64)
		c.Add("triples", n64)
		c.SeenEnum(n64)
	}
	// very large inputs: the product of the lengths passes 2^24, 2^26, 2^27 (and
	// 2^28, 2^29 in thorough), with seams that repeat (one of two adjacent
	// identical blocks removed or added), plain replacements and scattered edits
	{
		sizes := []int{4100, 8200, 11700}
		if c.Thorough() {
			sizes = append(sizes, 16400, 23200)
		}
		shapes := 6
		for k := 0; k < len(sizes)*shapes; k++ {
			if k%c.NBlocks != c.Block || !c.Begin(idx+3000000+k) {
				continue
			}
			size, shape := sizes[k/shapes], k%shapes
			blk := func(tag string, n, period int) []string {
				out := make([]string, n)
				for i := range out {
					out[i] = fmt.Sprint(tag, i%period)
				}
				return out
			}
			cat := func(parts ...[]string) []string {
				var out []string
				for _, p := range parts {
					out = append(out, p...)
				}
				return out
			}
			A, B, C := blk("a", size/3, 97), blk("b", size/3, 13), blk("c", size/3+size%3, 7)
			var left, right []string
			switch shape {
			case 0: // one of two adjacent identical blocks removed
				left, right = cat(A, B, B, C), cat(A, B, C)
			case 1: // ... or added
				left, right = cat(A, B, C), cat(A, B, B, C)
			case 2: // the middle replaced
				left, right = cat(A, B, C), cat(A, blk("x", size/3, 5), C)
			case 3: // nothing in common at either end
				left, right = cat(B, A, C, []string{"l"}), cat([]string{"r"}, A, C, B)
			case 4: // a periodic text shortened from inside
				left, right = cat(B, B, B), cat(B, B[:len(B)/2], B)
			default: // scattered point edits
				left = cat(A, B, C)
				right = append([]string(nil), left...)
				for i := 50; i < len(right); i += 997 {
					right[i] = "edited"
				}
			}
			c13check(c, left, right, []int{0, 3, 1}[k%3])
			c.Add("very_large_input_triples", 1)
			c.Add("triples", 1)
			c.Max("max:length_product", int64(len(left))*int64(len(right)))
		}
	}
	// lopsided pairs with more than 2^16 (2^17) pairwise different lines on one
	// side and a handful on the other: the number of DISTINCT lines is what is
	// large here, the length product stays small
	for k := 0; k < 6; k++ {
		if k%c.NBlocks != c.Block || !c.Begin(idx+3050000+k) {
			continue
		}
		N := []int{66000, 70000, 132000}[k%3]
		long := make([]string, N)
		for i := range long {
			long[i] = fmt.Sprint("line ", i)
		}
		var short []string
		switch k % 3 {
		case 0:
			short = []string{"something else"}
		case 1:
			short = []string{long[5], long[65541], long[N-1]}
		default:
			short = []string{long[65536], "x", long[131072]}
		}
		if k < 3 {
			c13check(c, long, short, []int{0, 3, 1}[k%3])
		} else {
			c13check(c, short, long, []int{3, 0, 2}[k%3])
		}
		c.Add("lopsided_pairs_with_over_65536_distinct_lines", 1)
		c.Add("triples", 1)
	}
	// inputs of 200..700 lines with a few scattered changes and long unchanged
	// runs between them, with every context size from 0 to 130 and a few beyond
	// (context runs of dozens of lines meet and merge)
	for k := 0; k < c.Pick(140, 1400); k++ {
		if !c.Begin(idx + 3100000 + k) {
			continue
		}
		r := c.Rng()
		nl := 200 + r.IntN(500)
		long := k%7 == 3
		if long {
			// unchanged runs of thousands of lines, with contexts in the hundreds and thousands
			nl = 1500 + r.IntN(4000)
		}
		left := make([]string, nl)
		for i := range left {
			left[i] = fmt.Sprint("line ", i)
		}
		right := append([]string(nil), left...)
		for ch := 2 + r.IntN(4); ch > 0; ch-- {
			p := r.IntN(len(right))
			switch r.IntN(3) {
			case 0:
				right[p] = "changed"
			case 1:
				right = append(right[:p:p], right[min(len(right), p+1+r.IntN(3)):]...)
			default:
				right = append(right[:p:p], append([]string{"inserted", "inserted too"}, right[p:]...)...)
			}
		}
		n := (k*7 + c.Block) % 131
		if k%10 == 9 {
			n = []int{150, 199, 200, 201, 255, 256, 300}[r.IntN(7)]
		}
		if long {
			big := []int{300, 511, 512, 513, 600, 777, 1000, 1023, 1024, 1025, 1100, 2000, 2047, 2048, 2049, 3000, 4095, 4096, 4097, 6000}
			n = big[(k/7+c.Block)%len(big)]
			c.Add("long_sparse_inputs_with_context_in_the_hundreds_or_thousands", 1)
		}
		c13check(c, left, right, n)
		c.Add("triples", 1)
		c.Add("long_sparse_input_triples", 1)
	}
	nr := c.Pick(4000, 400000)
	for k := 0; k < nr; k++ {
		if !c.Begin(idx + k) {
			continue
		}
		r := c.Rng()
		left, right := c13randomPair(r)
		n := r.IntN(9)
		nch, merged, exceeds := c13check(c, left, right, n)
		c.Add("triples", 1)
		if merged {
			c.Add("merged_by_unify", 1)
		}
		if exceeds {
			c.Add("n_exceeds_gap", 1)
		}
		if nch >= 2 && n >= 1 {
			c.Add("multi_chunk_triples", 1)
			h := fw.NewH()
			for _, s := range left {
				h.Str(s)
			}
			h.Int(-1)
			for _, s := range right {
				h.Str(s)
			}
			h.Int(n)
			c.Seen(h.Sum())
		}
	}
}

func countSeqsN(a, maxLen int) int {
	n, p := 0, 1
	for l := 0; l <= maxLen; l++ {
		n += p
		p *= a
	}
	return n
}

func seqOfN(idx, a int) []int {
	l := 0
	block := 1
	for idx >= block {
		idx -= block
		block *= a
		l++
	}
	s := make([]int, l)
	for i := l - 1; i >= 0; i-- {
		s[i] = idx % a
		idx /= a
	}
	return s
}

func c13randomPair(r *rand.Rand) (left, right []string) {
	alpha := 2 + r.IntN(4)
	n := r.IntN(61)
	code := make([]int, n)
	for i := range code {
		if i > 0 && r.IntN(3) == 0 {
			code[i] = code[i-1]
		} else {
			code[i] = r.IntN(alpha)
		}
	}
	left = linesOf(code)
	rc := append([]int(nil), code...)
	for m := r.IntN(8); m > 0 && len(rc) > 0; m-- {
		p := r.IntN(len(rc))
		switch r.IntN(4) {
		case 0:
			rc[p] = r.IntN(alpha)
		case 1:
			ins := make([]int, 1+r.IntN(3))
			for i := range ins {
				ins[i] = r.IntN(alpha)
			}
			rc = append(rc[:p:p], append(ins, rc[p:]...)...)
		case 2:
			q := min(len(rc), p+1+r.IntN(3))
			rc = append(rc[:p:p], rc[q:]...)
		case 3:
			q := min(len(rc), p+1+r.IntN(4))
			blk := append([]int(nil), rc[p:q]...)
			rc = append(rc[:q:q], append(blk, rc[q:]...)...)
		}
	}
	right = linesOf(rc)
	if r.IntN(2) == 0 {
		left, right = right, left
	}
	return
}
