//go:build pC02 || pall

package props

import (
	"fmt"
	"math"
	"math/rand/v2"
	"sort"

	"github.com/creachadair/mds/stree"
	"verif/harness/fw"
)

// C02 — stree.Tree stays within the scapegoat height bound
//   depth <= log_{2000/(1000+beta)}(P) + 1,  P = peak Len since creation / Clear / last empty,
// checked after every operation; Get needs at most floor(bound)+1 comparisons;
// New(n distinct keys) has height floor(log2 n).

func init() {
	fw.Register(&fw.Property{
		ID: "C02",
		Meta: func(tier string) fw.Meta {
			return fw.Meta{
				Flavours: []string{"plain", "race", "cover", "386"},
				Blocks:   32,
				Procs:    16,
				Rule: "case = (beta < 1000, insertion pattern, history). Patterns: ascending, descending, outward and inward zig-zag, insert-next-to-last-key (bisection), bit-reversal, random; long monotone runs at loose balance factors (beta 900..999) sized 30% beyond the point where a never-rebalanced chain would cross the bound (up to 30000 keys); histories continue on Clones of the tree; each followed or interleaved with removals (random, half drain, drain to empty, then regrow) and Clear; extremal spines: trees built top-down along one path so that every subtree on it has the smallest size the height rule (or the weight rule rounded down / up) accepts, for balance factors 0..999, followed by insertions at the deep end; deep-remnant histories: a tree of 200..2047 keys pruned to one deep subtree plus the spine of ancestors holding it in place (deepest-first, random or ascending removals; beta 0 in half of them), then every remaining key touched again by Add and Replace calls that find it present, with fresh insertions next to it. " +
					"After EVERY operation: depth of the deepest node (full traversal through Root/Left/Right for trees <= 300 keys; for larger trees the depth of the key just inserted, via Cursor(k)+Up, plus a full traversal every 64 steps and at the end) against the real-valued bound with P tracked by the monitor; comparator calls made by Get for present and absent keys against floor(bound)+1. " +
					"Bulk New with n distinct (and duplicated) keys: height == floor(log2 n) for every beta including 1000. beta: quick {0,1,2,50,100,250,300,500,700,750,900,999} + a rotating extra; thorough sweeps all 0..999. " +
					"distinct = hash(beta, pattern, ops); non-trivial = at some step the deepest key was within one level of log_b(P) (depth >= bound-2; on the unchanged tree the code keeps depth <= log_b(P), one level inside the stated bound)",
				Required:     []string{"near_limit_steps", "histories_inserting_through_replace", "long_monotone_runs", "clones", "clone_worker_rounds", "steps", "get_comparison_checks", "new_height_checks", "after_remove_checks", "regrow_after_empty", "deep_remnant_histories", "touches_of_present_keys", "extremal_spine_histories", "concurrent_constructor_rounds"},
				Assumptions:  []string{"depth is read through stree.Cursor (Root/Left/Right/Up), which C03 checks separately", "the bound is evaluated in float64 with an epsilon of 1e-9 in the code's favour"},
				CoverPkgs:    []string{"github.com/creachadair/mds/stree"},
				CoverAnchors: []string{"stree/stree.go:limitFunc", "stree/stree.go:toFraction", "stree/stree.go:insert", "stree/stree.go:Add", "stree/stree.go:Replace", "stree/stree.go:Remove", "stree/stree.go:incSize", "stree/node.go:rewrite", "stree/node.go:vineToTree", "stree/node.go:treeToVine", "stree/node.go:rotateLeft", "stree/node.go:extract", "stree/stree.go:New"},
			}
		},
		Run: runC02,
	})
}

func c02bound(beta, P int) float64 {
	if P <= 0 {
		return math.Inf(-1)
	}
	base := 2000.0 / (1000.0 + float64(beta))
	return math.Log(float64(P))/math.Log(base) + 1 + 1e-9
}

type c02hist struct {
	c          *fw.Ctx
	r          *rand.Rand
	beta       int
	t          *stree.Tree[Elem]
	keys       map[int]bool
	sorted     []int // maintained lazily for patterns that need neighbours
	P          int
	ncmp       int
	log        opLog
	h          *fw.H
	failed     bool
	nontr      bool
	steps      int
	tag        int
	maxIns     int // running maximum of per-insert depths since last full traversal
	closest    float64
	useReplace bool // insert through Replace instead of Add
}

func (h *c02hist) fail(format string, args ...any) {
	if h.failed {
		return
	}
	h.failed = true
	h.c.Fail(map[string]any{"beta": h.beta, "ops": h.log.list()}, "after %d ops: %s", len(h.log.ops), fmt.Sprintf(format, args...))
}

func (h *c02hist) fullDepth() int {
	_, d := treeShape(h.t, identElem)
	return d
}

func (h *c02hist) depthOf(k int) int {
	c := h.t.Cursor(Elem{Key: k})
	d := -1
	for c.Valid() {
		d++
		c.Up()
	}
	return d
}

func (h *c02hist) checkDepth(depth int, what string) {
	if h.beta >= 1000 || h.P == 0 {
		return
	}
	b := c02bound(h.beta, h.P)
	if float64(depth) > b {
		h.fail("%s: depth %d exceeds bound %.4f (beta=%d, P=%d, Len=%d)", what, depth, b, h.beta, h.P, h.t.Len())
		return
	}
	if d := float64(depth) - b; d > h.closest {
		h.closest = d
	}
	if float64(depth) >= b-2 {
		h.c.Add("near_limit_steps", 1)
		h.nontr = true
	}
}

func (h *c02hist) checkGet(k int) {
	if h.beta >= 1000 || h.P == 0 {
		return
	}
	h.ncmp = 0
	_, ok := h.t.Get(Elem{Key: k})
	if ok != h.keys[k] {
		h.fail("Get(%d) reports %v, key present=%v", k, ok, h.keys[k])
		return
	}
	lim := int(math.Floor(c02bound(h.beta, h.P))) + 1
	h.c.Add("get_comparison_checks", 1)
	if h.ncmp > lim {
		h.fail("Get(%d) made %d comparisons, more than floor(bound)+1 = %d (beta=%d, P=%d)", k, h.ncmp, lim, h.beta, h.P)
	}
	h.c.Max("max:get_comparisons", int64(h.ncmp))
	// the other way to look a key up: Cursor(k)
	h.ncmp = 0
	cu := h.t.Cursor(Elem{Key: k})
	if cu.Valid() != h.keys[k] {
		h.fail("Cursor(%d) valid=%v, key present=%v", k, cu.Valid(), h.keys[k])
		return
	}
	if h.ncmp > lim {
		h.fail("Cursor(%d) made %d comparisons, more than floor(bound)+1 = %d (beta=%d, P=%d)", k, h.ncmp, lim, h.beta, h.P)
	}
	h.c.Max("max:cursor_lookup_comparisons", int64(h.ncmp))
}

func (h *c02hist) afterOp(op byte, k int) {
	h.steps++
	h.c.Step()
	h.c.Add("steps", 1)
	n := h.t.Len()
	if n != len(h.keys) {
		h.fail("Len=%d but %d keys are held", n, len(h.keys))
		return
	}
	if n == 0 {
		h.P = 0
		h.maxIns = -1
		return
	}
	if n > h.P {
		h.P = n
	}
	if n <= 300 || h.steps%64 == 0 {
		d := h.fullDepth()
		h.checkDepth(d, "full traversal")
		if n > 300 && h.maxIns > d && op != 'R' {
			// informational: per-insert depths over-estimated; harmless
		}
		h.maxIns = d
		h.c.Max("max:depth", int64(d))
	} else if op == 'A' && h.keys[k] {
		d := h.depthOf(k)
		if d < 0 {
			h.fail("Cursor(%d) invalid right after Add", k)
			return
		}
		if d > h.maxIns {
			h.maxIns = d
		}
		h.checkDepth(d, fmt.Sprintf("depth of key %d just inserted", k))
	}
	if op == 'R' {
		h.c.Add("after_remove_checks", 1)
	}
	h.checkGet(k)
	if h.steps%4 == 0 {
		h.checkGet(k + 1)
	}
}

func (h *c02hist) add(k int) {
	if h.failed {
		return
	}
	h.tag++
	h.log.add("Add(%d)", k)
	h.h.Int(k)
	h.c.Call("stree.Add(%d) beta=%d size=%d", k, h.beta, len(h.keys))
	var got bool
	if h.useReplace {
		got = h.t.Replace(Elem{Key: k, Tag: h.tag})
	} else {
		got = h.t.Add(Elem{Key: k, Tag: h.tag})
	}
	if got == h.keys[k] {
		h.fail("Add(%d)=%v but key present=%v", k, got, h.keys[k])
		return
	}
	if !h.keys[k] {
		h.keys[k] = true
		h.sorted = nil
	}
	h.afterOp('A', k)
}

func (h *c02hist) remove(k int) {
	if h.failed {
		return
	}
	h.log.add("Remove(%d)", k)
	h.h.Int(^k)
	h.c.Call("stree.Remove(%d) beta=%d size=%d", k, h.beta, len(h.keys))
	got := h.t.Remove(Elem{Key: k})
	if got != h.keys[k] {
		h.fail("Remove(%d)=%v but key present=%v", k, got, h.keys[k])
		return
	}
	if h.keys[k] {
		delete(h.keys, k)
		h.sorted = nil
	}
	h.afterOp('R', k)
}

func (h *c02hist) sortedKeys() []int {
	if h.sorted == nil {
		h.sorted = make([]int, 0, len(h.keys))
		for k := range h.keys {
			h.sorted = append(h.sorted, k)
		}
		sort.Ints(h.sorted)
	}
	return h.sorted
}

func bitrev(x, bits int) int {
	y := 0
	for i := 0; i < bits; i++ {
		y = y<<1 | (x>>i)&1
	}
	return y
}

// insertPattern performs n inserts following pattern p, starting from base.
func (h *c02hist) insertPattern(p, n, base int) {
	const gap = 1 << 20
	switch p {
	case 0: // ascending
		for i := 0; i < n && !h.failed; i++ {
			h.add(base + i*gap)
		}
	case 1: // descending
		for i := 0; i < n && !h.failed; i++ {
			h.add(base - i*gap)
		}
	case 2: // outward zig-zag
		for i := 0; i < n && !h.failed; i++ {
			if i%2 == 0 {
				h.add(base + (i/2)*gap)
			} else {
				h.add(base - (i/2+1)*gap)
			}
		}
	case 3: // inward zig-zag
		lo, hi := base, base+n*gap
		for i := 0; i < n && !h.failed; i++ {
			if i%2 == 0 {
				h.add(lo)
				lo += gap
			} else {
				h.add(hi)
				hi -= gap
			}
		}
	case 4: // always insert next to the last key: bisect towards a neighbour
		last := base
		h.add(last)
		for i := 1; i < n && !h.failed; i++ {
			ks := h.sortedKeys()
			j := sort.SearchInts(ks, last)
			var nb int
			up := h.r.IntN(2) == 0
			if up && j+1 < len(ks) {
				nb = ks[j+1]
			} else if !up && j > 0 {
				nb = ks[j-1]
			} else if up {
				nb = last + 2*gap
			} else {
				nb = last - 2*gap
			}
			mid := last + (nb-last)/2
			if mid == last || h.keys[mid] {
				// gap exhausted: jump beyond the extremes
				if up {
					mid = ks[len(ks)-1] + gap
				} else {
					mid = ks[0] - gap
				}
			}
			h.add(mid)
			last = mid
		}
	case 5: // bit reversal order (adversarial for naive balancing heuristics)
		bits := 1
		for 1<<bits < n {
			bits++
		}
		for i := 0; i < n && !h.failed; i++ {
			h.add(base + bitrev(i, bits)*gap)
		}
	case 6: // random
		for i := 0; i < n && !h.failed; i++ {
			h.add(base + h.r.IntN(4*n+1)*gap/4)
		}
	case 7: // sawtooth: ascending runs each starting below the previous
		x := base
		for i := 0; i < n && !h.failed; i++ {
			if i%17 == 0 {
				x -= 40 * gap
			}
			x += gap + h.r.IntN(3)
			h.add(x)
		}
	}
}

func runC02(c *fw.Ctx) {
	// trees cloned from one prototype, each used by its own goroutine only
	for k := 0; k < c.Pick(2, 12); k++ {
		if !c.Begin(1<<22 + k) {
			continue
		}
		r := c.Rng()
		beta := []int{0, 100, 250, 500, 900}[r.IntN(5)]
		if msg := cloneWorkers(beta, r.Uint64(), []int{0, 0, 5, 40}[r.IntN(4)], true, c.Step); msg != "" {
			c.Fail(map[string]any{"phase": "8 goroutines, each working on its own Clone of one prototype tree", "beta": beta}, "%s", msg)
		}
		c.Add("clone_worker_rounds", 1)
	}
	for k := 0; k < c.Pick(2, 10); k++ {
		if !c.Begin(1<<22 + 200 + k) {
			continue
		}
		if msg := c02concurrentNew(c.Rng().Uint64(), c.Step); msg != "" {
			c.Fail(map[string]any{"phase": "8 goroutines constructing private trees with different balance factors at the same time"}, "%s", msg)
		}
		c.Add("concurrent_constructor_rounds", 1)
	}
	if c.Flavour == "race" {
		return
	}
	quickBetas := []int{0, 1, 2, 50, 100, 250, 300, 500, 700, 750, 900, 999}
	ncases := c.Pick(48, 260)
	for i := 0; i < ncases; i++ {
		if !c.Begin(i) {
			continue
		}
		r := c.Rng()
		var beta int
		switch {
		case c.Thorough():
			beta = (c.Block*ncases + i) % 1000
		case i%4 == 3:
			beta = (c.Block*ncases + i*37 + int(c.Seed)*101) % 1000 // rotating extra betas
		default:
			beta = quickBetas[(i+c.Block)%len(quickBetas)]
		}
		h := &c02hist{c: c, r: r, beta: beta, keys: map[int]bool{}, h: fw.NewH(), maxIns: -1, closest: math.Inf(-1)}
		h.h.Int(beta)
		long := false
		if (i == 1 && (c.Block < 8 || c.Thorough())) || (c.Thorough() && i%16 == 1) {
			// one long monotone run per block at a loose balance factor
			looseBetas := []int{999, 998, 997, 995, 990, 980, 950, 900, 999, 996, 993, 985, 970, 999, 998, 925}
			h.beta = looseBetas[(c.Block+i/16)%len(looseBetas)]
			beta = h.beta
			long = true
		}
		ok, pv, stack := fw.Try(func() {
			if long {
				c02monotoneLong(h)
			} else if i%6 == 4 {
				// extremal spines: mostly loose balance factors, where the spine is long
				sb := []int{999, 995, 990, 980, 970, 950, 930, 900, 870, 850, 800, 700, 600, 500, 250, 0}
				h.beta = sb[(c.Block+i/6)%len(sb)]
				beta = h.beta
				c02spine(h, (i/6+c.Block/4)%4, []int{300, 1000, 2000, 4000}[(i/6+c.Block)%4])
			} else if i%6 == 2 {
				if i%12 == 2 {
					h.beta, beta = 0, 0 // no delete-side rebuild at all
				}
				c02remnant(h)
			} else {
				c02history(h, i)
			}
		})
		if !ok {
			c.FailKind("panic", map[string]any{"beta": beta, "ops": h.log.list()}, "panic: %v\n%s", pv, stack)
		}
		if h.nontr {
			c.Seen(h.h.Sum())
		}
		if !math.IsInf(h.closest, -1) {
			// closest approach to the bound over the whole run, as
			// 1e6 + 1000*(depth-bound): values below 1e6 mean slack remained.
			c.Max("max:closest_approach_1e6_plus_1000x_depth_minus_bound", int64(1e6+1000*h.closest))
		}
		if c.WantSample() && h.nontr && len(h.log.ops) < 100 {
			c.Sample(map[string]any{"beta": beta, "ops": h.log.list()})
		}
	}
	// New(): height of bulk-built trees, every beta class, many sizes.
	base := 1 << 20
	for j := 0; j < c.Pick(40, 300); j++ {
		if !c.Begin(base + j) {
			continue
		}
		r := c.Rng()
		n := 1 + r.IntN(c.Pick(700, 6000))
		if j < 70 {
			n = j + 1 // every small size, in particular around powers of two
		}
		if j%3 == 0 {
			// sizes in a window around a power of two, up to 2^14 (2^17 thorough)
			k := 1 + (j/3+c.Block)%c.Pick(14, 17)
			n = max(1, 1<<k+r.IntN(7)-3)
		}
		beta := []int{0, 250, 500, 999, 1000, r.IntN(1001)}[r.IntN(6)]
		keys := make([]Elem, 0, n+n/3)
		perm := r.Perm(n)
		for _, p := range perm {
			keys = append(keys, Elem{Key: p * 3, Tag: p})
			if r.IntN(4) == 0 {
				keys = append(keys, Elem{Key: p * 3, Tag: -p}) // duplicate
			}
		}
		r.Shuffle(len(keys), func(a, b int) { keys[a], keys[b] = keys[b], keys[a] })
		t := stree.New(beta, cmpElem, keys...)
		_, d := treeShape(t, identElem)
		c.Add("new_height_checks", 1)
		c.Step()
		if t.Len() != n || d != floorLog2(n) {
			c.Fail(map[string]any{"beta": beta, "n_distinct": n, "n_given": len(keys)}, "New with %d distinct keys (beta=%d): Len=%d height=%d, want height floor(log2 n)=%d", n, beta, t.Len(), d, floorLog2(n))
		}
	}
}

// c02monotoneLong: for loose balance factors the bound is so generous that
// only long monotone insertion sequences can reach it (a chain of P keys has
// depth P-1, the bound is K*ln(P)+1 with K = 1/ln(2000/(1000+beta))). The run
// length is chosen 30% beyond the point where a tree that never rebalanced
// would cross the bound.
func c02monotoneLong(h *c02hist) {
	K := 1 / math.Log(2000.0/(1000.0+float64(h.beta)))
	P := 2
	for float64(P-1) <= K*math.Log(float64(P))+1 && P < 40000 {
		P++
	}
	n := min(P*13/10+50, 30000)
	h.t = stree.New(h.beta, func(a, b Elem) int { h.ncmp++; return cmpElem(a, b) })
	h.log.add("New(beta=%d); %d ascending (or descending) inserts: an unbalanced chain would cross the bound at about %d keys", h.beta, n, P)
	h.c.Add("long_monotone_runs", 1)
	down := h.r.IntN(2) == 0
	for i := 0; i < n && !h.failed; i++ {
		k := i
		if down {
			k = -i
		}
		h.tag++
		h.ncmp = 0
		if !h.t.Add(Elem{Key: k, Tag: h.tag}) {
			h.fail("Add(%d) of a new key reports false", k)
			return
		}
		descent := h.ncmp // comparisons made on the way down = depth of the insertion point before any rebuild
		h.keys[k] = true
		h.steps++
		h.c.Step()
		h.c.Add("steps", 1)
		h.P = i + 1
		// The key just inserted is the deepest candidate of a monotone run. Its
		// depth is at most the number of comparisons Add made while descending
		// (a rebuild can only lift it), so the exact (and expensive) measurement
		// is needed only when that count is not already within the bound.
		if float64(descent) > c02bound(h.beta, h.P)-2 || i%512 == 0 {
			d := h.depthOf(k)
			h.checkDepth(d, fmt.Sprintf("depth of key %d just inserted (monotone run, %d keys)", k, i+1))
		}
		if i%2048 == 2047 {
			h.checkDepth(h.fullDepth(), "full traversal")
		}
	}
	if !h.failed {
		h.checkDepth(h.fullDepth(), "final full traversal")
	}
}

func c02history(h *c02hist, caseIdx int) {
	r := h.r
	wide := r.IntN(3) == 0
	h.t = stree.New(h.beta, func(a, b Elem) int {
		h.ncmp++
		if wide {
			return cmpElemWide(a, b)
		}
		return cmpElem(a, b)
	})
	h.log.add("New(beta=%d)", h.beta)
	pattern := (caseIdx + h.c.Block) % 8
	h.useReplace = r.IntN(4) == 0
	if h.useReplace {
		h.c.Add("histories_inserting_through_replace", 1)
	}
	h.h.Int(pattern)
	n := 64 + r.IntN(h.c.Pick(900, 3000))
	if caseIdx%6 == 0 {
		n = 16 + r.IntN(60)
	}
	if caseIdx%11 == 5 {
		n = h.c.Pick(1500, 5000)
	}
	h.insertPattern(pattern, n, 0)
	if h.failed {
		return
	}
	// Interleave removals and further inserts.
	rounds := 1 + r.IntN(3)
	for round := 0; round < rounds && !h.failed; round++ {
		if r.IntN(3) == 0 {
			// carry on with a Clone of the tree (P is inherited: the clone holds the same structure)
			h.log.add("t = t.Clone()")
			h.t = h.t.Clone()
			h.c.Add("clones", 1)
		}
		ks := append([]int(nil), h.sortedKeys()...)
		switch r.IntN(5) {
		case 0: // remove a random half, then keep inserting with the same pattern
			r.Shuffle(len(ks), func(a, b int) { ks[a], ks[b] = ks[b], ks[a] })
			for _, k := range ks[:len(ks)/2] {
				h.remove(k)
			}
		case 1: // drain from the low end to 1/8
			for _, k := range ks[:len(ks)-len(ks)/8] {
				h.remove(k)
			}
		case 2: // drain to empty with Remove (P restarts), then regrow sorted
			for _, k := range ks {
				h.remove(k)
			}
			if !h.failed && h.t.Len() == 0 {
				h.c.Add("regrow_after_empty", 1)
			}
		case 3: // Clear
			h.log.add("Clear()")
			h.t.Clear()
			h.keys = map[int]bool{}
			h.sorted = nil
			h.P = 0
			h.c.Add("regrow_after_empty", 1)
		case 4: // alternate remove-min / insert-above-max (sliding window)
			hi := 0
			if len(ks) > 0 {
				hi = ks[len(ks)-1]
			}
			for j := 0; j < min(len(ks), 300) && !h.failed; j++ {
				h.remove(ks[j])
				hi += 1 << 20
				h.add(hi)
			}
		}
		if h.failed {
			return
		}
		m := 8 + r.IntN(h.c.Pick(300, 900))
		base := 0
		if ks2 := h.sortedKeys(); len(ks2) > 0 {
			switch r.IntN(3) {
			case 0:
				base = ks2[len(ks2)-1] + (1 << 21)
			case 1:
				base = ks2[0] - (1 << 21) - m*(1<<20)
			default:
				base = ks2[len(ks2)/2] + 1
			}
		}
		h.insertPattern(r.IntN(8), m, base)
	}
	if !h.failed && h.t.Len() > 0 {
		h.checkDepth(h.fullDepth(), "final full traversal")
	}
}

// c02remnant: a hostile shape for the depth bound. A large tree is pruned down
// to one deep subtree plus the spine of ancestors that holds it in place (all
// other keys removed, deepest first, in random order, or in ascending order),
// so that Len is small, the peak P is large, and existing keys lie deeper than
// a tree of the present size would allow. Then every remaining key is touched
// again through Add and Replace calls that find it present, interleaved with
// lookups and a few fresh insertions next to the remnant; the bound (from the
// peak) is checked after every call.
func c02remnant(h *c02hist) {
	r := h.r
	h.t = stree.New(h.beta, func(a, b Elem) int { h.ncmp++; return cmpElem(a, b) })
	n := []int{255, 511, 1023, 2047, 200 + r.IntN(1500)}[r.IntN(5)]
	build := r.IntN(3)
	h.log.add("New(beta=%d); build %d keys (mode %d)", h.beta, n, build)
	switch build {
	case 0: // bulk New: perfectly balanced
		keys := make([]Elem, n)
		for i := range keys {
			keys[i] = Elem{Key: i + 1, Tag: i}
			h.keys[i+1] = true
		}
		h.t = stree.New(h.beta, func(a, b Elem) int { h.ncmp++; return cmpElem(a, b) }, keys...)
		h.P = n
		h.log.add("(bulk New of 1..%d)", n)
	case 1:
		for _, p := range r.Perm(n) {
			h.add(p + 1)
		}
	default:
		for i := 1; i <= n; i++ {
			h.add(i)
		}
	}
	if h.failed {
		return
	}
	// walk down from the root to a node at a chosen depth, remembering the spine
	cur := h.t.Root()
	var spine []int
	wantDepth := 2 + r.IntN(9)
	for d := 0; d < wantDepth && cur.Valid(); d++ {
		nxt := cur.Clone()
		if r.IntN(2) == 0 {
			nxt.Left()
		} else {
			nxt.Right()
		}
		if !nxt.Valid() {
			nxt = cur.Clone().Left()
			if !nxt.Valid() {
				nxt = cur.Clone().Right()
			}
			if !nxt.Valid() {
				break
			}
		}
		spine = append(spine, cur.Key().Key)
		cur = nxt
	}
	keep := map[int]bool{}
	for _, k := range spine {
		keep[k] = true
	}
	cur.Inorder(func(e Elem) bool { keep[e.Key] = true; return true })
	// removal order
	var drop []int
	for _, k := range h.sortedKeys() {
		if !keep[k] {
			drop = append(drop, k)
		}
	}
	switch r.IntN(3) {
	case 0: // deepest first
		depth := map[int]int{}
		for _, k := range drop {
			depth[k] = h.depthOf(k)
		}
		sort.SliceStable(drop, func(i, j int) bool { return depth[drop[i]] > depth[drop[j]] })
	case 1:
		r.Shuffle(len(drop), func(a, b int) { drop[a], drop[b] = drop[b], drop[a] })
	}
	h.log.add("(prune to a subtree of %d keys below a spine of %d ancestors)", len(keep)-len(spine), len(spine))
	for _, k := range drop {
		h.remove(k)
		if h.failed {
			return
		}
	}
	h.c.Add("deep_remnant_histories", 1)
	h.c.Max("max:remnant_depth_minus_log2_len_x1000", int64(1000*(float64(h.fullDepth())-math.Log2(float64(max(1, h.t.Len()))))))
	// touch what is left
	ks := append([]int(nil), h.sortedKeys()...)
	for round := 0; round < 3 && !h.failed; round++ {
		r.Shuffle(len(ks), func(a, b int) { ks[a], ks[b] = ks[b], ks[a] })
		for i, k := range ks {
			if h.failed {
				return
			}
			h.useReplace = (i+round)%2 == 0
			h.add(k) // present: returns false
			h.c.Add("touches_of_present_keys", 1)
			if i%7 == 6 {
				h.useReplace = false
				if !h.keys[k+1] {
					h.add(k + 1) // a fresh key right next to a remaining one
				}
			}
		}
	}
}

// c02spine: extremal trees. A root-to-leaf spine is built top-down in which the
// subtree at height h above the leaf has the smallest size that a chosen
// criterion still accepts (the rest of each spine node's weight is a balanced
// filler subtree on the other side): by the height rule the code documents
// (smallest s with floor(log_b s) >= h), by the weight rule of the scapegoat
// literature rounded down or up (s = floor(c/alpha) or ceil(c/alpha) for a
// path child of size c), or the smaller of the two. Such a tree sits exactly
// at - or, for the rounded-down variants, just beyond - what a correct
// implementation tolerates; the insertions that follow at the deep end force
// scapegoat searches along a path where every ancestor is critical at once.
// The bound is checked after every insertion.
func c02spine(h *c02hist, variant, target int) {
	beta := h.beta
	h.t = stree.New(beta, func(a, b Elem) int { h.ncmp++; return cmpElem(a, b) })
	base := math.Log(2000 / float64(1000+beta))
	limit := func(n int) int { return int(math.Log(float64(n)) / base) }
	size := []int{1}
	for ht := 1; size[ht-1] < target && ht < 4000; ht++ {
		c := size[ht-1]
		byHeight := c + 1
		for limit(byHeight) < ht {
			byHeight++
		}
		down := max(c*2000/(1000+beta), c+1)
		up := max((c*2000+999+beta)/(1000+beta), c+1)
		s := byHeight
		switch variant {
		case 1:
			s = min(byHeight, down)
		case 2:
			s = min(byHeight, up)
		case 3:
			s = down
		}
		size = append(size, s)
	}
	H := len(size) - 1
	const stride = 1 << 13
	h.log.add("New(beta=%d); extremal spine of height %d, %d keys, variant %d (0 height rule, 1 min(height, weight rounded down), 2 min(height, weight rounded up), 3 weight rounded down), built top-down", beta, H, size[H], variant)
	var addBalanced func(lo, hi int)
	addBalanced = func(lo, hi int) {
		if lo >= hi || h.failed {
			return
		}
		mid := lo + (hi-lo)/2
		h.add(mid)
		addBalanced(lo, mid)
		addBalanced(mid+1, hi)
	}
	quiet := h.log
	for i := 0; i <= H && !h.failed; i++ {
		h.add((i+1)*stride - 1)
		if i < H {
			filler := size[H-i] - 1 - size[H-i-1]
			if filler >= stride-1 {
				filler = stride - 2
			}
			addBalanced(i*stride+1, i*stride+1+filler)
		}
		if len(h.log.ops) > 400 {
			h.log = quiet // keep the description, drop the individual Add lines of the construction
			h.log.add("(... construction continues, level %d of %d ...)", i, H)
			quiet = h.log
		}
	}
	// then keep inserting at the deep end and next to spine nodes
	for j := 0; j < 200 && !h.failed; j++ {
		lvl := H - j%min(H+1, 40)
		k := (lvl+1)*stride - 2 - j/40
		if !h.keys[k] {
			h.add(k)
		}
	}
	if !h.failed {
		d := h.fullDepth()
		h.checkDepth(d, "full traversal after the extremal construction")
	}
	h.c.Add("extremal_spine_histories", 1)
}

// c02concurrentNew: eight goroutines construct private trees at the same
// time, each goroutine alternating between very different balance factors;
// every tree gets sorted insertions and must respect the bound of its own
// balance factor after every one of them. Nothing is shared between the
// goroutines except whatever the package itself shares between trees.
func c02concurrentNew(seed uint64, step func()) string {
	return concurrently(8, seed, func(g int, r *rand.Rand) string {
		betas := [][]int{{999, 0}, {0, 999}, {900, 100}, {250, 990}, {0, 500}, {999, 1}, {750, 0}, {100, 950}}[g]
		for it := 0; it < 400; it++ {
			beta := betas[it%2]
			t := stree.New(beta, cmpElem)
			n := 16 + r.IntN(40)
			for i := 1; i <= n; i++ {
				k := i
				if it%3 == 1 {
					k = -i
				}
				t.Add(Elem{Key: k, Tag: i})
				cu := t.Cursor(Elem{Key: k})
				d := -1
				for cu.Valid() {
					d++
					cu.Up()
				}
				if b := c02bound(beta, i); float64(d) > b {
					return fmt.Sprintf("goroutine %d: tree built with New(%d) while other goroutines build trees with other balance factors: after %d sorted insertions the last key lies at depth %d, bound %.3f", g, beta, i, d, b)
				}
			}
			step()
		}
		return ""
	})
}
