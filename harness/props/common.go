// Package props holds the monitors, one file per property (or small group),
// each guarded by a build tag p<ID> (or pall) so that a worker built for one
// property compiles only the packages of creachadair/mds that property needs.
package props

import (
	"fmt"
	"math"
	"math/rand/v2"
	"sort"
	"strings"
	"sync"
)

// Elem is the element type put into containers under test: Key is what
// comparators look at, Tag is unique per inserted element so that the monitor
// can tell which of two equivalent elements a container holds or returns.
type Elem struct {
	Key int `json:"k"`
	Tag int `json:"t"`
}

func (e Elem) String() string { return fmt.Sprintf("%d#%d", e.Key, e.Tag) }

func cmpElem(a, b Elem) int {
	switch {
	case a.Key < b.Key:
		return -1
	case a.Key > b.Key:
		return 1
	}
	return 0
}

// cmpElemWide is a legal comparator that returns the difference of the keys
// rather than -1/0/+1.
func cmpElemWide(a, b Elem) int { return clipInt(3 * (int64(a.Key) - int64(b.Key))) }

func elemsString(es []Elem) string {
	var sb strings.Builder
	sb.WriteByte('[')
	for i, e := range es {
		if i > 0 {
			sb.WriteByte(' ')
		}
		sb.WriteString(e.String())
	}
	sb.WriteByte(']')
	return sb.String()
}

func intsString(vs []int) string { return fmt.Sprint(vs) }

func sortedCopy(vs []int) []int {
	out := append([]int(nil), vs...)
	sort.Ints(out)
	return out
}

func equalInts(a, b []int) bool {
	if len(a) != len(b) {
		return false
	}
	for i := range a {
		if a[i] != b[i] {
			return false
		}
	}
	return true
}

func equalElems(a, b []Elem) bool {
	if len(a) != len(b) {
		return false
	}
	for i := range a {
		if a[i] != b[i] {
			return false
		}
	}
	return true
}

func equalStrings(a, b []string) bool {
	if len(a) != len(b) {
		return false
	}
	for i := range a {
		if a[i] != b[i] {
			return false
		}
	}
	return true
}

// opLog is a bounded textual log of the operations of one history, kept so
// that a violation can be reported with the history that led to it.
type opLog struct {
	ops []string
}

func (l *opLog) add(format string, args ...any) {
	l.ops = append(l.ops, fmt.Sprintf(format, args...))
}

func (l *opLog) list() []string {
	if len(l.ops) <= 400 {
		return l.ops
	}
	out := append([]string{fmt.Sprintf("... %d earlier operations omitted ...", len(l.ops)-400)}, l.ops[len(l.ops)-400:]...)
	return out
}

// concurrently runs f in n goroutines, each with its own PRNG derived from
// seed, and returns the first problem any of them reports. The goroutines share
// nothing of the harness's (each verifies only its own results), so that no
// harness synchronisation hides a data race in the code under test.
func concurrently(n int, seed uint64, f func(g int, r *rand.Rand) string) string {
	errs := make([]string, n)
	var wg sync.WaitGroup
	for g := 0; g < n; g++ {
		wg.Add(1)
		go func(g int) {
			defer wg.Done()
			defer func() {
				if p := recover(); p != nil {
					errs[g] = fmt.Sprintf("goroutine %d panicked: %v", g, p)
				}
			}()
			errs[g] = f(g, rand.New(rand.NewPCG(seed, uint64(g)+1)))
		}(g)
	}
	wg.Wait()
	for _, e := range errs {
		if e != "" {
			return e
		}
	}
	return ""
}

// truncInts returns integers far outside [-span-1, span+1] whose low 8, 16,
// 31, 32, 33, 48 or 62 bits fall inside (or right next to) that range: an
// argument that is narrowed to a smaller integer type before it is
// range-checked would land on a valid index.
func truncInts(span int) []int {
	var out []int
	seen := map[int]bool{}
	for _, w := range []uint{8, 16, 31, 32, 33, 48, 62} {
		for _, m := range []int{1, 2, 3, -1, -2} {
			base := m << w
			for _, d := range []int{-span - 1, -span, -span / 2, -1, 0, 1, span / 2, span - 1, span, span + 1} {
				v := base + d
				if (v > span+1 || v < -span-1) && !seen[v] {
					seen[v] = true
					out = append(out, v)
				}
			}
		}
	}
	return out
}

// clipInt converts a 64-bit constant to int, clipped to the range of int on
// the platform the worker is built for (the 386 flavour has 32-bit ints).
func clipInt(x int64) int {
	if x > math.MaxInt {
		return math.MaxInt
	}
	if x < math.MinInt {
		return math.MinInt
	}
	return int(x)
}
