//go:build pC06 || pall

package props

import (
	"fmt"

	"github.com/creachadair/mds/cache"
	"verif/harness/fw"
)

// C06 — heapq position reports track every element's true offset. The update
// callback's arguments are recorded into tag -> position; after every
// operation every held element that entered through Add or Set must be found
// by Peek at its last reported position, Add must return that position, and
// Remove(reported position) must remove exactly that element. Ordering is not
// checked here, so known finding F1 is irrelevant and nothing is excused.

func init() {
	fw.Register(&fw.Property{
		ID: "C06",
		Meta: func(tier string) fw.Meta {
			return fw.Meta{
				Flavours: []string{"plain", "cover", "386"},
				Blocks:   16,
				Procs:    16,
				Rule: "case = history of Add/Pop/Remove/Set/Reorder/Clear/NewWithData with an update callback installed (distinct elements = unique tags, keys with many ties so that equal-priority elements meet), removals chosen both by raw offset and by the reported position of a chosen held element, followed by a drain with positions re-checked after every Pop; " +
					"plus Set of every length 0..64 in ascending/descending/constant order (placement reports without any swap) and the LRU store's own usage pattern driven through cache.Cache with the key->offset index cross-checked against the heap by the cache hook after every call. " +
					"very large queues (262143..1.2 M elements: positions of a sample at the peak, removals through them, conservation), and Reorders constructed to take exactly 2^j exchanges for j = 3..17 (queues of 2^(j+2)-1 elements ranked by tree level with two levels exchanged) with every position checked afterwards. After EVERY op: Peek(last reported position) == element for every tracked held element; Add's return == last reported position. The comparison function notes its arguments: only elements that were handed to the queue may be passed to it. distinct = hash of the op list; non-trivial = at least one Remove through a reported position at an interior offset",
				Required:     []string{"histories", "position_checks", "removes_by_reported_position", "interior_removes", "reorders", "set_placement_sweeps", "lru_consumer_steps", "large_queue_histories", "big_element_histories", "very_large_queues", "power_of_two_exchange_reorders", "histories_with_bound_method_values_or_moved_struct"},
				Assumptions:  []string{"reports about elements that have already left the queue are ignored (the statement is about held elements)", "elements placed by NewWithData are not tracked (they did not enter through Add or Set)"},
				CoverPkgs:    []string{"github.com/creachadair/mds/heapq", "github.com/creachadair/mds/cache"},
				CoverAnchors: []string{"heapq/heapq.go:swap", "heapq/heapq.go:Add", "heapq/heapq.go:Set", "heapq/heapq.go:pop", "heapq/heapq.go:pushUp", "heapq/heapq.go:pushDown", "heapq/heapq.go:Update", "heapq/heapq.go:Remove", "heapq/heapq.go:Reorder", "cache/lru.go"},
			}
		},
		Run: runC06,
	})
}

func runC06(c *fw.Ctx) {
	opt := heapOpts{update: true, checkPos: true}
	run := func(ops []hop) heapStats {
		var div *heapDiv
		var st heapStats
		ok, pv, stack := fw.Try(func() { div, st = heapRun(c, ops, opt) })
		if !ok {
			c.FailKind("panic", map[string]any{"ops": hopStrings(ops)}, "panic: %v\n%s", pv, stack)
		} else if div != nil {
			upto := len(ops)
			if div.Step >= 0 && div.Step < len(ops) {
				upto = div.Step + 1
			}
			c.Fail(map[string]any{"ops": hopStrings(ops[:upto])}, "at op %d: %s", div.Step, div.Detail)
		}
		return st
	}
	idx := 0
	// Seed-independent: Set of every length in orders that need no swaps, some swaps, all swaps.
	if c.Begin(idx) {
		for n := c.Block; n <= 64; n += c.NBlocks {
			for mode := 0; mode < 4; mode++ {
				ks := make([]int, n)
				for i := range ks {
					switch mode {
					case 0:
						ks[i] = i
					case 1:
						ks[i] = n - i
					case 2:
						ks[i] = 7
					case 3:
						ks[i] = (i * 7) % 5
					}
				}
				ops := []hop{{Op: 'S', Keys: ks}}
				// then remove every element through its reported position, oldest first
				for i := 0; i < n; i++ {
					ops = append(ops, hop{Op: 'T', I: 0})
				}
				run(ops)
				// and once more, removing from the middle outwards
				ops = []hop{{Op: 'S', Keys: ks}}
				for i := 0; i < n; i++ {
					ops = append(ops, hop{Op: 'T', I: (n - i) / 2})
				}
				run(ops)
				c.Add("set_placement_sweeps", 1)
			}
		}
	}
	idx++
	n := c.Pick(2500, 60000)
	for k := 0; k < n; k++ {
		if !c.Begin(idx + k) {
			continue
		}
		r := c.Rng()
		nops := 60 + r.IntN(341)
		keyRange := []int{2, 4, 12, 1000}[r.IntN(4)]
		ops := heapGenOps(r, nops, keyRange, true)
		opt.sparse = k%4 == 1 // a quarter of the histories: positions are checked every 53rd step only
		opt.bound = k%5 == 2  // observe through method values bound at construction
		opt.moved = []int{0, 0, 0, 1, 0, 2, 0}[k%7]
		if opt.bound || opt.moved != 0 {
			c.Add("histories_with_bound_method_values_or_moved_struct", 1)
		}
		st := run(ops)
		opt.sparse, opt.bound, opt.moved = false, false, 0
		c.Add("histories", 1)
		c.Add("position_checks", int64(st.posChecks))
		c.Add("removes_by_reported_position", int64(st.removeByPos))
		c.Add("interior_removes", int64(st.interior))
		c.Add("reorders", int64(st.reorders))
		c.Max("max:queue_len", int64(st.maxLen))
		if st.removeByPos > 0 && st.interior > 0 {
			c.Seen(heapHash(ops))
		}
		if c.WantSample() && len(ops) < 80 {
			c.Sample(map[string]any{"ops": hopStrings(ops)})
		}
	}
	idx += n

	// large queues with the callback installed (size-dependent paths)
	nl := c.Pick(3, 24)
	for k := 0; k < nl; k++ {
		if !c.Begin(idx + k) {
			continue
		}
		r := c.Rng()
		size := []int{1023, 1024, 1025, 1500, 2047, 2048, 2049, 3001, 4095, 4096, 4097}[(k+c.Block)%11]
		ops := heapGenLarge(r, size, []int{4, 1000, 1 << 30}[r.IntN(3)], true)
		lo := opt
		lo.light = true
		var div *heapDiv
		var st heapStats
		ok, pv, stack := fw.Try(func() { div, st = heapRun(c, ops, lo) })
		if !ok {
			c.FailKind("panic", map[string]any{"large_queue": size}, "panic: %v\n%s", pv, stack)
		} else if div != nil {
			c.Fail(map[string]any{"large_queue_of": size, "ops_after_bulk_load": hopStrings(ops[max(0, len(ops)-900):])}, "at op %d: %s", div.Step, div.Detail)
		}
		c.Add("large_queue_histories", 1)
		c.Add("position_checks", int64(st.posChecks))
		c.Add("removes_by_reported_position", int64(st.removeByPos))
		c.Max("max:queue_len", int64(st.maxLen))
	}
	idx += nl
	// very large queues with the callback installed: reported positions of a
	// sample at the peak, removals through them, conservation over the drain
	if c.Begin(idx + 5100 + c.Block) {
		sizes := []int{262143, 262144, 262145, 300000, 524289, 600000, 1048577, 1200000}
		n := sizes[(c.Block+3)%len(sizes)]
		ok, pv, stack := fw.Try(func() {
			if pr := heapVeryLarge(c.Rng(), n, true, false, c.Step); pr != "" {
				c.Fail(map[string]any{"elements": n, "update_callback": true}, "%s", pr)
			}
		})
		if !ok {
			c.FailKind("panic", map[string]any{"elements": n}, "panic: %v\n%s", pv, stack)
		}
		c.Add("very_large_queues", 1)
		c.Max("max:queue_len", int64(n))
	}
	// Reorders that take exactly 2^j exchanges (j = 3..17, one or two per block)
	for j := 3 + c.Block; j <= 17; j += c.NBlocks {
		if !c.Begin(idx + 5200 + j) {
			continue
		}
		ok, pv, stack := fw.Try(func() {
			if pr := heapLevelSwap(j, c.Step); pr != "" {
				c.Fail(map[string]any{"elements": 1<<(j+2) - 1, "reorder": fmt.Sprintf("by tree level with levels %d and %d exchanged", j, j+1)}, "%s", pr)
			}
		})
		if !ok {
			c.FailKind("panic", map[string]any{"elements": 1<<(j+2) - 1}, "panic: %v\n%s", pv, stack)
		}
		c.Add("power_of_two_exchange_reorders", 1)
	}
	// elements larger than 128 bytes, update callback installed
	for k := 0; k < c.Pick(40, 600); k++ {
		if !c.Begin(idx + k) {
			continue
		}
		ok, pv, stack := fw.Try(func() {
			if pr := heapBigRun(c.Rng(), false, c.Step); pr != "" {
				c.Fail(map[string]any{"element_type": "216-byte struct", "update_callback": true}, "%s", pr)
			}
		})
		if !ok {
			c.FailKind("panic", map[string]any{"element_type": "216-byte struct"}, "panic: %v\n%s", pv, stack)
		}
		c.Add("big_element_histories", 1)
	}
	idx += 600

	// The consumer: cache's LRU store keeps key -> heap offset only through
	// the callback. Drive it sequentially; the hook cross-checks index and heap.
	m := c.Pick(300, 4000)
	for k := 0; k < m; k++ {
		if !c.Begin(idx + k) {
			continue
		}
		r := c.Rng()
		limit := int64(2 + r.IntN(30))
		keys := 2 + r.IntN(40)
		lru := cache.LRU[int, int]()
		ch := cache.New(limit, lru)
		var log opLog
		steps := 80 + r.IntN(400)
		ok, pv, stack := fw.Try(func() {
			for s := 0; s < steps; s++ {
				key := r.IntN(keys)
				switch r.IntN(6) {
				case 0, 1:
					log.add("Put(%d)", key)
					ch.Put(key, s)
				case 2, 3:
					log.add("Get(%d)", key)
					ch.Get(key)
				case 4:
					log.add("Remove(%d)", key)
					ch.Remove(key)
				case 5:
					log.add("Has(%d)", key)
					ch.Has(key)
				}
				c.Step()
				c.Add("lru_consumer_steps", 1)
				if _, _, _, err := ch.VerifCheck(nil); err != nil {
					c.Fail(map[string]any{"limit": limit, "ops": log.list()}, "LRU store index disagrees with its heap after %d ops: %v", s+1, err)
					return
				}
			}
		})
		if !ok {
			c.FailKind("panic", map[string]any{"limit": limit, "ops": log.list()}, "panic: %v\n%s", fmt.Sprint(pv), stack)
		}
	}
}
