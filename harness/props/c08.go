//go:build pC08 || pall

package props

import (
	"fmt"
	"math"
	"math/rand/v2"
	"sort"

	"github.com/creachadair/mds/cache"
	"github.com/creachadair/mds/heapq"
	"verif/harness/fw"
)

// C08 — cache LRU semantics and accounting for sequential histories.
// Reference: recency list (lru_model.go). The eviction callback sequence of
// every call is compared with the reference; the accounting hook
// (Cache.VerifCheck) runs after every call. Residual known finding F1 is
// attributed with the same counterfactual switch as in C05, and only for
// histories in which the cache held >= 5 entries.

func init() {
	fw.Register(&fw.Property{
		ID: "C08",
		Meta: func(tier string) fw.Meta {
			return fw.Meta{
				Flavours:   []string{"plain", "cover", "386"},
				Blocks:     16,
				Procs:      16,
				Exhaustive: true,
				Rule: "exhaustive part (seed-independent): a 6-entry unit-size cache over 7 keys is filled, then EVERY sequence of 4 (5 thorough) operations from {Get, Remove, Put} x 7 keys is applied, then six fresh keys evict everything and the eviction order is compared; random part: case = (limit 1..40, unit sizes or a size function with sizes 0..limit+2, 2..40 keys, history of 80-600 Put/Get/Has/Remove/Clear with Remove-then-Get/Remove/Put bursts; a third of the size-function histories with every size and the limit multiplied by 2^26..2^56 (totals beyond 2^31, 2^32, 2^53); one history in five runs on a cache configured WITHOUT the optional eviction callback, where evictions are observed through the results only). Long-lived caches: one instance carries 150 000 (600 000 thorough) calls under sparse observation (per-call clocks and counters get the chance to drift or wrap). After EVERY call: the result, Len, Size (== sum of sizes, <= limit), Has for every key, the exact eviction-callback multiset of that call with evictions in exact LRU order (order of Clear's callbacks and the position of the replaced entry's callback unconstrained), and the accounting/LRU-index hook. " +
					"Every history is executed as is and with the F1 counterfactual switch; a real-run violation is attributed to F1 iff it vanishes in the counterfactual run, every parent index seen was i/2 or (i-1)/2, and the cache had held >= 5 entries; a violation in a counterfactual run is a VIOLATION. " +
					"The size function records every argument it receives: it must only ever be asked about values that were handed to Put (never a zero value or anything else the caller did not supply). " +
					"distinct = hash(config, ops); non-trivial = the history evicted at least once and performed an access or removal after a Remove",
				Required:     []string{"exhaustive_small_histories", "histories", "histories_ge6_entries", "evictions", "remove_then_access", "zero_size_puts", "too_large_puts", "replacing_puts", "clears", "hook_checks", "sparse_observation_runs", "runs_without_evict_callback", "long_lived_cache_runs", "runs_with_sizes_beyond_2_to_the_31", "clock_jumps", "interface_key_histories"},
				Assumptions:  []string{"reference model: recency list; Put and successful Get count as uses, Has does not", "known finding F1 is excused only through the counterfactual switch in heapq/verif_on.go and only when >= 5 entries were held"},
				CoverPkgs:    []string{"github.com/creachadair/mds/cache", "github.com/creachadair/mds/heapq"},
				CoverAnchors: []string{"cache/cache.go", "cache/lru.go", "heapq/heapq.go:pop", "heapq/heapq.go:Remove", "heapq/heapq.go:Pop", "heapq/heapq.go:Add", "heapq/heapq.go:pushUp", "heapq/heapq.go:pushDown", "heapq/heapq.go:swap"},
			}
		},
		Run: runC08,
	})
}

type cop struct {
	Op byte // P put, G get, H has, R remove, C clear
	K  int
	V  CVal
}

func (o cop) String() string {
	switch o.Op {
	case 'P':
		return fmt.Sprintf("Put(%d, id%d size %d)", o.K, o.V.ID, o.V.Sz)
	case 'G':
		return fmt.Sprintf("Get(%d)", o.K)
	case 'H':
		return fmt.Sprintf("Has(%d)", o.K)
	case 'R':
		return fmt.Sprintf("Remove(%d)", o.K)
	case 'C':
		return "Clear"
	}
	return "?"
}

func copStrings(ops []cop) []string {
	out := make([]string, len(ops))
	for i, o := range ops {
		out[i] = o.String()
	}
	return out
}

type c08cfg struct {
	Limit int64 `json:"limit"`
	Unit  bool  `json:"unit_sizes"`
	Keys  int   `json:"keys"`
	// NoCallback: the cache is configured without OnEvict (an optional
	// feature left out); evictions are then observed through Has/Len/Size only.
	NoCallback bool `json:"no_evict_callback,omitempty"`
	// Shift: with a size function, every size and the limit are multiplied by
	// 2^Shift (sizes counted in bytes of large objects: totals beyond 2^31, 2^32, 2^53)
	Shift uint `json:"sizes_times_2_to_the,omitempty"`
	// MaxScale: every size is multiplied by MaxInt64/Limit, so that the limit is
	// (just below) MaxInt64 and size + new size passes MaxInt64
	MaxScale bool `json:"limit_near_max_int64,omitempty"`
	// ClockJumps: now and then the LRU store's logical access clock is moved
	// forward (hook cache.VerifAdvanceClock) by 2^31-50, 2^31, 2^32 and 2^61 in
	// turn, so that access times on both sides of 2^31, 2^32, 2^33 and 2^61 meet
	ClockJumps bool `json:"clock_jumps,omitempty"`
}

type c08stats struct {
	maxLen, evictions, removeThenAccess, zeroPuts, tooLarge, replacing, clears, hookChecks int
	odd                                                                                    int64
}

func sortEntries(es []lruEntry) {
	sort.Slice(es, func(i, j int) bool {
		if es[i].K != es[j].K {
			return es[i].K < es[j].K
		}
		return es[i].V.ID < es[j].V.ID
	})
}

func c08run(c *fw.Ctx, cfg c08cfg, ops []cop, fixParent bool) (div *heapDiv, st c08stats) {
	sparse := len(ops)%3 == 0 // a third of the histories: nothing is read between operations except every 97th step
	if sparse {
		c.Add("sparse_observation_runs", 1)
	}
	heapq.VerifFixParent.Store(fixParent)
	defer heapq.VerifFixParent.Store(false)
	odd0 := heapq.VerifOddParent.Load()
	defer func() { st.odd = heapq.VerifOddParent.Load() - odd0 }()

	var calls []lruEntry
	given := map[CVal]bool{} // every value handed to Put so far
	var stray *CVal          // set by the size function when it is asked about anything else
	conf := cache.LRU[int, CVal]()
	lruStore := cache.VerifStoreOf(conf)
	jumps := []int64{1<<31 - 50, 1 << 31, 1 << 32, 1 << 61}
	if !cfg.NoCallback {
		conf = conf.OnEvict(func(k int, v CVal) { calls = append(calls, lruEntry{k, v}) })
	} else {
		c.Add("runs_without_evict_callback", 1)
	}
	if cfg.Unit && cfg.Keys%3 == 0 {
		// a size function set and then reset with nil: unit sizes again
		conf = conf.WithSize(func(v CVal) int64 { return v.Sz + 5 }).WithSize(nil)
	}
	if cfg.NoCallback && cfg.Keys%2 == 0 {
		// a callback set and then removed with nil
		conf = conf.OnEvict(func(k int, v CVal) { calls = append(calls, lruEntry{k, v}) }).OnEvict(nil)
	}
	if !cfg.Unit {
		conf = conf.WithSize(func(v CVal) int64 {
			if !given[v] && stray == nil {
				// the size of something the caller never handed to the cache
				w := v
				stray = &w
			}
			if cfg.MaxScale && v.Sz > cfg.Limit {
				return math.MaxInt64 // too large; the product would not fit an int64
			}
			return v.Sz * c08scale(cfg)
		})
	}
	scale := c08scale(cfg)
	ch := cache.New(cfg.Limit*scale, conf)
	ref := &lruModel{Limit: cfg.Limit}
	step := 0
	fail := func(format string, args ...any) *heapDiv {
		return &heapDiv{Step: step, Detail: fmt.Sprintf(format, args...) + " [reference before the call: " + refBefore + "]"}
	}
	lastWasRemove := false
	for step = 0; step < len(ops); step++ {
		o := ops[step]
		if cfg.ClockJumps && len(jumps) > 0 && step%41 == 17 {
			cache.VerifAdvanceClock(ch, lruStore, jumps[0])
			jumps = jumps[1:]
			c.Add("clock_jumps", 1)
		}
		refBefore = ref.String()
		calls = calls[:0]
		c.Step()
		c.Call("cache %v", o)
		var wantCalls []lruEntry // as a multiset
		var wantEvict []lruEntry // in order
		switch o.Op {
		case 'P':
			v := o.V
			if cfg.Unit {
				v.Sz = 1
			}
			given[v] = true
			got := ch.Put(o.K, v)
			ok, replaced, evicted := ref.put(o.K, v)
			if got != ok {
				return fail("Put=%v want %v", got, ok), st
			}
			if !ok {
				st.tooLarge++
			}
			if replaced != nil {
				wantCalls = append(wantCalls, *replaced)
				st.replacing++
			}
			wantCalls = append(wantCalls, evicted...)
			wantEvict = evicted
			st.evictions += len(evicted)
			if v.Sz == 0 && ok {
				st.zeroPuts++
			}
			if lastWasRemove {
				st.removeThenAccess++
			}
		case 'G':
			got, gok := ch.Get(o.K)
			want, wok := ref.get(o.K)
			if gok != wok || got != want {
				return fail("Get(%d)=(%v,%v) want (%v,%v)", o.K, got, gok, want, wok), st
			}
			if lastWasRemove {
				st.removeThenAccess++
			}
		case 'H':
			if got, want := ch.Has(o.K), ref.has(o.K); got != want {
				return fail("Has(%d)=%v want %v", o.K, got, want), st
			}
		case 'R':
			got := ch.Remove(o.K)
			e, ok := ref.remove(o.K)
			if got != ok {
				return fail("Remove(%d)=%v want %v", o.K, got, ok), st
			}
			if ok {
				wantCalls = append(wantCalls, e)
			}
			if lastWasRemove {
				st.removeThenAccess++
			}
		case 'C':
			ch.Clear()
			wantCalls = ref.clear()
			st.clears++
		}
		lastWasRemove = o.Op == 'R'
		if stray != nil {
			return fail("%v: the size function was called with %v, which is not a value that was ever given to the cache", o, *stray), st
		}
		// callbacks of this call
		if cfg.NoCallback {
			wantCalls, wantEvict = nil, nil
		}
		if len(calls) != len(wantCalls) {
			return fail("%v: eviction callback fired %d times %v, want %d %v", o, len(calls), calls, len(wantCalls), wantCalls), st
		}
		a := append([]lruEntry(nil), calls...)
		b := append([]lruEntry(nil), wantCalls...)
		sortEntries(a)
		sortEntries(b)
		for i := range a {
			if a[i] != b[i] {
				return fail("%v: eviction callbacks %v, want (as a set) %v", o, calls, wantCalls), st
			}
		}
		if len(wantEvict) > 0 {
			// the evictions must appear in exact LRU order (the replaced entry's callback may be anywhere)
			j := 0
			for _, e := range calls {
				if j < len(wantEvict) && e == wantEvict[j] {
					j++
				}
			}
			if j != len(wantEvict) {
				return fail("%v: evictions reported in order %v, want LRU order %v", o, calls, wantEvict), st
			}
		}
		if len(ref.Es) > st.maxLen {
			st.maxLen = len(ref.Es)
		}
		if sparse && step%97 != 0 {
			continue
		}
		// observations
		if got, want := ch.Len(), len(ref.Es); got != want {
			return fail("after %v: Len=%d want %d", o, got, want), st
		}
		if got, want := ch.Size(), ref.size()*scale; got != want || got > cfg.Limit*scale {
			return fail("after %v: Size=%d want %d (limit %d)", o, got, want, cfg.Limit*scale), st
		}
		for k := -1; k <= cfg.Keys; k++ {
			if got, want := ch.Has(k), ref.has(k); got != want {
				return fail("after %v: Has(%d)=%v want %v", o, k, got, want), st
			}
		}
		if size, count, _, err := ch.VerifCheck(nil); err != nil || size != ref.size()*scale || count != len(ref.Es) {
			return fail("after %v: accounting hook: size=%d count=%d err=%v (reference size=%d count=%d)", o, size, count, err, ref.size(), len(ref.Es)), st
		}
		st.hookChecks++
		if len(ref.Es) > st.maxLen {
			st.maxLen = len(ref.Es)
		}
	}
	// Final: Clear must report every remaining entry exactly once.
	step = len(ops)
	refBefore = ref.String()
	calls = calls[:0]
	ch.Clear()
	want := ref.clear()
	if cfg.NoCallback {
		want = nil
	}
	a := append([]lruEntry(nil), calls...)
	sortEntries(a)
	sortEntries(want)
	if len(a) != len(want) {
		return fail("final Clear: %d callbacks %v, want %d", len(a), calls, len(want)), st
	}
	for i := range a {
		if a[i] != want[i] {
			return fail("final Clear: callbacks %v, want (as a set) %v", calls, want), st
		}
	}
	if ch.Len() != 0 || ch.Size() != 0 {
		return fail("after final Clear: Len=%d Size=%d", ch.Len(), ch.Size()), st
	}
	return nil, st
}

// c08scale is the number of size units per reference unit for a configuration.
func c08scale(cfg c08cfg) int64 {
	switch {
	case cfg.Unit:
		return 1
	case cfg.MaxScale:
		return (math.MaxInt64 - 1) / cfg.Limit
	}
	return 1 << cfg.Shift
}

var refBefore string

func c08gen(r *rand.Rand, cfg c08cfg, n int) []cop {
	ops := make([]cop, 0, n)
	id := 0
	val := func() CVal {
		id++
		sz := int64(1)
		if !cfg.Unit {
			switch r.IntN(8) {
			case 0:
				sz = 0
			case 1:
				sz = cfg.Limit + int64(r.IntN(3)) // exactly the limit, or too large
			default:
				sz = int64(r.IntN(int(cfg.Limit)/2 + 2))
			}
		}
		return CVal{ID: id, Sz: sz}
	}
	for len(ops) < n {
		run := 1 + r.IntN(20)
		switch r.IntN(10) {
		case 0, 1, 2: // fill
			for j := 0; j < run && len(ops) < n; j++ {
				ops = append(ops, cop{Op: 'P', K: r.IntN(cfg.Keys), V: val()})
			}
		case 3, 4: // accesses
			for j := 0; j < run && len(ops) < n; j++ {
				ops = append(ops, cop{Op: "GGGH"[r.IntN(4)], K: r.IntN(cfg.Keys)})
			}
		case 5, 6, 7: // Remove followed by Get/Remove/Put bursts
			for j := 0; j < run && len(ops) < n; j++ {
				ops = append(ops, cop{Op: 'R', K: r.IntN(cfg.Keys)})
				switch r.IntN(3) {
				case 0:
					ops = append(ops, cop{Op: 'G', K: r.IntN(cfg.Keys)})
				case 1:
					ops = append(ops, cop{Op: 'R', K: r.IntN(cfg.Keys)})
				case 2:
					ops = append(ops, cop{Op: 'P', K: r.IntN(cfg.Keys), V: val()})
				}
			}
		case 8: // mixed
			for j := 0; j < run && len(ops) < n; j++ {
				o := cop{Op: "PPGGHR"[r.IntN(6)], K: r.IntN(cfg.Keys)}
				if o.Op == 'P' {
					o.V = val()
				}
				ops = append(ops, o)
			}
		case 9:
			switch r.IntN(5) {
			case 0:
				ops = append(ops, cop{Op: 'C'})
			case 1: // cyclic scan over limit+1 keys (the classic LRU adversary), Put on miss
				for j := 0; j < run*2 && len(ops) < n; j++ {
					k := j % (int(min(cfg.Limit, int64(cfg.Keys-1))) + 1)
					ops = append(ops, cop{Op: 'G', K: k}, cop{Op: 'P', K: k, V: val()})
				}
			case 2: // the same call repeated
				o := cop{Op: "PGHRC"[r.IntN(5)], K: r.IntN(cfg.Keys)}
				if o.Op == 'P' {
					o.V = val()
				}
				for j := 0; j < 2+r.IntN(2) && len(ops) < n; j++ {
					ops = append(ops, o)
				}
			}
		}
	}
	return ops
}

// c08both runs one history as is and in the counterfactual mode and reports.
func c08both(c *fw.Ctx, cfg c08cfg, ops []cop) (st c08stats, realViolated bool) {
	var div, cfDiv *heapDiv
	ok, pv, stack := fw.Try(func() { div, st = c08run(c, cfg, ops, false) })
	if !ok {
		div = &heapDiv{Step: -1, Detail: fmt.Sprintf("panic: %v\n%s", pv, stack)}
	}
	ok2, pv2, stack2 := fw.Try(func() { cfDiv, _ = c08run(c, cfg, ops, true) })
	if !ok2 {
		cfDiv = &heapDiv{Step: -1, Detail: fmt.Sprintf("panic: %v\n%s", pv2, stack2)}
	}
	caseData := func(d *heapDiv) map[string]any {
		upto := len(ops)
		if d.Step >= 0 && d.Step < len(ops) {
			upto = d.Step + 1
		}
		if upto > 400 {
			return map[string]any{"config": cfg, "ops_before_omitted": upto - 300, "last_ops": copStrings(ops[upto-300 : upto]), "note": "the case is regenerated from (seed, block, index) on replay"}
		}
		return map[string]any{"config": cfg, "ops": copStrings(ops[:upto])}
	}
	switch {
	case cfDiv != nil:
		c.Fail(caseData(cfDiv), "with the known F1 parent index corrected (counterfactual run), at op %d: %s", cfDiv.Step, cfDiv.Detail)
	case div != nil && (st.odd > 0 || st.maxLen < 5):
		c.Fail(caseData(div), "at op %d: %s (not attributable to F1: odd parent indices=%d, max entries held=%d)", div.Step, div.Detail, st.odd, st.maxLen)
	case div != nil:
		c.Known("F1", caseData(div), "at op %d: %s; vanishes when pushUp uses (i-1)/2", div.Step, div.Detail)
		c.Add("real_run_violations", 1)
	}
	return st, div != nil
}

// c08exhaustive: a cache of 6 unit-size entries over 7 keys is filled, then
// every sequence of up to L operations from {Get, Remove, Put} x 7 keys is
// applied, then six fresh keys are put so that every remaining entry is
// evicted and the eviction order is compared with the reference. This covers
// every small "Remove, then access" shape of the recency heap, independent of
// the seed.
func c08exhaustive(c *fw.Ctx, base int) {
	L := c.Pick(4, 5)
	const keys = 7
	nops := 3 * keys
	total := 1
	for i := 0; i < L; i++ {
		total *= nops
	}
	const bundle = 2000
	nb := (total + bundle - 1) / bundle
	cfg := c08cfg{Limit: 6, Unit: true, Keys: keys + 8}
	for bi := c.Block; bi < nb; bi += c.NBlocks {
		if !c.Begin(base + bi) {
			continue
		}
		var cnt int64
		for x := bi * bundle; x < min(total, (bi+1)*bundle); x++ {
			id := 0
			var ops []cop
			for k := 0; k < 6; k++ {
				id++
				ops = append(ops, cop{Op: 'P', K: k, V: CVal{ID: id, Sz: 1}})
			}
			y := x
			for i := 0; i < L; i++ {
				o := y % nops
				y /= nops
				k := o % keys
				switch o / keys {
				case 0:
					ops = append(ops, cop{Op: 'G', K: k})
				case 1:
					ops = append(ops, cop{Op: 'R', K: k})
				case 2:
					id++
					ops = append(ops, cop{Op: 'P', K: k, V: CVal{ID: id, Sz: 1}})
				}
			}
			for k := 0; k < 6; k++ {
				id++
				ops = append(ops, cop{Op: 'P', K: keys + 1 + k, V: CVal{ID: id, Sz: 1}})
			}
			st, _ := c08both(c, cfg, ops)
			cnt++
			c.Add("evictions", int64(st.evictions))
			c.Add("remove_then_access", int64(st.removeThenAccess))
			c.Add("hook_checks", int64(st.hookChecks))
			c.Add("replacing_puts", int64(st.replacing))
		}
		c.Evals(cnt - 1)
		c.Add("exhaustive_small_histories", cnt)
		c.Add("histories", cnt)
		c.Add("histories_ge6_entries", cnt)
		c.SeenEnum(cnt)
		if c.Stopped() {
			return
		}
	}
}

// c08f1witness is a recorded history on which the pinned tree evicts a
// non-LRU victim because of known finding F1 (found by the random workload at
// seed 1; kept here so that the KNOWN-FINDING line does not depend on the seed).
var c08f1cfg = c08cfg{Limit: 12, Unit: true, Keys: 37}
var c08f1witness = []cop{
	{Op: 'G', K: 16},
	{Op: 'G', K: 20},
	{Op: 'H', K: 29},
	{Op: 'G', K: 28},
	{Op: 'H', K: 20},
	{Op: 'G', K: 8},
	{Op: 'H', K: 12},
	{Op: 'G', K: 9},
	{Op: 'H', K: 35},
	{Op: 'G', K: 36},
	{Op: 'G', K: 8},
	{Op: 'G', K: 30},
	{Op: 'G', K: 8},
	{Op: 'G', K: 7},
	{Op: 'G', K: 6},
	{Op: 'G', K: 0},
	{Op: 'G', K: 7},
	{Op: 'P', K: 23, V: CVal{ID: 1, Sz: 1}},
	{Op: 'P', K: 17, V: CVal{ID: 2, Sz: 1}},
	{Op: 'P', K: 15, V: CVal{ID: 3, Sz: 1}},
	{Op: 'P', K: 3, V: CVal{ID: 4, Sz: 1}},
	{Op: 'P', K: 19, V: CVal{ID: 5, Sz: 1}},
	{Op: 'P', K: 26, V: CVal{ID: 6, Sz: 1}},
	{Op: 'P', K: 36, V: CVal{ID: 7, Sz: 1}},
	{Op: 'P', K: 30, V: CVal{ID: 8, Sz: 1}},
	{Op: 'P', K: 1, V: CVal{ID: 9, Sz: 1}},
	{Op: 'P', K: 34, V: CVal{ID: 10, Sz: 1}},
	{Op: 'P', K: 16, V: CVal{ID: 11, Sz: 1}},
	{Op: 'P', K: 4, V: CVal{ID: 12, Sz: 1}},
	{Op: 'P', K: 1, V: CVal{ID: 13, Sz: 1}},
	{Op: 'P', K: 16, V: CVal{ID: 14, Sz: 1}},
	{Op: 'P', K: 5, V: CVal{ID: 15, Sz: 1}},
	{Op: 'R', K: 0},
	{Op: 'G', K: 21},
	{Op: 'R', K: 35},
	{Op: 'P', K: 16, V: CVal{ID: 16, Sz: 1}},
	{Op: 'R', K: 10},
	{Op: 'R', K: 1},
	{Op: 'R', K: 6},
	{Op: 'G', K: 31},
	{Op: 'R', K: 28},
	{Op: 'G', K: 4},
	{Op: 'R', K: 27},
	{Op: 'R', K: 30},
	{Op: 'R', K: 0},
	{Op: 'G', K: 21},
	{Op: 'R', K: 11},
	{Op: 'R', K: 16},
	{Op: 'R', K: 28},
	{Op: 'P', K: 8, V: CVal{ID: 17, Sz: 1}},
	{Op: 'P', K: 12, V: CVal{ID: 18, Sz: 1}},
	{Op: 'P', K: 17, V: CVal{ID: 19, Sz: 1}},
	{Op: 'P', K: 3, V: CVal{ID: 20, Sz: 1}},
	{Op: 'P', K: 13, V: CVal{ID: 21, Sz: 1}},
	{Op: 'P', K: 20, V: CVal{ID: 22, Sz: 1}},
	{Op: 'P', K: 12, V: CVal{ID: 23, Sz: 1}},
	{Op: 'P', K: 15, V: CVal{ID: 24, Sz: 1}},
	{Op: 'P', K: 9, V: CVal{ID: 25, Sz: 1}},
	{Op: 'P', K: 7, V: CVal{ID: 26, Sz: 1}},
	{Op: 'P', K: 7, V: CVal{ID: 27, Sz: 1}},
	{Op: 'P', K: 1, V: CVal{ID: 28, Sz: 1}},
}

func runC08(c *fw.Ctx) {
	if c.Block == 0 && c.Begin(1<<21) {
		_, viol := c08both(c, c08f1cfg, c08f1witness)
		if viol {
			c.Add("f1_witness_still_fails", 1)
		} else {
			c.Add("f1_witness_no_longer_fails", 1)
			c.Note("the recorded F1 witness history no longer violates C08 on this tree")
		}
	}
	if c.Flavour == "386" {
		// the 32-bit build: random histories only, half of them with sizes
		// counted in units of 2^26..2^56 (sizes and the limit are int64, but
		// intermediate results may be narrowed to int)
		for k := 0; k < 500; k++ {
			if !c.Begin(k) {
				continue
			}
			r := c.Rng()
			cfg := c08cfg{Limit: int64(1 + r.IntN(40)), Unit: r.IntN(4) == 0, Keys: 2 + r.IntN(39), NoCallback: k%5 == 3, ClockJumps: k%3 != 0}
			if !cfg.Unit && k%2 == 1 {
				cfg.Shift = []uint{26, 27, 28, 29, 31, 32, 33, 48, 56}[r.IntN(9)]
				c.Add("runs_with_sizes_beyond_2_to_the_31", 1)
			}
			ops := c08gen(r, cfg, 60+r.IntN(300))
			c08both(c, cfg, ops)
			c.Add("histories", 1)
		}
		return
	}
	// interface-typed keys: now and then a call is made with a key that cannot be
	// hashed (a slice); the run-time panic is recovered by the caller, and the
	// cache must go on working (and not stay locked: a wedged cache shows as a
	// hang, which the driver pins to the announced call)
	for k := 0; k < c.Pick(20, 200); k++ {
		if !c.Begin(1<<18 + k) {
			continue
		}
		r := c.Rng()
		limit := int64(2 + r.IntN(3)) // at most 4 entries: known finding F1 needs 5
		ch := cache.New(limit, cache.LRU[any, CVal]())
		ref := &lruModel{Limit: limit}
		var log opLog
		id := 0
		for s := 0; s < 120; s++ {
			key := r.IntN(9)
			bad := r.IntN(7) == 0
			var kk any = key
			if bad {
				kk = []int{key}
			}
			op := r.IntN(4)
			log.add("%s(%v)", []string{"Put", "Get", "Has", "Remove"}[op], kk)
			c.Call("cache[any].%s(%v) after %d calls", []string{"Put", "Get", "Has", "Remove"}[op], kk, s)
			c.Step()
			var gotOK bool
			var gotV CVal
			panicked, _ := fw.Panics(func() {
				switch op {
				case 0:
					id++
					gotOK = ch.Put(kk, CVal{ID: id, Sz: 1})
				case 1:
					gotV, gotOK = ch.Get(kk)
				case 2:
					gotOK = ch.Has(kk)
				default:
					gotOK = ch.Remove(kk)
				}
			})
			if bad {
				continue // whatever the call did (it panics today), the cache must still work and hold the same entries
			}
			if panicked {
				c.Fail(map[string]any{"ops": log.list()}, "a call with an ordinary key panicked")
				break
			}
			var wantOK bool
			var wantV CVal
			switch op {
			case 0:
				wantOK, _, _ = ref.put(key, CVal{ID: id, Sz: 1})
			case 1:
				wantV, wantOK = ref.get(key)
			case 2:
				wantOK = ref.has(key)
			default:
				_, wantOK = ref.remove(key)
			}
			if gotOK != wantOK || gotV != wantV || ch.Len() != len(ref.Es) {
				c.Fail(map[string]any{"limit": limit, "ops": log.list()}, "result (%v,%v) want (%v,%v); Len=%d want %d", gotV, gotOK, wantV, wantOK, ch.Len(), len(ref.Es))
				break
			}
		}
		c.Add("interface_key_histories", 1)
	}
	c08exhaustive(c, 1<<20)
	// long-lived caches: one instance carries 150 000 (thorough 600 000) calls,
	// observed sparsely, so that whatever accumulates per call (clocks,
	// counters, amortised bookkeeping) has the chance to drift or wrap
	for k := 0; k < c.Pick(1, 3); k++ {
		if !c.Begin(1<<19 + k) {
			continue
		}
		r := c.Rng()
		cfg := c08cfg{Limit: int64(3 + r.IntN(30)), Unit: r.IntN(2) == 0, Keys: 4 + r.IntN(40), NoCallback: r.IntN(3) == 0}
		if (k+c.Block)%4 == 0 {
			cfg.Limit, cfg.Unit = int64(2+r.IntN(3)), true // at most 4 entries: no allowance for F1
		}
		ops := c08gen(r, cfg, c.Pick(150000, 600000))
		c08both(c, cfg, ops)
		c.Add("long_lived_cache_runs", 1)
		c.Add("long_lived_cache_calls", int64(len(ops)))
	}
	n := c.Pick(2500, 40000)
	for k := 0; k < n; k++ {
		if !c.Begin(k) {
			continue
		}
		r := c.Rng()
		cfg := c08cfg{Limit: int64(1 + r.IntN(40)), Unit: r.IntN(2) == 0, Keys: 2 + r.IntN(39)}
		cfg.NoCallback = k%5 == 3
		cfg.ClockJumps = k%2 == 1
		if !cfg.Unit && k%3 == 1 {
			cfg.Shift = []uint{26, 27, 28, 29, 31, 32, 33, 48, 56}[r.IntN(9)]
			cfg.MaxScale = r.IntN(4) == 0
			c.Add("runs_with_sizes_beyond_2_to_the_31", 1)
		}
		if k%7 == 0 { // small caches: no allowance for F1 whatever
			cfg.Limit = int64(1 + r.IntN(4))
			cfg.Unit = true
		}
		ops := c08gen(r, cfg, 80+r.IntN(521))
		var div, cfDiv *heapDiv
		var st c08stats
		ok, pv, stack := fw.Try(func() { div, st = c08run(c, cfg, ops, false) })
		if !ok {
			div = &heapDiv{Step: -1, Detail: fmt.Sprintf("panic: %v\n%s", pv, stack)}
		}
		ok2, pv2, stack2 := fw.Try(func() { cfDiv, _ = c08run(c, cfg, ops, true) })
		if !ok2 {
			cfDiv = &heapDiv{Step: -1, Detail: fmt.Sprintf("panic: %v\n%s", pv2, stack2)}
		}
		caseData := func(d *heapDiv) map[string]any {
			upto := len(ops)
			if d.Step >= 0 && d.Step < len(ops) {
				upto = d.Step + 1
			}
			return map[string]any{"config": cfg, "ops": copStrings(ops[:upto])}
		}
		switch {
		case cfDiv != nil:
			c.Fail(caseData(cfDiv), "with the known F1 parent index corrected (counterfactual run), at op %d: %s", cfDiv.Step, cfDiv.Detail)
		case div != nil && (st.odd > 0 || st.maxLen < 5):
			c.Fail(caseData(div), "at op %d: %s (not attributable to F1: odd parent indices=%d, max entries held=%d)", div.Step, div.Detail, st.odd, st.maxLen)
		case div != nil:
			c.Known("F1", caseData(div), "at op %d: %s; vanishes when pushUp uses (i-1)/2", div.Step, div.Detail)
			c.Add("real_run_violations", 1)
		}
		c.Add("histories", 1)
		if st.maxLen >= 6 {
			c.Add("histories_ge6_entries", 1)
		}
		c.Add("evictions", int64(st.evictions))
		c.Add("remove_then_access", int64(st.removeThenAccess))
		c.Add("zero_size_puts", int64(st.zeroPuts))
		c.Add("too_large_puts", int64(st.tooLarge))
		c.Add("replacing_puts", int64(st.replacing))
		c.Add("clears", int64(st.clears))
		c.Add("hook_checks", int64(st.hookChecks))
		c.Max("max:entries", int64(st.maxLen))
		if st.evictions > 0 && st.removeThenAccess > 0 {
			h := fw.NewH()
			h.Int(int(cfg.Limit))
			h.Int(cfg.Keys)
			for _, o := range ops {
				h.Int(int(o.Op))
				h.Int(o.K)
				h.Int(int(o.V.Sz))
			}
			c.Seen(h.Sum())
		}
		if c.WantSample() && len(ops) < 110 {
			c.Sample(map[string]any{"config": cfg, "ops": copStrings(ops)})
		}
	}
}
