//go:build pC15 || pC16 || pall

package props

import (
	"bytes"
	"fmt"
	"os"
	"os/exec"
	"path/filepath"
	"strconv"
	"strings"
	"sync"
	"time"

	"github.com/creachadair/mds/shell"

	"verif/harness/fw"
)

// Real POSIX shells as oracles. Each command line "emit <words>" makes the
// shell print its argument count and arguments NUL-separated, so the monitor
// sees exactly the fields the shell obtained.

type shellKind struct {
	Name string
	Path string
	Args []string
}

type shellRig struct {
	dir    string // scratch directory with bait files (cwd of the shells)
	home   string
	shells []shellKind
}

func newShellRig() *shellRig {
	rig := &shellRig{}
	dir, err := os.MkdirTemp(".", "sh-")
	if err != nil {
		return rig
	}
	rig.dir, _ = filepath.Abs(dir)
	rig.home = filepath.Join(rig.dir, "home")
	os.MkdirAll(rig.home, 0o755)
	// bait: an unprotected glob, tilde or bracket changes what the shell sees
	for _, name := range []string{"a", "b", "ab", "[a]", "x=y", "a b", "é", "aa", "ba", "#a", "~"} {
		os.WriteFile(filepath.Join(rig.dir, name), nil, 0o644)
	}
	if p, err := exec.LookPath("dash"); err == nil {
		rig.shells = append(rig.shells, shellKind{"dash", p, nil})
	} else if _, err := os.Stat("/bin/sh"); err == nil {
		rig.shells = append(rig.shells, shellKind{"sh", "/bin/sh", nil})
	}
	if p, err := exec.LookPath("bash"); err == nil {
		// +B: brace expansion is a bash extension that --posix does not disable
		rig.shells = append(rig.shells, shellKind{"bash +B", p, []string{"--noprofile", "--norc", "+B"}})
	}
	return rig
}

func (r *shellRig) close() {
	if r.dir != "" {
		os.RemoveAll(r.dir)
	}
}

const shellPrelude = "emit() { printf '%d\\0' \"$#\"; for a_ in \"$@\"; do printf '%s\\0' \"$a_\"; done; }\n"

// run evaluates each command tail as "emit <tail>" in one shell process and
// returns, per command, the fields the shell saw. ok is false if the shell's
// output does not have one record per command (syntax error, runaway quote).
func (r *shellRig) run(c *fw.Ctx, sh shellKind, tails []string) (fields [][]string, ok bool, diag string) {
	var script bytes.Buffer
	script.WriteString(shellPrelude)
	for _, t := range tails {
		script.WriteString("emit ")
		script.WriteString(t)
		script.WriteString("\n")
	}
	sf := filepath.Join(r.dir, ".script")
	if err := os.WriteFile(sf, script.Bytes(), 0o644); err != nil {
		return nil, false, err.Error()
	}
	cmd := exec.Command(sh.Path, append(append([]string(nil), sh.Args...), sf)...)
	cmd.Dir = r.dir
	cmd.Env = []string{"LC_ALL=C", "HOME=" + r.home, "PATH=/nonexistent", "ENV=", "BASH_ENV="}
	var out, errb bytes.Buffer
	cmd.Stdout, cmd.Stderr = &out, &errb
	c.Oracle(true)
	done := make(chan error, 1)
	if err := cmd.Start(); err != nil {
		c.Oracle(false)
		return nil, false, err.Error()
	}
	go func() { done <- cmd.Wait() }()
	var werr error
	select {
	case werr = <-done:
	case <-time.After(120 * time.Second):
		cmd.Process.Kill()
		<-done
		c.Oracle(false)
		return nil, false, "shell timed out"
	}
	c.Oracle(false)
	recs := bytes.Split(out.Bytes(), []byte{0})
	if len(recs) > 0 && len(recs[len(recs)-1]) == 0 {
		recs = recs[:len(recs)-1]
	}
	i := 0
	for range tails {
		if i >= len(recs) {
			return fields, false, fmt.Sprintf("shell output ends after %d of %d records (exit %v; stderr %q)", len(fields), len(tails), werr, headStr(errb.String(), 300))
		}
		n, err := strconv.Atoi(string(recs[i]))
		if err != nil || n < 0 || i+1+n > len(recs) {
			return fields, false, fmt.Sprintf("malformed record %d: %q (stderr %q)", len(fields), recs[i], headStr(errb.String(), 300))
		}
		fs := make([]string, n)
		for k := 0; k < n; k++ {
			fs[k] = string(recs[i+1+k])
		}
		fields = append(fields, fs)
		i += 1 + n
	}
	if i != len(recs) {
		return fields, false, fmt.Sprintf("shell printed %d extra records (stderr %q)", len(recs)-i, headStr(errb.String(), 300))
	}
	return fields, true, ""
}

func headStr(s string, n int) string {
	if len(s) > n {
		return s[:n] + "..."
	}
	return s
}

// compare runs tails in every shell and calls mismatch for each command whose
// fields differ from want. If a whole batch is malformed it falls back to one
// process per command to find the offender.
func (r *shellRig) compare(c *fw.Ctx, tails []string, want [][]string, counter string, mismatch func(i int, shell string, got []string, diag string)) {
	if r.dir == "" {
		return
	}
	for _, sh := range r.shells {
		got, ok, diag := r.run(c, sh, tails)
		c.Add(counter+"_"+strings.Fields(sh.Name)[0], int64(len(tails)))
		if !ok {
			// pin the first offender
			found := false
			for i := range tails {
				g, ok1, d1 := r.run(c, sh, tails[i:i+1])
				if !ok1 {
					mismatch(i, sh.Name, nil, d1)
					found = true
					break
				}
				if !equalStrings(g[0], want[i]) {
					mismatch(i, sh.Name, g[0], "")
					found = true
					break
				}
			}
			if !found {
				mismatch(0, sh.Name, nil, "batch output malformed but every command alone is fine: "+diag)
			}
			continue
		}
		for i := range tails {
			if !equalStrings(got[i], want[i]) {
				mismatch(i, sh.Name, got[i], "")
			}
		}
	}
}

// shellFirstUse: the very first use of the shell package in this process comes
// from several goroutines at once (they are released together from a barrier):
// whatever the package sets up lazily on first use must be ready for each of
// them. Each goroutine scans its own input with its own Scanner and with the
// pooled Split, and quotes and re-splits a list; results are compared with
// expected values that do not need the package (fixed inputs).
var shellFirstUseDone bool

func shellFirstUse() string {
	if shellFirstUseDone {
		return ""
	}
	shellFirstUseDone = true
	const G = 16
	type job struct {
		in   string
		want []string
	}
	jobs := make([]job, G)
	for g := range jobs {
		jobs[g] = job{
			in:   fmt.Sprintf("\"a b\" 'c d' e\\ f \"g\\\"h\" i%d \\\\ 'x'\"y\"z", g),
			want: []string{"a b", "c d", "e f", "g\"h", fmt.Sprintf("i%d", g), "\\", "xyz"},
		}
	}
	var ready, start sync.WaitGroup
	ready.Add(G)
	start.Add(1)
	errs := make([]string, G)
	var done sync.WaitGroup
	for g := 0; g < G; g++ {
		done.Add(1)
		go func(g int) {
			defer done.Done()
			j := jobs[g]
			ready.Done()
			start.Wait()
			sc := shell.NewScanner(strings.NewReader(j.in))
			var got []string
			for sc.Next() {
				got = append(got, sc.Text())
			}
			if !equalStrings(got, j.want) || !sc.Complete() {
				errs[g] = fmt.Sprintf("goroutine %d, first use of the package in this process: Scanner yields %q (complete=%v), want %q", g, got, sc.Complete(), j.want)
				return
			}
			if fs, ok := shell.Split(j.in); !ok || !equalStrings(fs, j.want) {
				errs[g] = fmt.Sprintf("goroutine %d, first use of the package in this process: Split = %q (complete=%v), want %q", g, fs, ok, j.want)
				return
			}
			if fs, ok := shell.Split(shell.Join(j.want)); !ok || !equalStrings(fs, j.want) {
				errs[g] = fmt.Sprintf("goroutine %d, first use of the package in this process: Split(Join(%q)) = %q (complete=%v)", g, j.want, fs, ok)
			}
		}(g)
	}
	ready.Wait()
	start.Done()
	done.Wait()
	for _, e := range errs {
		if e != "" {
			return e
		}
	}
	return ""
}
