//go:build pC07 || pall

package props

import (
	"fmt"
	"math/rand/v2"
	"sync"

	"github.com/creachadair/mds/queue"
	"verif/harness/fw"
)

// C07 — queue.Queue is a faithful double-ended queue across wrap-around and
// growth. Reference: a plain slice. After every operation the whole observable
// state is compared. The VerifState hook is used for reach counters only.

func init() {
	fw.Register(&fw.Property{
		ID: "C07",
		Meta: func(tier string) fw.Meta {
			return fw.Meta{
				Flavours: []string{"plain", "race", "cover", "386"},
				Blocks:   16,
				Procs:    16,
				Rule: "case = (constructor, operation history over Add/Push/Pop/PopLast/Clear); three generators: " +
					"(a) scripted rotate-then-grow scenarios for every capacity 1..24 x every head position x {Add,Push} (seed-independent), and for every capacity 25..1400 (9000 thorough) x three head positions, continued to the next regrow, with constant-time observations on every step and the full comparison after every regrow, " +
					"and at 262143..1.2 M elements (5 M thorough), one per block; (a2) for seven element types of one to four bytes (byte, int8, int16, int32, float32, [3]byte, a two-byte struct) every history of length 7 (8 thorough) over {Add,Push,Pop,PopLast,Clear} from the zero value, New and NewSize(0,1,2,3,5), fully compared after every op; (b) exhaustive enumeration of all histories up to a length bound over {Add,Push,Pop,PopLast} for preallocated sizes 0..4, " +
					"(c) PRNG histories of 20..300 ops with phase-switching op mixes, (d) long-lived queues: one instance carries 300 000 (1.2 M thorough) operations with its length wandering between 0 and a few hundred. After EVERY op: Each with read-only calls (Slice, Peek, Front, Len, Each) made from inside its loop body - before the monitor reads anything else -, Len, IsEmpty, Front, Slice (and scribbling over the returned slice), Each (with early stop), Peek(n) for all n in [-Len-2, Len+1] and for offsets far out of range whose low 8..62 bits look like a valid offset. " +
					"distinct = distinct (constructor, history) hashes; non-trivial = the history contained at least one wrap of the ring indices or a regrow while head > 0 (seen through the VerifState hook)",
				Required:     []string{"rotate_then_grow_add", "rotate_then_grow_push", "backward_wrap_push", "forward_wrap_add", "pop_to_empty", "steps", "large_capacity_scenarios", "element_type_checks", "sparse_observation_histories", "concurrent_instance_histories", "long_lived_queue_runs", "very_large_queues", "shared_reader_rounds", "fill_then_drain_scenarios", "small_element_type_histories"},
				Exhaustive:   true,
				Assumptions:  []string{"reference model: Go slice with append/prepend/pop semantics", "hook queue.VerifState used for reach counters only, never for verdicts"},
				CoverPkgs:    []string{"github.com/creachadair/mds/queue", "github.com/creachadair/mds/slice"},
				CoverAnchors: []string{"queue/queue.go", "slice/slice.go:Rotate", "slice/slice.go:gcd", "slice/slice.go:sliceCheck"},
			}
		},
		Run: runC07,
	})
}

type c07op byte

const (
	qAdd c07op = iota
	qPush
	qPop
	qPopLast
	qClear
)

var c07names = [...]string{"Add", "Push", "Pop", "PopLast", "Clear"}

type c07case struct {
	Ctor string   `json:"ctor"`
	Ops  []string `json:"ops"`
}

// c07run executes one history against the real queue and the reference and
// returns whether it was non-trivial. It reports at most one violation.
func c07run(c *fw.Ctx, ctorSize int, ops []c07op, light bool) (nontrivial bool, ok bool) {
	return c07runMode(c, ctorSize, ops, light, false)
}

// c07runMode: with sparse set, nothing is read between operations except every
// 211th step and at the end (only the results of Pop/PopLast are observed).
func c07runMode(c *fw.Ctx, ctorSize int, ops []c07op, light, sparse bool) (nontrivial bool, ok bool) {
	var q *queue.Queue[int]
	var ctor string
	switch {
	case ctorSize == -2:
		q = new(queue.Queue[int]) // zero value
		ctor = "zero"
	case ctorSize == -1:
		q = queue.New[int]()
		ctor = "New"
	default:
		q = queue.NewSize[int](ctorSize)
		ctor = fmt.Sprintf("NewSize(%d)", ctorSize)
	}
	// variants chosen by the history itself (deterministic): observations through
	// method values bound at construction, and a Queue struct that is moved by
	// value (right away, or after a few operations) with only the copy used
	bound := len(ops)%5 == 2
	moved := []int{0, 0, 0, 1, 0, 2, 0}[len(ops)%7]
	if moved == 1 {
		cp := *q
		q = &cp
		ctor += ", struct moved by value"
	}
	if bound {
		ctor += ", observed through method values bound at construction"
	}
	var accLen func() int
	var accIsEmpty func() bool
	var accFront func() int
	var accPeek func(int) (int, bool)
	var accSlice func() []int
	var accEach func(func(int) bool)
	bind := func() {
		if bound {
			accLen, accIsEmpty, accFront, accPeek, accSlice, accEach = q.Len, q.IsEmpty, q.Front, q.Peek, q.Slice, q.Each
			return
		}
		accLen = func() int { return q.Len() }
		accIsEmpty = func() bool { return q.IsEmpty() }
		accFront = func() int { return q.Front() }
		accPeek = func(i int) (int, bool) { return q.Peek(i) }
		accSlice = func() []int { return q.Slice() }
		accEach = func(f func(int) bool) { q.Each(f) }
	}
	bind()
	var ref []int
	next := 1
	log := make([]string, 0, len(ops))
	fail := func(format string, args ...any) {
		shown := log
		if len(shown) > 600 {
			// long scripted scenario: the constructor and the op counts describe it; keep the tail
			shown = append([]string{fmt.Sprintf("... %d earlier operations omitted ...", len(log)-600)}, log[len(log)-600:]...)
		}
		c.Fail(c07case{Ctor: ctor, Ops: shown}, "after %d ops: "+format, append([]any{len(log)}, args...)...)
	}
	okAll := true
	grew := false
	check := func() bool {
		if sparse && len(log)%211 != 0 && len(log) != len(ops) {
			return true
		}
		if light && !grew && len(log)%509 != 0 {
			// light mode (large scripted scenarios): constant-time observations on
			// every step, the full comparison after every regrow and every 509 steps
			if accLen() != len(ref) || accIsEmpty() != (len(ref) == 0) {
				fail("Len=%d IsEmpty=%v want %d elements", accLen(), accIsEmpty(), len(ref))
				return false
			}
			if len(ref) > 0 {
				mid := len(log) % len(ref)
				f, _ := accPeek(0)
				l, _ := accPeek(-1)
				m, mok := accPeek(mid)
				if accFront() != ref[0] || f != ref[0] || l != ref[len(ref)-1] || !mok || m != ref[mid] {
					fail("Front=%d Peek(0)=%d Peek(-1)=%d Peek(%d)=%d, want %d %d %d %d", accFront(), f, l, mid, m, ref[0], ref[0], ref[len(ref)-1], ref[mid])
					return false
				}
			}
			return true
		}
		if len(ref) > 0 && len(ref) <= 48 {
			// read-only calls from inside the loop body of Each. This comes first,
			// before the monitor itself has called Slice or anything else on the
			// new state (an accessor that tidies up internally would otherwise
			// have done so already)
			var nested []int
			inner := true
			accEach(func(v int) bool {
				nested = append(nested, v)
				i := len(nested) - 1
				if i >= len(ref) {
					return false
				}
				if sl := accSlice(); !equalInts(sl, ref) {
					inner = false
				}
				if pv, ok := accPeek(i); !ok || pv != ref[i] || accFront() != ref[0] || accLen() != len(ref) {
					inner = false
				}
				if i == len(ref)/2 {
					n := 0
					accEach(func(int) bool { n++; return n <= len(ref) })
					if n != len(ref) {
						inner = false
					}
				}
				return true
			})
			if !equalInts(nested, ref) || !inner {
				fail("Each with read-only calls (Slice, Peek, Front, Len, Each) in its loop body yields %v (the calls inside agreed with the reference: %v), want %v", nested, inner, ref)
				return false
			}
		}
		if got := accLen(); got != len(ref) {
			fail("Len=%d want %d", got, len(ref))
			return false
		}
		if got := accIsEmpty(); got != (len(ref) == 0) {
			fail("IsEmpty=%v with %d elements", got, len(ref))
			return false
		}
		wantFront := 0
		if len(ref) > 0 {
			wantFront = ref[0]
		}
		if got := accFront(); got != wantFront {
			fail("Front=%d want %d (ref %v)", got, wantFront, ref)
			return false
		}
		sl := accSlice()
		if !equalInts(sl, ref) {
			fail("Slice=%v want %v", sl, ref)
			return false
		}
		if len(ref) == 0 && sl != nil {
			fail("Slice of empty queue is non-nil %v", sl)
			return false
		}
		// the caller owns what Slice returned: scribbling over it (and appending
		// to it) must not reach the queue, which the checks below still read
		for i := range sl {
			sl[i] = -999
		}
		sl = append(sl, -998, -997)
		_ = sl
		if len(ref) > 0 && len(ref)%3 == 1 {
			// a scan abandoned half-way: the loop body panics, the caller recovers
			fw.Panics(func() {
				n := 0
				accEach(func(int) bool {
					if n++; n > len(ref)/2 {
						panic("scan abandoned by its loop body")
					}
					return true
				})
			})
		}
		var each []int
		accEach(func(v int) bool { each = append(each, v); return true })
		if !equalInts(each, ref) {
			fail("Each=%v want %v", each, ref)
			return false
		}
		if len(ref) > 0 {
			stop := len(log) % len(ref) // deterministic early-stop point
			n := 0
			accEach(func(v int) bool { n++; return n <= stop })
			if n != stop+1 {
				fail("Each made %d calls after yield returned false at call %d", n, stop+1)
				return false
			}
		}
		for n := -len(ref) - 2; n <= len(ref)+1; n++ {
			got, gok := accPeek(n)
			idx := n
			if idx < 0 {
				idx += len(ref)
			}
			wok := idx >= 0 && idx < len(ref)
			want := 0
			if wok {
				want = ref[idx]
			}
			if gok != wok || got != want {
				fail("Peek(%d)=(%d,%v) want (%d,%v) (ref %v)", n, got, gok, want, wok, ref)
				return false
			}
		}
		if len(log)%7 == 3 {
			// offsets far out of range whose low bits look like a valid offset
			for _, n := range truncInts(len(ref)) {
				if got, gok := accPeek(n); gok || got != 0 {
					fail("Peek(%d)=(%d,%v) want (0,false): the offset is far out of range (Len %d)", n, got, gok, len(ref))
					return false
				}
			}
		}
		return true
	}
	if !check() {
		return false, false
	}
	for opi, op := range ops {
		if moved == 2 && opi == 9 {
			cp := *q // moved by value after some use; only the copy is used from here on
			q = &cp
			bind()
		}
		head, n, capy := q.VerifState()
		full := n == capy
		switch op {
		case qAdd:
			if full && head > 0 {
				c.Add("rotate_then_grow_add", 1)
				nontrivial = true
			} else if !full && head+n >= capy && capy > 0 {
				c.Add("forward_wrap_add", 1)
				nontrivial = true
			}
			if full && head == 0 {
				c.Add("grow_in_place", 1)
			}
			grew = full
			v := next
			next++
			log = append(log, fmt.Sprintf("Add(%d)", v))
			c.Call("queue.Add state head=%d n=%d cap=%d", head, n, capy)
			q.Add(v)
			ref = append(ref, v)
		case qPush:
			if full && head > 0 {
				c.Add("rotate_then_grow_push", 1)
				nontrivial = true
			} else if !full && head == 0 {
				c.Add("backward_wrap_push", 1)
				nontrivial = true
			}
			grew = full
			v := next
			next++
			log = append(log, fmt.Sprintf("Push(%d)", v))
			c.Call("queue.Push state head=%d n=%d cap=%d", head, n, capy)
			q.Push(v)
			ref = append([]int{v}, ref...)
		case qPop:
			grew = false
			got, gok := q.Pop()
			log = append(log, "Pop")
			wok := len(ref) > 0
			want := 0
			if wok {
				want = ref[0]
				ref = ref[1:]
				if len(ref) == 0 {
					c.Add("pop_to_empty", 1)
				}
				if head == capy-1 && len(ref) > 0 {
					c.Add("pop_wraps_head", 1)
					nontrivial = true
				}
			}
			if gok != wok || got != want {
				fail("Pop=(%d,%v) want (%d,%v)", got, gok, want, wok)
				return nontrivial, false
			}
		case qPopLast:
			grew = false
			got, gok := q.PopLast()
			log = append(log, "PopLast")
			wok := len(ref) > 0
			want := 0
			if wok {
				want = ref[len(ref)-1]
				ref = ref[:len(ref)-1]
				if len(ref) == 0 {
					c.Add("pop_to_empty", 1)
				}
				if head+n > capy {
					c.Add("poplast_wrapped_tail", 1)
					nontrivial = true
				}
			}
			if gok != wok || got != want {
				fail("PopLast=(%d,%v) want (%d,%v)", got, gok, want, wok)
				return nontrivial, false
			}
		case qClear:
			q.Clear()
			log = append(log, "Clear")
			ref = nil
			c.Add("clear", 1)
		}
		c.Step()
		c.Add("steps", 1)
		h2, n2, cap2 := q.VerifState()
		c.Max("max:capacity", int64(cap2))
		_ = h2
		_ = n2
		if !check() {
			okAll = false
			break
		}
	}
	return nontrivial, okAll
}

func c07hash(ctor int, ops []c07op) uint64 {
	h := fw.NewH()
	h.Int(ctor)
	for _, o := range ops {
		h.Int(int(o))
	}
	return h.Sum()
}

// c07concurrent: separate queues used by separate goroutines at the same time
// (instances share nothing, so each must behave exactly as it does alone).
func c07concurrent(c *fw.Ctx, base int) {
	// one shared queue (wrapped ring), no writer, eight goroutines that only read it
	for k := 0; k < c.Pick(3, 20); k++ {
		if !c.Begin(base + 100000 + k) {
			continue
		}
		r := c.Rng()
		n := 1 + r.IntN(60)
		q := queue.NewSize[int](n + r.IntN(4))
		var ref []int
		for i := 0; i < n+n/2; i++ { // wrap the ring: fill, pop half, refill
			if i == n {
				for j := 0; j < n/2; j++ {
					q.Pop()
					ref = ref[1:]
				}
			}
			q.Add(i)
			ref = append(ref, i)
		}
		msg := concurrently(8, r.Uint64(), func(g int, lr *rand.Rand) string {
			for it := 0; it < 300; it++ {
				switch lr.IntN(4) {
				case 0:
					if !equalInts(q.Slice(), ref) {
						return fmt.Sprintf("goroutine %d (readers only): Slice=%v want %v", g, q.Slice(), ref)
					}
				case 1:
					var each []int
					q.Each(func(v int) bool { each = append(each, v); return len(each) <= len(ref) })
					if !equalInts(each, ref) {
						return fmt.Sprintf("goroutine %d (readers only): Each=%v want %v", g, each, ref)
					}
				case 2:
					i := lr.IntN(len(ref))
					if v, ok := q.Peek(i); !ok || v != ref[i] {
						return fmt.Sprintf("goroutine %d (readers only): Peek(%d)=(%d,%v) want %d", g, i, v, ok, ref[i])
					}
				default:
					if q.Len() != len(ref) || q.IsEmpty() || q.Front() != ref[0] {
						return fmt.Sprintf("goroutine %d (readers only): Len=%d Front=%d want %d, %d", g, q.Len(), q.Front(), len(ref), ref[0])
					}
				}
				c.Step()
			}
			return ""
		})
		if msg != "" {
			c.Fail(map[string]any{"phase": "one shared queue, no writer, 8 goroutines that only read it", "elements": len(ref)}, "%s", msg)
		}
		// afterwards the owner goes on using it
		q.Add(-1)
		if v, ok := q.PopLast(); !ok || v != -1 || q.Len() != len(ref) {
			c.Fail(map[string]any{"phase": "owner uses the queue after the concurrent readers have finished"}, "PopLast=(%d,%v) Len=%d", v, ok, q.Len())
		}
		c.Add("shared_reader_rounds", 1)
	}
	for k := 0; k < c.Pick(3, 30); k++ {
		var wg sync.WaitGroup
		for g := 0; g < 8; g++ {
			cc := c.Fork(base + 8*k + g)
			if cc == nil {
				continue
			}
			wg.Add(1)
			go func(cc *fw.Ctx) {
				defer wg.Done()
				r := cc.Rng()
				ops := make([]c07op, 200+r.IntN(400))
				for i := range ops {
					ops[i] = c07op(r.IntN(4))
					if r.IntN(50) == 0 {
						ops[i] = qClear
					}
				}
				okRun, pv, _ := fw.Try(func() { c07runMode(cc, r.IntN(12)-2, ops, false, r.IntN(2) == 0) })
				if !okRun {
					cc.FailKind("panic", map[string]any{"phase": "concurrent instances"}, "panic: %v", pv)
				}
			}(cc)
		}
		wg.Wait()
		c.Add("concurrent_instance_histories", 8)
	}
}

func runC07(c *fw.Ctx) {
	c07concurrent(c, 1<<22)
	if c.Flavour == "race" {
		return
	}
	idx := 0
	light := false
	runCase := func(ctor int, ops []c07op, enum bool) {
		i := idx
		idx++
		if !c.Begin(i) {
			return
		}
		var nt, ok bool
		okRun, pv, stack := fw.Try(func() { nt, ok = c07run(c, ctor, ops, light) })
		if !okRun {
			names := make([]string, len(ops))
			for k, o := range ops {
				names[k] = c07names[o]
			}
			c.FailKind("panic", map[string]any{"ctor": ctor, "ops": names}, "panic: %v\n%s", pv, stack)
			return
		}
		_ = ok
		if nt {
			if enum {
				c.SeenEnum(1)
			} else {
				c.Seen(c07hash(ctor, ops))
			}
		}
		if c.WantSample() && nt && len(ops) > 6 && len(ops) < 40 {
			names := make([]string, len(ops))
			for k, o := range ops {
				names[k] = c07names[o]
			}
			c.Sample(map[string]any{"ctor_size": ctor, "ops": names})
		}
	}

	// (a) scripted rotate-then-grow scenarios: seed-independent, block 0 only
	// in part, spread over blocks by capacity.
	for capy := 1; capy <= 24; capy++ {
		if capy%c.NBlocks != c.Block {
			idx += 2 * capy * 3
			continue
		}
		for h := 0; h < capy; h++ {
			for _, last := range []c07op{qAdd, qPush} {
				for variant := 0; variant < 3; variant++ {
					var ops []c07op
					for i := 0; i < capy; i++ {
						ops = append(ops, qAdd)
					}
					switch variant {
					case 0: // move head forward by popping, refill at the back
						for i := 0; i < h; i++ {
							ops = append(ops, qPop)
						}
						for i := 0; i < h; i++ {
							ops = append(ops, qAdd)
						}
					case 1: // move head backward: pop from the back, push at the front
						for i := 0; i < h; i++ {
							ops = append(ops, qPopLast)
						}
						for i := 0; i < h; i++ {
							ops = append(ops, qPush)
						}
					case 2: // mixed
						for i := 0; i < h; i++ {
							ops = append(ops, qPop, qAdd)
						}
					}
					ops = append(ops, last, qAdd, qPush, qPop, qPopLast)
					// then drain alternately
					for i := 0; i < capy+2; i++ {
						if i%2 == 0 {
							ops = append(ops, qPop)
						} else {
							ops = append(ops, qPopLast)
						}
					}
					runCase(capy, ops, true)
				}
			}
		}
	}
	idx = 50000
	// (a') the same scripted scenarios at larger capacities, where the growth
	// policy of append changes (it stops doubling at 256 elements) and buffers
	// cross allocator size classes: every capacity 25..maxCap for three head
	// positions, light checking (full comparison after every regrow).
	light = true
	maxCap := c.Pick(1400, 9000)
	for capy := 25; capy <= maxCap; capy++ {
		if capy%c.NBlocks != c.Block {
			idx += 6
			continue
		}
		for _, h := range []int{1, capy / 3, capy - 1} {
			for _, last := range []c07op{qAdd, qPush} {
				var ops []c07op
				for i := 0; i < capy; i++ {
					ops = append(ops, qAdd)
				}
				for i := 0; i < h; i++ {
					ops = append(ops, qPop)
				}
				for i := 0; i < h; i++ {
					ops = append(ops, qAdd)
				}
				// full with head == h: this op must rotate and regrow; then keep going until the next regrow
				ops = append(ops, last, qPop, qPop, qAdd, qPush, qAdd)
				for i := 0; i < capy/2+8; i++ {
					ops = append(ops, last)
				}
				for i := 0; i < 6; i++ {
					ops = append(ops, qPop, qPopLast)
				}
				runCase(capy, ops, true)
				c.Add("large_capacity_scenarios", 1)
			}
		}
		if c.Stopped() {
			return
		}
	}
	light = false
	if c.Block == 0 && c.Begin(60000) {
		// other element types: zero-size elements and strings
		ok, pv, stack := fw.Try(func() {
			for _, ctor := range []int{-2, -1, 0, 3} {
				var qz *queue.Queue[struct{}]
				var qs *queue.Queue[string]
				switch ctor {
				case -2:
					qz, qs = new(queue.Queue[struct{}]), new(queue.Queue[string])
				case -1:
					qz, qs = queue.New[struct{}](), queue.New[string]()
				default:
					qz, qs = queue.NewSize[struct{}](ctor), queue.NewSize[string](ctor)
				}
				var ref []string
				for i := 0; i < 40; i++ {
					switch i % 5 {
					case 0, 1, 2:
						v := fmt.Sprint("v", i)
						if i%2 == 0 {
							qz.Add(struct{}{})
							qs.Add(v)
							ref = append(ref, v)
						} else {
							qz.Push(struct{}{})
							qs.Push(v)
							ref = append([]string{v}, ref...)
						}
					case 3:
						qz.Pop()
						qs.Pop()
						if len(ref) > 0 {
							ref = ref[1:]
						}
					case 4:
						if i%10 == 9 {
							qz.Clear()
							qs.Clear()
							ref = nil
						} else {
							qz.PopLast()
							qs.PopLast()
							if len(ref) > 0 {
								ref = ref[:len(ref)-1]
							}
						}
					}
					if qz.Len() != len(ref) || qs.Len() != len(ref) || len(qz.Slice()) != len(ref) || !equalStrings(qs.Slice(), ref) {
						c.Fail(map[string]any{"element_types": "struct{} and string", "ctor": ctor}, "after %d ops: Len=%d/%d, string queue %v, want %v", i+1, qz.Len(), qs.Len(), qs.Slice(), ref)
						return
					}
				}
			}
		})
		if !ok {
			c.FailKind("panic", map[string]any{"element_types": "struct{} and string"}, "panic with a non-int element type: %v\n%s", pv, stack)
		}
		c.Add("element_type_checks", 1)
	}
	if c.Block == 0 && c.Begin(60001) {
		// element types smaller than a machine word: the first allocation that
		// append makes for them has more than one slot, so the ring geometry after
		// growth from nothing differs from that of Queue[int] (seeded change C07w)
		n := 0
		n += c07small(c, "byte", func(i int) byte { return byte(i%255 + 1) })
		n += c07small(c, "int8", func(i int) int8 { return int8(i%127 + 1) })
		n += c07small(c, "int16", func(i int) int16 { return int16(i + 1) })
		n += c07small(c, "int32", func(i int) int32 { return int32(i + 1) })
		n += c07small(c, "float32", func(i int) float32 { return float32(i) + 0.5 })
		n += c07small(c, "[3]byte", func(i int) [3]byte { return [3]byte{byte(i + 1), byte(i >> 8), 7} })
		n += c07small(c, "struct{a,b uint8}", func(i int) struct{ a, b uint8 } { return struct{ a, b uint8 }{uint8(i + 1), uint8(i >> 8)} })
		c.Add("small_element_type_histories", int64(n))
	}
	idx = 100000

	// (b) exhaustive enumeration over {Add,Push,Pop,PopLast} up to length L
	// for preallocated sizes 0..4 (and the zero value).
	L := c.Pick(8, 9)
	total := 1
	for i := 0; i < L; i++ {
		total *= 4
	}
	// Enumerate only full-length sequences: every shorter history is a prefix
	// of one of them and is checked step by step on the way.
	for code := c.Block; code < total; code += c.NBlocks {
		ops := make([]c07op, L)
		x := code
		for i := 0; i < L; i++ {
			ops[i] = c07op(x % 4)
			x /= 4
		}
		for _, ctor := range []int{-2, 0, 1, 2, 3, 4} {
			runCase(ctor, ops, true)
		}
		if c.Stopped() {
			return
		}
	}
	idx = 100000 + 6*total

	// (c) PRNG histories.
	nRandom := c.Pick(3000, 300000)
	for k := 0; k < nRandom; k++ {
		i := idx
		if !c.Begin(i) {
			idx++
			continue
		}
		r := c.Rng()
		ctor := r.IntN(21) - 2 // -2 zero, -1 New, 0..18 NewSize
		n := 20 + r.IntN(281)
		ops := make([]c07op, 0, n)
		// phase-switching mixes: weights for Add, Push, Pop, PopLast, Clear
		mixes := [][5]int{
			{6, 1, 2, 1, 0}, {1, 6, 1, 2, 0}, {3, 3, 3, 3, 0}, {1, 1, 5, 1, 0}, {1, 1, 1, 5, 0},
			{5, 0, 5, 0, 0}, {0, 5, 0, 5, 0}, {4, 4, 1, 1, 0}, {2, 2, 3, 3, 1}, {5, 5, 4, 4, 0},
		}
		for len(ops) < n {
			m := mixes[r.IntN(len(mixes))]
			run := 3 + r.IntN(30)
			sum := m[0] + m[1] + m[2] + m[3] + m[4]
			for j := 0; j < run && len(ops) < n; j++ {
				x := r.IntN(sum)
				o := 0
				for x >= m[o] {
					x -= m[o]
					o++
				}
				ops = append(ops, c07op(o))
			}
		}
		// undo Begin's bookkeeping double count: runCase calls Begin again, so
		// run inline instead.
		var nt bool
		okRun, pv, stack := fw.Try(func() { nt, _ = c07runMode(c, ctor, ops, false, k%3 == 0) })
		if k%3 == 0 {
			c.Add("sparse_observation_histories", 1)
		}
		if !okRun {
			c.FailKind("panic", map[string]any{"ctor": ctor, "nops": len(ops)}, "panic: %v\n%s", pv, stack)
		}
		if nt {
			c.Seen(c07hash(ctor, ops))
		}
		idx++
	}

	// (a'') the rotate-then-grow scenario at very large capacities, one per block
	if c.Begin(1<<23 + 100 + c.Block) {
		caps := []int{262143, 262144, 262145, 300000, 524289, 600000, 1048577, 1200000}
		capy := caps[c.Block%len(caps)]
		if c.Thorough() && c.Block%4 == 1 {
			capy = 5000000
		}
		h := []int{1, capy / 3, capy - 1}[c.Block%3]
		last := []c07op{qAdd, qPush}[c.Block/8%2]
		ops := make([]c07op, 0, 2*capy+64)
		for i := 0; i < capy; i++ {
			ops = append(ops, qAdd)
		}
		for i := 0; i < h; i++ {
			ops = append(ops, qPop)
		}
		for i := 0; i < h; i++ {
			ops = append(ops, qAdd)
		}
		ops = append(ops, last, qPop, qPop, qAdd, qPush, qAdd, qPopLast, qPush, qPop)
		for i := 0; i < 40; i++ {
			ops = append(ops, qPop, qPopLast, qAdd)
		}
		ctor := []int{-2, -1, capy, capy - 1}[c.Block%4]
		okRun, pv, stack := fw.Try(func() { c07runMode(c, ctor, ops, true, true) })
		if !okRun {
			c.FailKind("panic", map[string]any{"ctor": ctor, "capacity": capy, "phase": "very large queue"}, "panic: %v\n%s", pv, stack)
		}
		c.Add("very_large_queues", 1)
		c.Max("max:queue_elements", int64(capy))
	}

	// (a3) fill-then-drain: a queue preallocated with c slots (c around 1024,
	// 2048, 4096 and arbitrary sizes in between) is filled to c/4-1..c/4+1,
	// c/2-1..c/2+2 and c-1..c elements and drained from the front, from the back
	// or alternately, with constant-time checks on every step: a buffer that
	// gives memory back while shrinking does so at exact fill levels
	if c.Begin(1<<23 + 200 + c.Block) {
		caps := []int{1023, 1024, 1025, 1100, 1400, 2047, 2048, 2049, 3000, 4095, 4096, 4097, 5000, 8192, 10000, 16384}
		capy := caps[c.Block%len(caps)]
		for _, fill := range []int{capy/4 - 1, capy / 4, capy/4 + 1, capy/2 - 1, capy / 2, capy/2 + 1, capy/2 + 2, capy - 1, capy} {
			for drain := 0; drain < 3; drain++ {
				ops := make([]c07op, 0, 2*fill+8)
				for i := 0; i < fill; i++ {
					ops = append(ops, qAdd)
				}
				for i := 0; i < fill; i++ {
					switch drain {
					case 0:
						ops = append(ops, qPop)
					case 1:
						ops = append(ops, qPopLast)
					default:
						ops = append(ops, []c07op{qPop, qPopLast}[i%2])
					}
				}
				ops = append(ops, qAdd, qPush, qPop)
				okRun, pv, stack := fw.Try(func() { c07runMode(c, capy, ops, true, false) })
				if !okRun {
					c.FailKind("panic", map[string]any{"ctor": capy, "fill": fill, "phase": "fill then drain"}, "panic: %v\n%s", pv, stack)
				}
				c.Add("fill_then_drain_scenarios", 1)
			}
		}
	}

	// (d) long-lived queues: one instance carries 300 000 (1.2 M thorough)
	// operations while its length wanders between 0 and a few hundred, so that
	// the ring indices wrap thousands of times and anything that accumulates
	// per call can drift.
	for k := 0; k < c.Pick(1, 3); k++ {
		if !c.Begin(1<<23 + k) {
			continue
		}
		r := c.Rng()
		ctor := []int{-2, -1, 0, 1, 7, 64, 100}[r.IntN(7)]
		n := c.Pick(300000, 1200000)
		ops := make([]c07op, 0, n)
		length, hi := 0, 20+r.IntN(300)
		for len(ops) < n {
			grow := length < hi/8 || (length < hi && r.IntN(2) == 0)
			run := 1 + r.IntN(40)
			for j := 0; j < run && len(ops) < n; j++ {
				var o c07op
				switch x := r.IntN(10); {
				case x < 6 == grow:
					o = []c07op{qAdd, qPush}[r.IntN(2)]
					if x%3 == 0 {
						o = qAdd
					}
					length++
				default:
					o = []c07op{qPop, qPopLast}[r.IntN(2)]
					if length > 0 {
						length--
					}
				}
				ops = append(ops, o)
			}
			if r.IntN(4000) == 0 {
				ops = append(ops, c07op(4)) // Clear
				length = 0
			}
		}
		okRun, pv, stack := fw.Try(func() { c07runMode(c, ctor, ops, true, true) })
		if !okRun {
			c.FailKind("panic", map[string]any{"ctor": ctor, "nops": len(ops), "phase": "long-lived queue"}, "panic: %v\n%s", pv, stack)
		}
		c.Add("long_lived_queue_runs", 1)
	}
}

// c07small runs, for one element type, every history of length 7 (8 in the
// thorough tier) over
// {Add,Push,Pop,PopLast,Clear} from every kind of constructor and compares the
// queue with a reference slice after every operation. mk must give distinct
// non-zero values for 0..7. It returns the number of histories run.
func c07small[T comparable](c *fw.Ctx, name string, mk func(int) T) int {
	L := c.Pick(7, 8)
	total := 1
	for i := 0; i < L; i++ {
		total *= 5
	}
	var zero T
	count := 0
	ops := make([]c07op, L)
	for _, ctor := range []int{-2, -1, 0, 1, 2, 3, 5} {
		for code := 0; code < total; code++ {
			x := code
			for i := range ops {
				ops[i] = c07op(x % 5)
				x /= 5
			}
			var q *queue.Queue[T]
			switch ctor {
			case -2:
				q = new(queue.Queue[T])
			case -1:
				q = queue.New[T]()
			default:
				q = queue.NewSize[T](ctor)
			}
			var ref []T
			bad := ""
			done := 0
			ok, pv, stack := fw.Try(func() {
				for i, op := range ops {
					v := mk(i)
					switch op {
					case qAdd:
						q.Add(v)
						ref = append(ref, v)
					case qPush:
						q.Push(v)
						ref = append([]T{v}, ref...)
					case qPop:
						got, gok := q.Pop()
						want, wok := zero, len(ref) > 0
						if wok {
							want, ref = ref[0], ref[1:]
						}
						if got != want || gok != wok {
							bad = fmt.Sprintf("Pop=(%v,%v) want (%v,%v)", got, gok, want, wok)
						}
					case qPopLast:
						got, gok := q.PopLast()
						want, wok := zero, len(ref) > 0
						if wok {
							want, ref = ref[len(ref)-1], ref[:len(ref)-1]
						}
						if got != want || gok != wok {
							bad = fmt.Sprintf("PopLast=(%v,%v) want (%v,%v)", got, gok, want, wok)
						}
					case qClear:
						q.Clear()
						ref = nil
					}
					done = i + 1
					if bad != "" {
						return
					}
					if q.Len() != len(ref) || q.IsEmpty() != (len(ref) == 0) {
						bad = fmt.Sprintf("Len=%d IsEmpty=%v want %d elements", q.Len(), q.IsEmpty(), len(ref))
						return
					}
					sl := q.Slice()
					if len(sl) != len(ref) {
						bad = fmt.Sprintf("Slice=%v want %v", sl, ref)
						return
					}
					for j := range ref {
						if sl[j] != ref[j] {
							bad = fmt.Sprintf("Slice=%v want %v", sl, ref)
							return
						}
						if p, pok := q.Peek(j); !pok || p != ref[j] {
							bad = fmt.Sprintf("Peek(%d)=(%v,%v) want (%v,true)", j, p, pok, ref[j])
							return
						}
						if p, pok := q.Peek(j - len(ref)); !pok || p != ref[j] {
							bad = fmt.Sprintf("Peek(%d)=(%v,%v) want (%v,true)", j-len(ref), p, pok, ref[j])
							return
						}
					}
					if p, pok := q.Peek(len(ref)); pok || p != zero {
						bad = fmt.Sprintf("Peek(%d)=(%v,%v) want (zero,false)", len(ref), p, pok)
						return
					}
					if p, pok := q.Peek(-len(ref) - 1); pok || p != zero {
						bad = fmt.Sprintf("Peek(%d)=(%v,%v) want (zero,false)", -len(ref)-1, p, pok)
						return
					}
					wantFront := zero
					if len(ref) > 0 {
						wantFront = ref[0]
					}
					if f := q.Front(); f != wantFront {
						bad = fmt.Sprintf("Front=%v want %v", f, wantFront)
						return
					}
					k := 0
					q.Each(func(e T) bool {
						if k >= len(ref) || e != ref[k] {
							bad = fmt.Sprintf("Each yields %v at step %d, reference %v", e, k, ref)
							return false
						}
						k++
						return true
					})
					if bad == "" && k != len(ref) {
						bad = fmt.Sprintf("Each yields %d elements, want %d", k, len(ref))
					}
					if bad != "" {
						return
					}
				}
			})
			count++
			if ok && bad == "" {
				continue
			}
			names := make([]string, 0, done)
			for _, op := range ops[:min(done+1, L)] {
				names = append(names, c07names[op])
			}
			in := map[string]any{"element_type": name, "ctor": ctor, "ops": names, "values": "mk(i) for the i-th operation"}
			if !ok {
				c.FailKind("panic", in, "Queue[%s]: panic after %d ops: %v\n%s", name, done, pv, stack)
			} else {
				c.Fail(in, "Queue[%s] (ctor %d) after %d ops: %s", name, ctor, done, bad)
			}
			return count
		}
	}
	return count
}
