//go:build pC18 || pall

package props

import (
	"fmt"
	"math/rand/v2"
	"slices"
	"sort"

	"github.com/creachadair/mds/mapset"
	"verif/harness/fw"
)

// C18 — mapset.Set operations agree with mathematical sets, including nil and
// empty sets. Oracle: bitmasks over a universe of 5 elements; every operand is
// one of {nil, empty non-nil, each of the 31 non-empty subsets}.

func init() {
	fw.Register(&fw.Property{
		ID: "C18",
		Meta: func(tier string) fw.Meta {
			return fw.Meta{
				Flavours: []string{"plain", "cover", "386"},
				Blocks:   16,
				Procs:    16,
				Rule: "large sets (0..3000 elements per side in every size relation, 0..1000 shared elements incl. 31..34, 63..66, 127..129, 255..257) against Go maps for all binary operations, long variadic lists, Intersect, Clone, Slice, Append; exhaustive over a universe of 5 elements: every (receiver, argument) pair of the 34 operands {nil, empty non-nil, 32 subsets incl. a second empty} for Intersects/IsSubset/Equals/AddAll/RemoveAll; every receiver x every argument list of length <= 3 (<= 4 thorough) with repetitions for HasAll/HasAny/Add/Remove/New; every 0..3-operand combination and random 4..40-operand combinations for Intersect, and two different operands tied for the smallest size at every pair of positions among 2..24 operands; Append into prefixes with every amount of spare capacity from 0 to len+6; Clone/Keys/Values/Range/NewSize/Slice/Append/Pop/Clear/IsEmpty/Len/Has on every operand; every mutator (Add, AddAll, Remove, RemoveAll, Pop, Clear) also observed through a copy of the Set value made beforehand (a Set is a map: the copy must show the change); results checked for value, non-nilness and non-aliasing (mutating the result must not change an argument and vice versa). " +
					"Histories of Add/AddAll/Remove/RemoveAll/Pop/Clear over two sets (the second used as argument of the first), starting from nil or non-nil, with membership and Len of BOTH sets after every step. distinct = enumerated operand tuples, histories by hash; non-trivial = at least one operand is non-empty",
				Required:     []string{"binary_predicate_pairs", "variadic_cases", "variadic_with_duplicates", "intersect_cases", "aliasing_checks", "pop_checks", "history_steps", "nil_receiver_cases", "intersect_many_operands", "append_spare_capacity_cases", "second_handle_checks", "large_set_cases", "length_sweep_cases", "intersect_tied_smallest_operands"},
				Exhaustive:   true,
				Assumptions:  []string{"reference: 5-bit masks"},
				CoverPkgs:    []string{"github.com/creachadair/mds/mapset"},
				CoverAnchors: []string{"mapset/mapset.go"},
			}
		},
		Run: runC18,
	})
}

const c18U = 5

// operand i: 0 = nil, 1 = empty non-nil, 2.. = subset with mask i-2 (mask 0 is another empty non-nil set)
const c18N = 2 + 1<<c18U

func c18mk(i int) (mapset.Set[int], uint) {
	switch i {
	case 0:
		return nil, 0
	case 1:
		return mapset.Set[int]{}, 0
	}
	mask := uint(i - 2)
	s := mapset.Set[int]{}
	for e := 0; e < c18U; e++ {
		if mask>>uint(e)&1 == 1 {
			s[e] = struct{}{}
		}
	}
	return s, mask
}

func c18mask(s mapset.Set[int]) (uint, bool) {
	var m uint
	for e := range s {
		if e < 0 || e >= c18U {
			return 0, false
		}
		m |= 1 << uint(e)
	}
	return m, true
}

func c18name(i int) string {
	switch i {
	case 0:
		return "nil"
	case 1:
		return "{} (non-nil)"
	}
	var es []int
	for e := 0; e < c18U; e++ {
		if uint(i-2)>>uint(e)&1 == 1 {
			es = append(es, e)
		}
	}
	return fmt.Sprint(es)
}

func listMask(ts []int) uint {
	var m uint
	for _, t := range ts {
		m |= 1 << uint(t)
	}
	return m
}

func bitsOf(m uint) int {
	n := 0
	for ; m != 0; m &= m - 1 {
		n++
	}
	return n
}

type c18mon struct{ c *fw.Ctx }

func (m c18mon) fail(data map[string]any, format string, args ...any) {
	m.c.Fail(data, format, args...)
}

// sameAs reports whether set s has exactly mask want.
func sameAs(s mapset.Set[int], want uint) bool {
	got, ok := c18mask(s)
	return ok && got == want && len(s) == bitsOf(want)
}

func (m c18mon) binary(i, j int) {
	c := m.c
	s, sm := c18mk(i)
	t, tm := c18mk(j)
	data := map[string]any{"receiver": c18name(i), "argument": c18name(j)}
	c.Add("binary_predicate_pairs", 1)
	if i == 0 || j == 0 {
		c.Add("nil_receiver_cases", 1)
	}
	if got, want := s.Intersects(t), sm&tm != 0; got != want {
		m.fail(data, "Intersects = %v want %v", got, want)
	}
	if got, want := s.IsSubset(t), sm&^tm == 0; got != want {
		m.fail(data, "IsSubset = %v want %v", got, want)
	}
	if got, want := s.Equals(t), sm == tm; got != want {
		m.fail(data, "Equals = %v want %v", got, want)
	}
	if !sameAs(s, sm) || !sameAs(t, tm) {
		m.fail(data, "a predicate modified an operand")
	}
	// AddAll on a fresh copy of the receiver (pointer receiver; nil allowed)
	{
		r, _ := c18mk(i)
		a, _ := c18mk(j)
		h := r // a second handle to the receiver (a Set is a map): it must see what AddAll adds to a non-nil set
		ret := r.AddAll(a)
		if !sameAs(r, sm|tm) || !sameAs(ret, sm|tm) || !sameAs(a, tm) {
			m.fail(data, "AddAll: receiver %v returned %v argument %v, want union %05b and the argument unchanged", r, ret, a, sm|tm)
		}
		if h != nil {
			c.Add("second_handle_checks", 1)
			if !sameAs(h, sm|tm) {
				m.fail(data, "AddAll on a non-nil set: a copy of the Set value made before the call shows %v afterwards, the receiver %v", h, r)
			}
		}
		{ // (a receiver left nil is an empty set; the statement does not require AddAll to allocate)
			// independence: later changes to the receiver must not show in the argument and vice versa
			c.Add("aliasing_checks", 1)
			r.Add(0, 1, 2, 3, 4)
			if !sameAs(a, tm) {
				m.fail(data, "after AddAll, adding to the receiver changed the argument: %v", a)
			}
			r2, _ := c18mk(i)
			a2, _ := c18mk(j)
			r2.AddAll(a2)
			if a2 != nil {
				a2.Clear()
				if !sameAs(r2, sm|tm) {
					m.fail(data, "after AddAll, clearing the argument changed the receiver: %v", r2)
				}
			}
		}
	}
	// RemoveAll
	{
		r, _ := c18mk(i)
		a, _ := c18mk(j)
		h := r
		ret := r.RemoveAll(a)
		if !sameAs(r, sm&^tm) || !sameAs(ret, sm&^tm) || !sameAs(a, tm) {
			m.fail(data, "RemoveAll: receiver %v returned %v argument %v, want difference %05b", r, ret, a, sm&^tm)
		}
		if h != nil {
			c.Add("second_handle_checks", 1)
			if !sameAs(h, sm&^tm) {
				m.fail(data, "RemoveAll: a copy of the Set value made before the call shows %v afterwards, the receiver %v", h, r)
			}
		}
	}
	c.Step()
}

func (m c18mon) variadic(i int, ts []int) {
	c := m.c
	s, sm := c18mk(i)
	lm := listMask(ts)
	data := map[string]any{"receiver": c18name(i), "items": fmt.Sprint(ts)}
	c.Add("variadic_cases", 1)
	dup := bitsOf(lm) < len(ts)
	if dup {
		c.Add("variadic_with_duplicates", 1)
	}
	if got, want := s.HasAll(ts...), lm&^sm == 0; got != want {
		m.fail(data, "HasAll = %v want %v", got, want)
	}
	if got, want := s.HasAny(ts...), lm&sm != 0; got != want {
		m.fail(data, "HasAny = %v want %v", got, want)
	}
	if !sameAs(s, sm) {
		m.fail(data, "HasAll/HasAny modified the receiver")
	}
	if len(ts) == 0 {
		// no items, passed in every form: no arguments at all, a nil slice, an
		// empty non-nil slice, an empty slice with spare capacity
		spare := make([]int, 0, 4)
		for form, f := range map[string]func() (bool, bool){
			"no arguments":              func() (bool, bool) { return s.HasAll(), s.HasAny() },
			"nil slice":                 func() (bool, bool) { return s.HasAll([]int(nil)...), s.HasAny([]int(nil)...) },
			"empty non-nil slice":       func() (bool, bool) { return s.HasAll([]int{}...), s.HasAny([]int{}...) },
			"empty slice with capacity": func() (bool, bool) { return s.HasAll(spare...), s.HasAny(spare...) },
		} {
			if all, any := f(); !all || any {
				m.fail(data, "with no items (%s): HasAll = %v want true, HasAny = %v want false", form, all, any)
			}
		}
		r, _ := c18mk(i)
		r.Add([]int{}...)
		r.Remove(spare...)
		if !sameAs(r, sm) {
			m.fail(data, "Add/Remove of an empty non-nil item list changed the set: %v", r)
		}
		if n := mapset.New([]int{}...); n == nil || len(n) != 0 {
			m.fail(data, "New(empty non-nil list) = %v (nil=%v)", n, n == nil)
		}
	}
	{
		// the set used as its own argument
		self, _ := c18mk(i)
		if self != nil || i == 0 {
			if !self.Equals(self) || !self.IsSubset(self) || self.Intersects(self) != (sm != 0) {
				m.fail(data, "a set compared with itself: Equals=%v IsSubset=%v Intersects=%v", self.Equals(self), self.IsSubset(self), self.Intersects(self))
			}
			self.AddAll(self)
			if !sameAs(self, sm) {
				m.fail(data, "s.AddAll(s) changed the set: %v", self)
			}
			if in := mapset.Intersect(self, self, self); !sameAs(in, sm) {
				m.fail(data, "Intersect(s, s, s) = %v", in)
			}
			if !self.HasAll(self.Slice()...) {
				m.fail(data, "s.HasAll(s.Slice()...) is false")
			}
			self.RemoveAll(self)
			if len(self) != 0 {
				m.fail(data, "s.RemoveAll(s) leaves %v", self)
			}
		}
	}
	{
		r, _ := c18mk(i)
		h := r
		ret := r.Add(ts...)
		if !sameAs(r, sm|lm) || !sameAs(ret, sm|lm) {
			m.fail(data, "Add: receiver %v returned %v want %05b", r, ret, sm|lm)
		}
		if h != nil && !sameAs(h, sm|lm) {
			m.fail(data, "Add: a copy of the Set value made before the call shows %v afterwards, the receiver %v", h, r)
		}
	}
	{
		r, _ := c18mk(i)
		h := r
		ret := r.Remove(ts...)
		if !sameAs(r, sm&^lm) || !sameAs(ret, sm&^lm) {
			m.fail(data, "Remove: receiver %v returned %v want %05b", r, ret, sm&^lm)
		}
		if h != nil && !sameAs(h, sm&^lm) {
			m.fail(data, "Remove: a copy of the Set value made before the call shows %v afterwards, the receiver %v", h, r)
		}
	}
	if i == 0 {
		n := mapset.New(ts...)
		if n == nil || !sameAs(n, lm) {
			m.fail(data, "New(%v) = %v (nil=%v)", ts, n, n == nil)
		}
	}
	c.Step()
}

func (m c18mon) unary(i int) {
	c := m.c
	s, sm := c18mk(i)
	data := map[string]any{"receiver": c18name(i)}
	if s.Len() != bitsOf(sm) || s.IsEmpty() != (sm == 0) {
		m.fail(data, "Len=%d IsEmpty=%v", s.Len(), s.IsEmpty())
	}
	for e := -1; e <= c18U; e++ {
		want := e >= 0 && e < c18U && sm>>uint(e)&1 == 1
		if s.Has(e) != want {
			m.fail(data, "Has(%d)=%v", e, s.Has(e))
		}
	}
	// Clone: non-nil, equal, independent
	cl := s.Clone()
	c.Add("aliasing_checks", 1)
	if cl == nil || !sameAs(cl, sm) {
		m.fail(data, "Clone = %v (nil=%v)", cl, cl == nil)
	} else {
		cl.Add(0, 1, 2, 3, 4)
		if !sameAs(s, sm) {
			m.fail(data, "adding to a Clone changed the original: %v", s)
		}
		cl2 := s.Clone()
		if s != nil {
			s.Clear()
			if !sameAs(cl2, sm) {
				m.fail(data, "clearing the original changed its Clone: %v", cl2)
			}
			s, _ = c18mk(i)
		}
	}
	// Slice / Append
	sl := s.Slice()
	srt := append([]int(nil), sl...)
	sort.Ints(srt)
	var want []int
	for e := 0; e < c18U; e++ {
		if sm>>uint(e)&1 == 1 {
			want = append(want, e)
		}
	}
	if !equalInts(srt, want) {
		m.fail(data, "Slice = %v, want each member exactly once %v", sl, want)
	}
	pre := []int{77, 78}
	ap := s.Append(pre)
	if len(ap) != 2+len(want) || ap[0] != 77 || ap[1] != 78 {
		m.fail(data, "Append(prefix) = %v: prefix not preserved or wrong length", ap)
	} else {
		rest := append([]int(nil), ap[2:]...)
		sort.Ints(rest)
		if !equalInts(rest, want) {
			m.fail(data, "Append = %v, want the prefix followed by each member once", ap)
		}
	}
	// Keys / Values / Range
	mp := map[int]int{}
	for _, e := range want {
		mp[e] = (e * 2) % c18U
	}
	ks := mapset.Keys(mp)
	if ks == nil || !sameAs(ks, sm) {
		m.fail(data, "Keys = %v (nil=%v)", ks, ks == nil)
	}
	var vm uint
	for _, v := range mp {
		vm |= 1 << uint(v)
	}
	vs := mapset.Values(mp)
	if vs == nil || !sameAs(vs, vm) {
		m.fail(data, "Values = %v (nil=%v) want %05b", vs, vs == nil, vm)
	}
	if i <= 1 {
		var nilmap map[int]int
		if k := mapset.Keys(nilmap); k == nil || len(k) != 0 {
			m.fail(data, "Keys(nil map) = %v nil=%v", k, k == nil)
		}
		if v := mapset.Values(nilmap); v == nil || len(v) != 0 {
			m.fail(data, "Values(nil map) = %v nil=%v", v, v == nil)
		}
	}
	rg := mapset.Range(slices.Values(append(append([]int(nil), want...), want...)))
	if rg == nil || !sameAs(rg, sm) {
		m.fail(data, "Range = %v (nil=%v)", rg, rg == nil)
	}
	{
		// sequences that can be traversed only once: a generator with its own
		// position, and one fed from a channel
		src := append(append([]int(nil), want...), want...)
		pos := 0
		once := func(yield func(int) bool) {
			for pos < len(src) {
				v := src[pos]
				pos++
				if !yield(v) {
					return
				}
			}
		}
		if rg := mapset.Range(once); rg == nil || !sameAs(rg, sm) {
			m.fail(data, "Range over a single-use sequence of %v = %v (nil=%v)", src, rg, rg == nil)
		}
		ch := make(chan int, len(src))
		for _, v := range src {
			ch <- v
		}
		close(ch)
		fromChan := func(yield func(int) bool) {
			for v := range ch {
				if !yield(v) {
					return
				}
			}
		}
		if rg := mapset.Range(fromChan); rg == nil || !sameAs(rg, sm) {
			m.fail(data, "Range over a sequence fed from a channel with %v = %v (nil=%v)", src, rg, rg == nil)
		}
	}
	if i <= 1 {
		// maps that are "set shaped" (value type struct{}), nil and empty
		for _, in := range []map[int]struct{}{nil, {}, mapset.Set[int](nil), mapset.New[int]()} {
			if k := mapset.Keys(in); k == nil || len(k) != 0 {
				m.fail(data, "Keys(%#v) = %v (nil=%v), want a non-nil empty set", in, k, k == nil)
			}
		}
		var nilv map[int]struct{}
		if v := mapset.Values(nilv); v == nil || len(v) != 0 {
			m.fail(data, "Values(nil map[int]struct{}) = %v (nil=%v)", v, v == nil)
		}
	}
	if ks2 := mapset.Keys(map[int]struct{}(s)); ks2 == nil || !sameAs(ks2, sm) {
		m.fail(data, "Keys(set used as a map) = %v (nil=%v)", ks2, ks2 == nil)
	} else if s != nil {
		ks2.Add(0, 1, 2, 3, 4)
		if !sameAs(s, sm) {
			m.fail(data, "Keys(set used as a map) aliases its argument")
		}
	}
	if s != nil {
		// a second handle to the same (non-nil) set: a Set is a map, so both see every change
		c.Add("second_handle_checks", 1)
		h := s
		h.Add(c18U - 1)
		if !s.Has(c18U-1) || len(s) != len(h) {
			m.fail(data, "an element added through a copy of the Set value is not visible through the original (%v vs %v)", s, h)
		}
		h2 := s.Clear()
		h2.Add(0)
		if !s.Has(0) || len(s) != 1 {
			m.fail(data, "an element added through the value returned by Clear is not visible through the receiver (%v vs %v)", s, h2)
		}
		s, _ = c18mk(i)
	}
	if ns := mapset.NewSize[int](len(want)); ns == nil || len(ns) != 0 {
		m.fail(data, "NewSize = %v", ns)
	}
	// Pop until empty: each Pop removes exactly one present member
	p, _ := c18mk(i)
	left := sm
	for k := 0; k <= bitsOf(sm); k++ {
		c.Add("pop_checks", 1)
		before := len(p)
		got := p.Pop()
		if left == 0 {
			if got != 0 || len(p) != 0 {
				m.fail(data, "Pop on an empty set returned %d (len now %d)", got, len(p))
			}
			break
		}
		if got < 0 || got >= c18U || left>>uint(got)&1 == 0 || len(p) != before-1 || p.Has(got) {
			m.fail(data, "Pop returned %d; remaining mask %05b, len %d -> %d", got, left, before, len(p))
			break
		}
		left &^= 1 << uint(got)
		if !sameAs(p, left) {
			m.fail(data, "after Pop the set is %v want %05b", p, left)
			break
		}
	}
	// Clear returns the receiver, emptied
	q, _ := c18mk(i)
	if ret := q.Clear(); len(ret) != 0 || len(q) != 0 {
		m.fail(data, "Clear left %v", q)
	}
	c.Step()
}

func (m c18mon) intersect(ops []int) {
	c := m.c
	sets := make([]mapset.Set[int], len(ops))
	masks := make([]uint, len(ops))
	names := make([]string, len(ops))
	want := uint(1<<c18U - 1)
	for k, i := range ops {
		sets[k], masks[k] = c18mk(i)
		names[k] = c18name(i)
		want &= masks[k]
	}
	if len(ops) == 0 {
		want = 0
	}
	data := map[string]any{"operands": names}
	c.Add("intersect_cases", 1)
	got := mapset.Intersect(sets...)
	if got == nil || !sameAs(got, want) {
		m.fail(data, "Intersect = %v (nil=%v) want %05b", got, got == nil, want)
		return
	}
	got.Add(0, 1, 2, 3, 4)
	for k := range sets {
		if !sameAs(sets[k], masks[k]) {
			m.fail(data, "adding to Intersect's result changed operand %d: %v", k, sets[k])
		}
	}
	c.Step()
}

func runC18(c *fw.Ctx) {
	m := c18mon{c}
	idx := 0
	// binary predicates: pairs partitioned over blocks
	if c.Begin(idx + c.Block) {
		var n, nt int64
		for i := 0; i < c18N; i++ {
			for j := 0; j < c18N; j++ {
				if (i*c18N+j)%c.NBlocks != c.Block {
					continue
				}
				m.binary(i, j)
				n++
				if i > 2 || j > 2 {
					nt++
				}
			}
		}
		c.Evals(n)
		c.SeenEnum(nt)
	}
	idx += 100
	// variadic
	if c.Begin(idx + c.Block) {
		L := c.Pick(3, 4)
		var lists [][]int
		var gen func(cur []int)
		gen = func(cur []int) {
			lists = append(lists, append([]int(nil), cur...))
			if len(cur) == L {
				return
			}
			for e := 0; e < c18U; e++ {
				gen(append(cur, e))
			}
		}
		gen(nil)
		var n int64
		for i := 0; i < c18N; i++ {
			for li, ts := range lists {
				if (i*len(lists)+li)%c.NBlocks != c.Block {
					continue
				}
				m.variadic(i, ts)
				n++
			}
		}
		c.Evals(n)
		c.SeenEnum(n)
	}
	idx += 100
	// unary
	if c.Begin(idx + c.Block) {
		for i := c.Block; i < c18N; i += c.NBlocks {
			m.unary(i)
			c.SeenEnum(1)
		}
	}
	idx += 100
	// Intersect: 0..3 operands
	if c.Begin(idx + c.Block) {
		var n int64
		if c.Block == 0 {
			m.intersect(nil)
			for i := 0; i < c18N; i++ {
				m.intersect([]int{i})
				n++
			}
		}
		for i := 0; i < c18N; i++ {
			for j := 0; j < c18N; j++ {
				if (i*c18N+j)%c.NBlocks != c.Block {
					continue
				}
				m.intersect([]int{i, j})
				n++
				for k := 0; k < c18N; k++ {
					m.intersect([]int{i, j, k})
					n++
				}
			}
		}
		c.Evals(n)
		c.SeenEnum(n)
		if c.WantSample() {
			c.Sample(map[string]any{"call": "Intersect([0 2 3], nil, [2])", "result": fmt.Sprint(mapset.Intersect(mapset.New(0, 2, 3), nil, mapset.New(2)))})
			c.Sample(map[string]any{"call": "New(0,1).IsSubset(nil)", "result": mapset.New(0, 1).IsSubset(nil)})
		}
	}
	idx += 100
	// Intersect with many operands (4..12), Append into buffers with every amount of spare capacity
	if c.Begin(idx + c.Block) {
		r := c.Rng()
		var n int64
		for k := 0; k < c.Pick(400, 6000); k++ {
			ops := make([]int, 4+r.IntN(9))
			if k%3 == 2 {
				ops = make([]int, 13+r.IntN(28)) // 13..40 operands
			}
			base := 2 + r.IntN(1<<c18U)
			for i := range ops {
				switch r.IntN(6) {
				case 0:
					ops[i] = r.IntN(c18N)
				case 1:
					ops[i] = r.IntN(2) // nil or empty
				default:
					// supersets of a common base, so that the result is often non-empty
					ops[i] = 2 + int(uint(base-2)|uint(r.IntN(1<<c18U)))
				}
			}
			if r.IntN(3) == 0 {
				// make exactly one late operand lack an element the others share
				ops[len(ops)-1-r.IntN(min(3, len(ops)))] = 2 + int(uint(base-2)&^(1<<uint(r.IntN(c18U))))
			}
			m.intersect(ops)
			n++
		}
		c.Add("intersect_many_operands", n)
		// two different operands tied for the smallest size, each lacking one
		// element that all the others have, at every pair of positions among
		// 2..24 operands (the rest are the full universe, or one element short of it)
		full := uint(1<<c18U - 1)
		var nt int64
		for cnt := 2 + c.Block%2; cnt <= 24; cnt += 2 {
			for i := 0; i < cnt; i++ {
				for j := 0; j < cnt; j++ {
					if i == j {
						continue
					}
					ops := make([]int, cnt)
					rest := full
					if (i+j)%3 == 0 {
						rest = full &^ 1 // the others are as small as the two
					}
					for k := range ops {
						ops[k] = 2 + int(rest)
					}
					ops[i] = 2 + int(full&^(1<<uint(1+(i+cnt)%(c18U-1))))
					ops[j] = 2 + int(full&^(1<<uint(1+(i+cnt+1+j%(c18U-2))%(c18U-1))))
					m.intersect(ops)
					nt++
				}
			}
		}
		c.Add("intersect_tied_smallest_operands", nt)
		for i := c.Block; i < c18N; i += c.NBlocks {
			s, sm := c18mk(i)
			for spare := 0; spare <= len(s)+6; spare++ {
				pre := make([]int, 2, 2+spare)
				pre[0], pre[1] = 77, 78
				backing := pre[:cap(pre)]
				for j := 2; j < len(backing); j++ {
					backing[j] = -9 // junk beyond the prefix must never show up in the result
				}
				got := s.Append(pre)
				c.Add("append_spare_capacity_cases", 1)
				n++
				ok := len(got) == 2+bitsOf(sm) && got[0] == 77 && got[1] == 78
				var gm uint
				for _, v := range got[min(2, len(got)):] {
					if v < 0 || v >= c18U || gm>>uint(v)&1 == 1 {
						ok = false
						break
					}
					gm |= 1 << uint(v)
				}
				if !ok || gm != sm {
					m.fail(map[string]any{"receiver": c18name(i), "prefix_len": 2, "spare_capacity": spare}, "Append(prefix) = %v, want the prefix [77 78] followed by each member exactly once", got)
				}
			}
		}
		c.Evals(n)
		c.SeenEnum(n)
	}
	idx += 100
	// histories over two sets
	nh := c.Pick(1500, 300000)
	for k := 0; k < nh; k++ {
		if !c.Begin(idx + k) {
			continue
		}
		r := c.Rng()
		var A, B mapset.Set[int]
		var am, bm uint
		if r.IntN(2) == 0 {
			A = mapset.New[int]()
		}
		if r.IntN(2) == 0 {
			B = mapset.New[int]()
		}
		var log opLog
		bad := false
		h := fw.NewH()
		// second handles: copies of the Set values, taken as soon as each set is
		// non-nil; a Set is a map, so they must show every later change
		var hA, hB mapset.Set[int]
		check := func() {
			if !sameAs(A, am) || !sameAs(B, bm) {
				c.Fail(map[string]any{"ops": log.list()}, "after %d ops: A=%v want %05b, B=%v want %05b", len(log.ops), A, am, B, bm)
				bad = true
			}
			if (hA != nil && !sameAs(hA, am)) || (hB != nil && !sameAs(hB, bm)) {
				c.Fail(map[string]any{"ops": log.list()}, "after %d ops: copies of the Set values made when the sets came into being show A=%v B=%v, the variables operated on A=%v B=%v", len(log.ops), hA, hB, A, B)
				bad = true
			}
			if hA == nil {
				hA = A
			}
			if hB == nil {
				hB = B
			}
		}
		steps := 10 + r.IntN(50)
		for s := 0; s < steps && !bad; s++ {
			// operate on A with B as argument, or the other way round
			X, Y, xm, ym, xn, yn := &A, &B, &am, &bm, "A", "B"
			if r.IntN(3) == 0 {
				X, Y, xm, ym, xn, yn = &B, &A, &bm, &am, "B", "A"
			}
			op := r.IntN(7)
			h.Int(op)
			switch op {
			case 0:
				ts := []int{r.IntN(c18U), r.IntN(c18U)}[:1+r.IntN(2)]
				log.add("%s.Add(%v)", xn, ts)
				X.Add(ts...)
				*xm |= listMask(ts)
			case 1:
				log.add("%s.AddAll(%s)", xn, yn)
				X.AddAll(*Y)
				*xm |= *ym
			case 2:
				ts := []int{r.IntN(c18U), r.IntN(c18U)}[:1+r.IntN(2)]
				log.add("%s.Remove(%v)", xn, ts)
				X.Remove(ts...)
				*xm &^= listMask(ts)
			case 3:
				log.add("%s.RemoveAll(%s)", xn, yn)
				X.RemoveAll(*Y)
				*xm &^= *ym
			case 4:
				log.add("%s.Pop()", xn)
				got := X.Pop()
				if *xm == 0 {
					if got != 0 {
						c.Fail(map[string]any{"ops": log.list()}, "Pop on an empty set returned %d", got)
						bad = true
					}
				} else if got < 0 || got >= c18U || *xm>>uint(got)&1 == 0 {
					c.Fail(map[string]any{"ops": log.list()}, "Pop returned %d which was not a member (mask %05b)", got, *xm)
					bad = true
				} else {
					*xm &^= 1 << uint(got)
				}
			case 5:
				if r.IntN(3) == 0 {
					log.add("%s.Clear()", xn)
					X.Clear()
					*xm = 0
				}
			case 6:
				log.add("%s = %s.Clone()", xn, yn)
				*X = Y.Clone()
				*xm = *ym
				if X == &A { // the variable now names another set: its second handle is taken anew
					hA = nil
				} else {
					hB = nil
				}
			}
			c.Step()
			c.Add("history_steps", 1)
			check()
		}
		h.U64(r.Uint64())
		c.Seen(h.Sum())
	}
	// every length 0..300 (and a few larger) of what is handed to Range, New, Add,
	// Remove, HasAll and of what Slice/Append return: duplicates included
	if c.Begin(1<<22 + 900000 + c.Block) {
		lens := []int{511, 512, 513, 999, 1000, 1001, 1023, 1024, 1025, 4096, 10000}
		for L := 0; L <= 300; L++ {
			lens = append(lens, L)
		}
		for li, L := range lens {
			if li%c.NBlocks != c.Block {
				continue
			}
			for _, distinct := range []int{L, max(1, L/3), 3} {
				items := make([]int, L)
				want := map[int]bool{}
				for i := range items {
					items[i] = (i * 7) % max(1, distinct)
					want[items[i]] = true
				}
				data := map[string]any{"values_yielded": L, "distinct_values": len(want)}
				same := func(s mapset.Set[int]) bool {
					if s == nil || len(s) != len(want) {
						return false
					}
					for k := range want {
						if !s.Has(k) {
							return false
						}
					}
					return true
				}
				if rg := mapset.Range(slices.Values(items)); !same(rg) {
					c.Fail(data, "Range over %d values: set of %d elements (nil=%v), want %d", L, len(rg), rg == nil, len(want))
					return
				}
				n := mapset.New(items...)
				var viaAdd mapset.Set[int]
				viaAdd.Add(items...)
				if !same(n) || (L > 0 && !same(viaAdd)) || !n.HasAll(items...) || (L > 0 && !n.HasAny(items...)) {
					c.Fail(data, "New/Add/HasAll with %d items: sets of %d / %d elements, want %d", L, len(n), len(viaAdd), len(want))
					return
				}
				if sl, ap := n.Slice(), n.Append(make([]int, 1, 3)); len(sl) != len(want) || len(ap) != len(want)+1 {
					c.Fail(data, "Slice/Append of a set of %d elements have %d / %d elements", len(want), len(sl), len(ap)-1)
					return
				}
				n.Remove(items...)
				if len(n) != 0 {
					c.Fail(data, "Remove of all %d items leaves %d elements", L, len(n))
					return
				}
			}
			c.Step()
		}
		c.Add("length_sweep_cases", 1)
	}
	// large sets in every size relation and with every amount of overlap
	for k := 0; k < c.Pick(400, 6000); k++ {
		if !c.Begin(1<<22 + k) {
			continue
		}
		r := c.Rng()
		ok, pv, stack := fw.Try(func() { c18large(c, r) })
		if !ok {
			c.FailKind("panic", map[string]any{"phase": "large sets"}, "panic: %v\n%s", pv, stack)
		}
	}
}

// c18large: the same operations on sets of tens to thousands of elements, in
// every size relation (receiver much smaller / equal / much larger than the
// argument) and with every amount of overlap (0, 1, 31..34, 63..66, half, all),
// against Go maps as reference.
func c18large(c *fw.Ctx, r *rand.Rand) {
	ovs := []int{0, 1, 2, 7, 8, 9, 15, 16, 17, 31, 32, 33, 34, 63, 64, 65, 66, 100, 127, 128, 129, 255, 256, 257, 1000}
	shared := ovs[r.IntN(len(ovs))]
	onlyS := []int{0, 1, 3, 40, 300, 3000}[r.IntN(6)]
	onlyT := []int{0, 1, 3, 40, 300, 3000}[r.IntN(6)]
	base := r.IntN(1000) - 500
	mk := func() (mapset.Set[int], mapset.Set[int], map[int]bool, map[int]bool) {
		s, t := mapset.New[int](), mapset.New[int]()
		rs, rt := map[int]bool{}, map[int]bool{}
		for i := 0; i < shared; i++ {
			v := base + 3*i
			s.Add(v)
			t.Add(v)
			rs[v], rt[v] = true, true
		}
		for i := 0; i < onlyS; i++ {
			v := base + 3*i + 1
			s.Add(v)
			rs[v] = true
		}
		for i := 0; i < onlyT; i++ {
			v := base + 3*i + 2
			t.Add(v)
			rt[v] = true
		}
		return s, t, rs, rt
	}
	same := func(s mapset.Set[int], ref map[int]bool) bool {
		if len(s) != len(ref) {
			return false
		}
		for k := range ref {
			if !s.Has(k) {
				return false
			}
		}
		return true
	}
	data := map[string]any{"shared_elements": shared, "only_in_receiver": onlyS, "only_in_argument": onlyT}
	fail := func(format string, args ...any) { c.Fail(data, format, args...) }
	s, t, rs, rt := mk()
	if got, want := s.Intersects(t), shared > 0; got != want {
		fail("Intersects = %v want %v", got, want)
		return
	}
	if got, want := s.IsSubset(t), onlyS == 0; got != want {
		fail("IsSubset = %v want %v", got, want)
		return
	}
	if got, want := s.Equals(t), onlyS == 0 && onlyT == 0; got != want {
		fail("Equals = %v want %v", got, want)
		return
	}
	if !same(s, rs) || !same(t, rt) {
		fail("a predicate modified an operand")
		return
	}
	// RemoveAll in both directions
	{
		a, b, ra, _ := mk()
		ret := a.RemoveAll(b)
		want := map[int]bool{}
		for k := range ra {
			if !rt[k] {
				want[k] = true
			}
		}
		if !same(a, want) || !same(ret, want) || !same(b, rt) {
			fail("RemoveAll: receiver has %d elements, returned set %d, want the difference of %d elements (argument afterwards %d, was %d)", len(a), len(ret), len(want), len(b), len(rt))
			return
		}
		a2, b2, _, _ := mk()
		ret2 := b2.RemoveAll(a2)
		want2 := map[int]bool{}
		for k := range rt {
			if !rs[k] {
				want2[k] = true
			}
		}
		if !same(b2, want2) || !same(ret2, want2) || !same(a2, rs) {
			fail("RemoveAll (argument and receiver exchanged): receiver has %d elements, want %d", len(b2), len(want2))
			return
		}
	}
	// AddAll, Remove/Add/HasAll/HasAny with long argument lists
	{
		a, b, _, _ := mk()
		a.AddAll(b)
		if len(a) != shared+onlyS+onlyT || !same(b, rt) {
			fail("AddAll: union has %d elements, want %d", len(a), shared+onlyS+onlyT)
			return
		}
		a3, b3, _, _ := mk()
		items := b3.Slice()
		if got, want := a3.HasAll(items...), onlyT == 0; got != want {
			fail("HasAll(all %d elements of the argument) = %v want %v", len(items), got, want)
			return
		}
		if got, want := a3.HasAny(items...), shared > 0; got != want {
			fail("HasAny(all %d elements of the argument) = %v want %v", len(items), got, want)
			return
		}
		a3.Remove(items...)
		if len(a3) != onlyS {
			fail("Remove(all %d elements of the argument): %d elements left, want %d", len(items), len(a3), onlyS)
			return
		}
		a3.Add(items...)
		if len(a3) != onlyS+len(items) {
			fail("Add(%d items): %d elements, want %d", len(items), len(a3), onlyS+len(items))
			return
		}
	}
	// Intersect of two and three operands, Clone, Slice/Append
	{
		a, b, _, _ := mk()
		in := mapset.Intersect(a, b)
		in3 := mapset.Intersect(b, a, b.Clone())
		if len(in) != shared || len(in3) != shared || !in.IsSubset(a) || !in.IsSubset(b) || !in3.Equals(in) {
			fail("Intersect has %d / %d elements, want %d", len(in), len(in3), shared)
			return
		}
		if sl := a.Slice(); len(sl) > 0 {
			for i := range sl {
				sl[i] = -12345 // the caller owns the slice
			}
			if !same(a, rs) {
				fail("overwriting the slice returned by Slice changed the set")
				return
			}
		}
		cl := a.Clone()
		if !same(cl, rs) || len(a.Slice()) != len(rs) || len(a.Append(make([]int, 2, 5))) != len(rs)+2 {
			fail("Clone/Slice/Append of a set of %d elements have %d / %d / %d elements", len(rs), len(cl), len(a.Slice()), len(a.Append(make([]int, 2, 5)))-2)
			return
		}
	}
	c.Add("large_set_cases", 1)
	c.Step()
}
