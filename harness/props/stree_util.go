//go:build pC01 || pC02 || pC03 || pC04 || pall

package props

import (
	"fmt"
	"math"
	"math/rand/v2"
	"sort"

	"github.com/creachadair/mds/stree"
)

// Helpers shared by the stree/omap monitors.

// shapeNode describes one node of a tree as seen through the public cursor API.
type shapeNode struct {
	E      Elem
	Depth  int // edges below the root
	Parent int // index (in-order) of the parent node, -1 for the root
	Kids   int // number of children
	L, R   int // in-order indices of the left and right child, -1 if none (filled by linkShape)
}

// linkShape fills the L and R fields from the Parent fields.
func linkShape(nodes []shapeNode) {
	for i := range nodes {
		nodes[i].L, nodes[i].R = -1, -1
	}
	for i, n := range nodes {
		if n.Parent >= 0 {
			if i < n.Parent {
				nodes[n.Parent].L = i
			} else {
				nodes[n.Parent].R = i
			}
		}
	}
}

// treeShape walks t through Root/HasLeft/Left/HasRight/Right/Up with a single
// cursor and returns the nodes in in-order, with depths and parents.
func treeShape[T any](t *stree.Tree[T], conv func(T) Elem) (nodes []shapeNode, maxDepth int) {
	c := t.Root()
	if !c.Valid() {
		return nil, -1
	}
	var rec func(depth, parent int) int
	rec = func(depth, parent int) int {
		if depth > maxDepth {
			maxDepth = depth
		}
		hasL, hasR := c.HasLeft(), c.HasRight()
		// Reserve the in-order slot after the left subtree.
		leftRoot := -1
		if hasL {
			c.Left()
			leftRoot = rec(depth+1, -2) // parent fixed up below
			c.Up()
		}
		me := len(nodes)
		kids := 0
		if hasL {
			kids++
		}
		if hasR {
			kids++
		}
		nodes = append(nodes, shapeNode{E: conv(c.Key()), Depth: depth, Parent: parent, Kids: kids})
		if leftRoot >= 0 {
			nodes[leftRoot].Parent = me
		}
		if hasR {
			c.Right()
			rec(depth+1, me)
			c.Up()
		}
		return me
	}
	rec(0, -1)
	return nodes, maxDepth
}

func identElem(e Elem) Elem { return e }

// parentMap returns class(key) -> class(parent key) (or -1<<62 for the root).
func parentMap(nodes []shapeNode, class func(int) int) map[int]int {
	m := make(map[int]int, len(nodes))
	for _, n := range nodes {
		p := math.MinInt >> 1
		if n.Parent >= 0 {
			p = class(nodes[n.Parent].E.Key)
		}
		m[class(n.E.Key)] = p
	}
	return m
}

// parentChanges counts keys present in both maps whose parent differs.
func parentChanges(before, after map[int]int) int {
	n := 0
	for k, p := range before {
		if q, ok := after[k]; ok && q != p {
			n++
		}
	}
	return n
}

func floorLog2(n int) int {
	d := -1
	for n > 0 {
		n >>= 1
		d++
	}
	return d
}

// refSet is a reference sorted set of Elem under a comparator that looks at
// Key/div only.
type refSet struct {
	div  int
	wide int // if > 0 the comparator returns wide*(difference) instead of -1/0/+1
	es   []Elem
}

func (r *refSet) class(k int) int {
	if r.div <= 1 {
		return k
	}
	return floorDiv(k, r.div)
}

func floorDiv(a, b int) int {
	q := a / b
	if (a%b != 0) && ((a < 0) != (b < 0)) {
		q--
	}
	return q
}

func (r *refSet) cmp(a, b Elem) int {
	x, y := r.class(a.Key), r.class(b.Key)
	if r.wide > 0 {
		return r.wide * (x - y)
	}
	switch {
	case x < y:
		return -1
	case x > y:
		return 1
	}
	return 0
}

// find returns the position of the class of key k and whether it is present.
func (r *refSet) find(k int) (int, bool) {
	c := r.class(k)
	i := sort.Search(len(r.es), func(i int) bool { return r.class(r.es[i].Key) >= c })
	return i, i < len(r.es) && r.class(r.es[i].Key) == c
}

func (r *refSet) add(e Elem) bool {
	i, ok := r.find(e.Key)
	if ok {
		return false
	}
	r.es = append(r.es, Elem{})
	copy(r.es[i+1:], r.es[i:])
	r.es[i] = e
	return true
}

func (r *refSet) replace(e Elem) bool {
	i, ok := r.find(e.Key)
	if ok {
		r.es[i] = e
		return false
	}
	r.es = append(r.es, Elem{})
	copy(r.es[i+1:], r.es[i:])
	r.es[i] = e
	return true
}

func (r *refSet) remove(k int) bool {
	i, ok := r.find(k)
	if !ok {
		return false
	}
	r.es = append(r.es[:i], r.es[i+1:]...)
	return true
}

func (r *refSet) clone() *refSet {
	return &refSet{div: r.div, wide: r.wide, es: append([]Elem(nil), r.es...)}
}

// rebuildAtSize forces the delete-side whole-tree rebuild to run at exactly
// size s: a tree bulk-built from n keys (beta chosen so that the rebuild
// threshold is max/2 or max/4) is drained from one end until Len drops below
// the threshold. It returns the tree, the remaining keys (ascending) and
// whether Len/Remove results were as expected on the way.
func rebuildAtSize(s, beta int, fromLow bool, step func()) (t *stree.Tree[Elem], remaining []int, problem string) {
	// threshold bw = (max*beta + 1000) / 2000; choose n so that the first size below bw is s
	n := 0
	for cand := s + 1; cand <= 8*s+16; cand++ {
		if bw := (cand*beta + 1000) / 2000; bw == s+1 {
			n = cand
			break
		}
	}
	if n == 0 {
		return nil, nil, ""
	}
	keys := make([]Elem, n)
	for i := range keys {
		keys[i] = Elem{Key: 2 * i, Tag: i + 1}
	}
	t = stree.New(beta, cmpElem, keys...)
	lo, hi := 0, n
	for t.Len() > s {
		k := 2 * lo
		if !fromLow {
			k = 2 * (hi - 1)
		}
		if !t.Remove(Elem{Key: k}) {
			return t, nil, "Remove of a present key reports false"
		}
		if fromLow {
			lo++
		} else {
			hi--
		}
		if t.Len() != hi-lo {
			return t, nil, "Len after Remove is wrong"
		}
		step()
	}
	for i := lo; i < hi; i++ {
		remaining = append(remaining, 2*i)
	}
	return t, remaining, ""
}

// rebuildSizes returns the sizes at which the rebuild sweep runs: every size up
// to small, and a window around every power of two up to 2^maxPow.
func rebuildSizes(small, maxPow int) []int {
	seen := map[int]bool{}
	var out []int
	add := func(s int) {
		if s >= 1 && !seen[s] {
			seen[s] = true
			out = append(out, s)
		}
	}
	for s := 1; s <= small; s++ {
		add(s)
	}
	for k := 1; k <= maxPow; k++ {
		for d := -3; d <= 3; d++ {
			add(1<<k + d)
		}
	}
	return out
}

// cloneWorkers: a prototype tree is cloned once per goroutine and every
// goroutine then works on its own clone only (as the documentation allows).
// Each goroutine checks its own tree against its own reference: results of
// Add/Replace/Remove, contents, and (checkDepth) the scapegoat depth bound.
// Returns the first problem.
func cloneWorkers(beta int, seed uint64, nInit int, checkDepth bool, step func()) string {
	cmp := cmpElem
	if seed%3 == 0 {
		cmp = cmpElemWide
	}
	proto := stree.New(beta, cmp)
	base := map[int]bool{}
	pr := rand.New(rand.NewPCG(seed, 99))
	for i := 0; i < nInit; i++ {
		k := pr.IntN(4 * (nInit + 1))
		if proto.Add(Elem{Key: k, Tag: i + 1}) {
			base[k] = true
		}
	}
	return concurrently(8, seed, func(g int, r *rand.Rand) string {
		t := proto.Clone()
		keys := make(map[int]bool, len(base))
		for k := range base {
			keys[k] = true
		}
		P := len(keys)
		span := 200 + 40*g
		// goroutines grow to different sizes, so that their depth limits differ
		target := []int{20, 60, 200, 700, 2000, 50, 400, 1200}[g]
		for i := 0; i < 1500; i++ {
			k := r.IntN(span + 4*target)
			if g%2 == 1 {
				k = i // sorted inserts: the adversarial order
			}
			var got, want bool
			switch {
			case len(keys) < target || r.IntN(3) > 0:
				got, want = t.Add(Elem{Key: k, Tag: i}), !keys[k]
				keys[k] = true
			default:
				got, want = t.Remove(Elem{Key: k}), keys[k]
				delete(keys, k)
			}
			if got != want {
				return fmt.Sprintf("goroutine %d (own clone): operation on key %d returned %v, its own reference says %v", g, k, got, want)
			}
			if len(keys) == 0 {
				P = 0
			} else if len(keys) > P {
				P = len(keys)
			}
			step()
			if t.Len() != len(keys) {
				return fmt.Sprintf("goroutine %d (own clone): Len=%d, own reference has %d keys", g, t.Len(), len(keys))
			}
			if i%97 == 0 || i == 1499 {
				n := 0
				prev, first, bad := 0, true, ""
				t.Inorder(func(e Elem) bool {
					if !keys[e.Key] || (!first && e.Key <= prev) {
						bad = fmt.Sprintf("goroutine %d (own clone): Inorder yields %d which is absent or out of order", g, e.Key)
						return false
					}
					prev, first = e.Key, false
					n++
					return true
				})
				if bad != "" {
					return bad
				}
				if n != len(keys) {
					return fmt.Sprintf("goroutine %d (own clone): Inorder yields %d keys, own reference has %d", g, n, len(keys))
				}
			}
			if checkDepth && beta < 1000 && P > 0 && (i%16 == 0 || g%2 == 1) {
				_, d := treeShape(t, identElem)
				bound := math.Log(float64(P))/math.Log(2000.0/(1000.0+float64(beta))) + 1 + 1e-9
				if float64(d) > bound {
					return fmt.Sprintf("goroutine %d (own clone of a shared prototype, beta=%d): depth %d exceeds bound %.4f (P=%d, Len=%d)", g, beta, d, bound, P, len(keys))
				}
			}
		}
		return ""
	})
}

// sharedTreeReaders: one tree, no writer, eight goroutines that only read it
// (Get, Min, Max, Len, Inorder, InorderAfter, Cursor with Next/Prev/Inorder) and
// verify what they read against the key set. Reading is all they do, so the
// race detector must stay silent and every result must be right.
func sharedTreeReaders(beta int, seed uint64, n int, step func()) string {
	t := stree.New(beta, cmpElem)
	pr := rand.New(rand.NewPCG(seed, 7))
	present := map[int]int{} // key -> tag
	for i := 0; i < n; i++ {
		k := pr.IntN(3*n+1) * 2
		if t.Add(Elem{Key: k, Tag: i + 1}) {
			present[k] = i + 1
		}
	}
	// some removals, so that the shape is not a pure insertion shape
	for k := range present {
		if pr.IntN(5) == 0 {
			t.Remove(Elem{Key: k})
			delete(present, k)
		}
	}
	keys := make([]int, 0, len(present))
	for k := range present {
		keys = append(keys, k)
	}
	sort.Ints(keys)
	if len(keys) == 0 {
		return ""
	}
	return concurrently(8, seed, func(g int, r *rand.Rand) string {
		for it := 0; it < 300; it++ {
			i := r.IntN(len(keys))
			k := keys[i]
			switch r.IntN(6) {
			case 0:
				e, ok := t.Get(Elem{Key: k})
				if !ok || e.Tag != present[k] {
					return fmt.Sprintf("goroutine %d (readers only): Get(%d)=(%v,%v), want tag %d", g, k, e, ok, present[k])
				}
				if _, ok := t.Get(Elem{Key: k + 1}); ok {
					return fmt.Sprintf("goroutine %d (readers only): Get(%d) finds an absent key", g, k+1)
				}
			case 1:
				if t.Len() != len(keys) || t.Min().Key != keys[0] || t.Max().Key != keys[len(keys)-1] {
					return fmt.Sprintf("goroutine %d (readers only): Len/Min/Max = %d/%d/%d, want %d/%d/%d", g, t.Len(), t.Min().Key, t.Max().Key, len(keys), keys[0], keys[len(keys)-1])
				}
			case 2:
				j := 0
				okAll := true
				t.Inorder(func(e Elem) bool {
					if j >= len(keys) || e.Key != keys[j] {
						okAll = false
						return false
					}
					j++
					return true
				})
				if !okAll || j != len(keys) {
					return fmt.Sprintf("goroutine %d (readers only): Inorder lists %d keys correctly of %d", g, j, len(keys))
				}
			case 3:
				j := i
				for e := range t.InorderAfter(Elem{Key: k}) {
					if j >= len(keys) || e.Key != keys[j] {
						return fmt.Sprintf("goroutine %d (readers only): InorderAfter(%d) yields %d at position %d", g, k, e.Key, j-i)
					}
					if j++; j > i+20 {
						break
					}
				}
			default:
				cu := t.Cursor(Elem{Key: k})
				if !cu.Valid() || cu.Key().Key != k {
					return fmt.Sprintf("goroutine %d (readers only): Cursor(%d) valid=%v key=%v", g, k, cu.Valid(), cu.Key())
				}
				for d := 1; d <= 8; d++ {
					cu.Next()
					if i+d >= len(keys) {
						if cu.Valid() {
							return fmt.Sprintf("goroutine %d (readers only): Cursor(%d) then %d x Next is still valid at %v", g, k, d, cu.Key())
						}
						break
					}
					if !cu.Valid() || cu.Key().Key != keys[i+d] {
						return fmt.Sprintf("goroutine %d (readers only): Cursor(%d) then %d x Next is at %v (valid=%v), want %d", g, k, d, cu.Key(), cu.Valid(), keys[i+d])
					}
				}
				if ac := t.Cursor(Elem{Key: k + 1}); ac.Valid() {
					return fmt.Sprintf("goroutine %d (readers only): Cursor(%d) of an absent key is valid", g, k+1)
				}
			}
			step()
		}
		return ""
	})
}
