//go:build pC16 || pall

package props

import (
	"errors"
	"fmt"
	"io"
	"math/rand/v2"
	"runtime"
	"strconv"
	"strings"
	"sync"
	"time"

	"github.com/creachadair/mds/shell"
	"verif/harness/fw"
)

// C16 — shell.Split/Scanner tokenize by POSIX quoting rules, independent of
// chunking. Oracle: an independent, directly coded tokenizer (no table) that
// also reports the input offset consumed after each token and which
// (state, byte class) situations it met; dash and bash +B on the inputs the
// statement covers.

func init() {
	fw.Register(&fw.Property{
		ID: "C16",
		Meta: func(tier string) fw.Meta {
			return fw.Meta{
				Flavours: []string{"plain", "race", "cover", "386"},
				Blocks:   16,
				Procs:    16,
				Rule: "case = one input byte string. Exhaustive: every string of length <= 7 (<= 9 thorough) over 7 bytes: one representative per tokenizer class (blank, newline, backslash, single quote, double quote) and two 'other' bytes; plus a position sweep (one byte of every value at every offset of otherwise plain text of every length 1..40 and around 64/128; pairs of special bytes at every two offsets), every single byte 0..255 in five contexts (classification of all byte values), inputs of 4090..65537 bytes whose tokens and quoted spans cross buffer boundaries, and random inputs up to 200 bytes over a wider alphabet (tab, CR, VT, FF, NBSP, $, `, #, non-ASCII). " +
					"Per input: Split's fields and completeness flag vs the reference; Scanner over a one-byte-at-a-time reader and over fixed and random fragmentations, including readers that return the last bytes together with io.EOF and readers that sometimes return (0, nil) (Next/Text, Complete after the last token, Next stays false and Err stays io.EOF afterwards); Each with early stop; Scanner.Split; Rest called after the k-th token for every k must yield exactly input[offset_k:] (also when Rest is asked for twice, a few bytes read through the first reader and the remainder through the second) and Next must then stay false; every rune U+0080..U+FFFF (and a stride of the other planes) at the start of the input and in every quoting context, plus byte-order marks, '#!', CR LF and escape sequences; a reader that fails with a non-EOF error must surface through Err; remainders from Rest kept unread while their scanners are dropped, garbage collections are forced and new scanners are created and used, then read and compared. Complete inputs without other metacharacters and without unquoted newlines are also split by dash and 'bash +B' (length <= 6 exhaustive). Reset reuse and the pooled Split run concurrently under -race. " +
					"Tokens handed out by Text() before Rest() are kept and compared with copies made at once, after Rest, Reset and further scanning on the same scanner. " +
					"Lockstep readers (the other end of a prompt-and-response exchange, which sends its next piece only after the caller has received every token completed by the pieces sent so far): a Read issued while such a token is still withheld would never return there, and is reported. " +
					"distinct = the input (enumerated); non-trivial = it contains a quote or backslash",
				Required:     []string{"inputs", "state_class_pairs_covered_of_42", "scanner_fragmentations", "rest_calls", "shell_inputs_dash", "shell_inputs_bash", "incomplete_inputs", "all_byte_values", "concurrent_splits", "long_inputs", "rest_after_reset", "rest_asked_twice", "rune_sweep_inputs", "position_sweep_inputs", "rest_readers_kept_across_gc", "reset_after_rest", "reset_onto_own_rest", "huge_inputs_one_byte_reads", "lockstep_reader_scans", "tokens_kept_across_rest_and_reset"},
				Exhaustive:   true,
				Assumptions:  []string{"reference tokenizer written from XCU 2.2 with the package's documented deviation: inside double quotes a backslash escapes only the double quote, backslash and newline; $ and ` are ordinary bytes", "dash and bash (+B, LC_ALL=C) as installed"},
				CoverPkgs:    []string{"github.com/creachadair/mds/shell"},
				CoverAnchors: []string{"shell/shell.go"},
			}
		},
		Run: runC16,
	})
}

type refTok struct {
	Text string
	End  int // offset just past the last input byte consumed when the token was delivered
}

// Situations are numbered state*6+class with states in the order
// between-words, after-backslash-between-words, in-word, after-backslash-in-word,
// single-quoted, double-quoted, after-backslash-in-double-quotes and classes
// other, blank, newline, backslash, single quote, double quote.
const (
	rsBreak = iota
	rsBreakQ
	rsWord
	rsWordQ
	rsSingle
	rsDouble
	rsDoubleQ
)

func refClass(b byte) int {
	switch b {
	case ' ', '\t':
		return 1
	case '\n':
		return 2
	case '\\':
		return 3
	case '\'':
		return 4
	case '"':
		return 5
	}
	return 0
}

// refSplit is the reference tokenizer. seen, if non-nil, records situations.
func refSplit(in string, seen *[42]bool) (toks []refTok, complete bool) {
	toks, complete, _ = refSplitOpen(in, seen)
	return toks, complete
}

// refSplitOpen also reports whether the last token was ended by the end of
// the input rather than by a blank or newline.
func refSplitOpen(in string, seen *[42]bool) (toks []refTok, complete, open bool) {
	var cur []byte
	inWord := false // a token has been started (possibly still empty, e.g. '')
	st := rsBreak
	mark := func(b byte) {
		if seen != nil {
			seen[st*6+refClass(b)] = true
		}
	}
	for i := 0; i < len(in); i++ {
		b := in[i]
		mark(b)
		switch st {
		case rsBreak:
			switch b {
			case ' ', '\t', '\n':
			case '\\':
				st = rsBreakQ
			case '\'':
				st, inWord = rsSingle, true
			case '"':
				st, inWord = rsDouble, true
			default:
				cur = append(cur, b)
				st, inWord = rsWord, true
			}
		case rsBreakQ:
			if b == '\n' { // line continuation between words
				st = rsBreak
			} else {
				cur = append(cur, b)
				st, inWord = rsWord, true
			}
		case rsWord:
			switch b {
			case ' ', '\t', '\n':
				toks = append(toks, refTok{string(cur), i + 1})
				cur, inWord, st = cur[:0], false, rsBreak
			case '\\':
				st = rsWordQ
			case '\'':
				st = rsSingle
			case '"':
				st = rsDouble
			default:
				cur = append(cur, b)
			}
		case rsWordQ:
			if b != '\n' { // backslash-newline inside a word disappears
				cur = append(cur, b)
			}
			st = rsWord
		case rsSingle:
			if b == '\'' {
				st = rsWord
			} else {
				cur = append(cur, b)
			}
		case rsDouble:
			switch b {
			case '"':
				st = rsWord
			case '\\':
				st = rsDoubleQ
			default:
				cur = append(cur, b)
			}
		case rsDoubleQ:
			switch b {
			case '"', '\\':
				cur = append(cur, b)
			case '\n':
			default:
				cur = append(cur, '\\', b)
			}
			st = rsDouble
		}
	}
	_ = inWord
	if st != rsBreak {
		toks = append(toks, refTok{string(cur), len(in)})
	}
	return toks, st == rsBreak || st == rsWord, st != rsBreak
}

func refTexts(ts []refTok) []string {
	out := make([]string, len(ts))
	for i, t := range ts {
		out[i] = t.Text
	}
	return out
}

// lockstepReader is the other end of a prompt-and-response exchange: it
// delivers its data in pieces, and sends the next piece only once its peer has
// acted on everything sent so far. The scanner's caller is that peer; it acts
// on tokens. A Read that arrives while tokens that are already complete in
// the delivered bytes (their closing blank or newline has been delivered) have
// not been handed to the caller would never return in such an exchange; the
// reader notes that instead of blocking, and carries on.
type lockstepReader struct {
	data      string
	sizes     []int
	k         int
	delivered int
	det       int   // tokens completed by the delivered bytes
	ends      []int // for each token closed by a blank or newline: the offset just after that byte
	got       *int  // tokens the caller has received
	stuck     string
}

func (r *lockstepReader) Read(p []byte) (int, error) {
	for r.det < len(r.ends) && r.ends[r.det] <= r.delivered {
		r.det++
	}
	det := r.det
	if *r.got < det && r.stuck == "" {
		r.stuck = fmt.Sprintf("after %d bytes had been delivered (%d complete tokens among them) and the caller had been given %d tokens, the scanner asked its reader for more", r.delivered, det, *r.got)
	}
	if r.delivered == len(r.data) {
		return 0, io.EOF
	}
	n := r.sizes[r.k%len(r.sizes)]
	r.k++
	n = min(n, len(p), len(r.data)-r.delivered)
	copy(p, r.data[r.delivered:r.delivered+n])
	r.delivered += n
	return n, nil
}

// chunkReader delivers its data in pieces of the given sizes (cyclically).
type chunkReader struct {
	data    string
	sizes   []int // a size of 0 makes that call return (0, nil), which io.Reader permits
	k       int
	fail    error // returned instead of io.EOF when the data is exhausted, if non-nil
	dataEOF bool  // return the final bytes together with the error, as io.Reader permits
}

func (r *chunkReader) Read(p []byte) (int, error) {
	if len(r.data) == 0 {
		if r.fail != nil {
			return 0, r.fail
		}
		return 0, io.EOF
	}
	n := r.sizes[r.k%len(r.sizes)]
	r.k++
	n = min(n, len(p), len(r.data))
	copy(p, r.data[:n])
	r.data = r.data[n:]
	if r.dataEOF && len(r.data) == 0 && n > 0 {
		if r.fail != nil {
			return n, r.fail
		}
		return n, io.EOF
	}
	return n, nil
}

type c16mon struct {
	c      *fw.Ctx
	seen   [42]bool
	sc     *shell.Scanner // reused through Reset
	sc2    *shell.Scanner // reused through Reset, for the Rest checks
	shIn   []string
	shWant [][]string
}

func (m *c16mon) check(in string, r *rand.Rand, deep bool) bool {
	c := m.c
	data := map[string]any{"input": fw.Q(in)}
	want, wantComplete := refSplit(in, &m.seen)
	wantTexts := refTexts(want)
	data["reference_tokens"] = fw.Qs(wantTexts)
	data["reference_complete"] = wantComplete
	ok, pv, stack := fw.Try(func() {
		got, complete := shell.Split(in)
		c.Step()
		if !equalStrings(got, wantTexts) || complete != wantComplete {
			c.Fail(data, "Split = %q complete=%v, reference = %q complete=%v", got, complete, wantTexts, wantComplete)
			ok2 := false
			_ = ok2
			panic(errStop)
		}
		if !deep {
			return
		}
		// Scanner over fragmenting readers
		frags := [][]int{{1}, {2}, {1, 3}, {7}, {4096}, {1, 0, 2, 0, 0}, {3, 0}}
		if r != nil {
			frags = append(frags, []int{1 + r.IntN(5), 1 + r.IntN(3), 1 + r.IntN(9)})
		}
		for fi, sizes := range frags {
			var sc *shell.Scanner
			rd := &chunkReader{data: in, sizes: sizes, dataEOF: fi%3 == 1}
			if fi%2 == 0 {
				sc = shell.NewScanner(rd)
			} else {
				if m.sc == nil {
					m.sc = shell.NewScanner(strings.NewReader("stale 'left over"))
					m.sc.Next()
				}
				m.sc.Reset(rd)
				sc = m.sc
			}
			c.Add("scanner_fragmentations", 1)
			c.Step()
			var got []string
			for sc.Next() {
				got = append(got, sc.Text())
				if len(got) > len(want)+3 {
					break
				}
			}
			if !equalStrings(got, wantTexts) {
				c.Fail(data, "Scanner over a reader delivering %v bytes at a time yields %q, reference %q", sizes, got, wantTexts)
				panic(errStop)
			}
			if sc.Complete() != wantComplete {
				c.Fail(data, "Scanner.Complete() after the last token = %v, reference %v (fragments %v)", sc.Complete(), wantComplete, sizes)
				panic(errStop)
			}
			for k := 0; k < 3; k++ {
				if sc.Next() {
					c.Fail(data, "Next returned true again after the end of input (fragments %v)", sizes)
					panic(errStop)
				}
				if sc.Err() != io.EOF {
					c.Fail(data, "Err() after the end of input is %v, want io.EOF", sc.Err())
					panic(errStop)
				}
			}
		}
		// a reader that waits for its peer: every token must be handed over before more input is asked for
		{
			_, _, open := refSplitOpen(in, nil)
			var ends []int
			for i, t := range want {
				if i < len(want)-1 || !open {
					ends = append(ends, t.End)
				}
			}
			for li, sizes := range [][]int{{1}, {5, 2}, {4096}, {3, 64, 1}} {
				n := 0
				rd := &lockstepReader{data: in, sizes: sizes, ends: ends, got: &n}
				sc := shell.NewScanner(rd)
				var got []string
				for sc.Next() {
					got = append(got, sc.Text())
					n++
					if n > len(want)+3 {
						break
					}
				}
				c.Add("lockstep_reader_scans", 1)
				c.Step()
				if rd.stuck != "" {
					c.Fail(data, "Scanner over a reader that sends the next piece (%v bytes at a time) only after the caller has received every token completed so far: %s; in a prompt-and-response exchange that Read never returns and the tokens are never yielded", sizes, rd.stuck)
					panic(errStop)
				}
				if !equalStrings(got, wantTexts) {
					c.Fail(data, "Scanner over a lockstep reader (%v bytes at a time) yields %q, reference %q", sizes, got, wantTexts)
					panic(errStop)
				}
				_ = li
			}
		}
		// Scanner.Split and Each with early stop
		if got := shell.NewScanner(strings.NewReader(in)).Split(); !equalStrings(got, wantTexts) {
			c.Fail(data, "Scanner.Split = %q, reference %q", got, wantTexts)
			panic(errStop)
		}
		if len(want) > 0 {
			stop := len(in) % len(want)
			var got []string
			sc := shell.NewScanner(strings.NewReader(in))
			sc.Each(func(tok string) bool { got = append(got, tok); return len(got) <= stop })
			if !equalStrings(got, wantTexts[:stop+1]) {
				c.Fail(data, "Each with early stop after %d tokens saw %q", stop+1, got)
				panic(errStop)
			}
		}
		// Rest after the k-th token, for every k
		for k := 0; k <= len(want); k++ {
			if len(want) > 40 && k > 2 && k < len(want)-1 && k%(len(want)/6+1) != 0 {
				continue // long inputs: Rest after the first tokens, a few in the middle, the last ones
			}
			c.Step()
			sizes := []int{1}
			if k%2 == 1 {
				sizes = []int{3, 1, 4096}
			}
			var sc *shell.Scanner
			if k%3 == 2 {
				// a scanner that has been used before and is re-targeted with Reset
				if m.sc2 == nil {
					m.sc2 = shell.NewScanner(strings.NewReader("earlier 'input' that is"))
					m.sc2.Next()
				}
				m.sc2.Reset(&chunkReader{data: in, sizes: sizes})
				sc = m.sc2
				c.Add("rest_after_reset", 1)
			} else {
				sc = shell.NewScanner(&chunkReader{data: in, sizes: sizes})
			}
			// the tokens handed out before Rest are kept (the strings themselves,
			// and copies of their contents made at once) and compared at the end
			var keptTok, keptCopy []string
			for j := 0; j < k; j++ {
				if !sc.Next() {
					c.Fail(data, "Next false before token %d of %d", j+1, len(want))
					panic(errStop)
				}
				if j >= k-3 {
					t := sc.Text()
					keptTok, keptCopy = append(keptTok, t), append(keptCopy, strings.Clone(t))
				}
			}
			defer func(k int) {
				for j := range keptTok {
					if keptTok[j] != keptCopy[j] {
						c.Fail(data, "a token handed out by Text() before Rest() (%d tokens read) was %q then and reads %q after the later calls on the same scanner", k, keptCopy[j], keptTok[j])
						return
					}
				}
				c.Add("tokens_kept_across_rest_and_reset", int64(len(keptTok)))
			}(k)
			off := 0
			if k > 0 {
				off = want[k-1].End
			}
			var rest []byte
			var err error
			if k%4 == 1 {
				// Rest asked for twice: a few bytes are read through the first
				// reader, the remainder through the second
				first := make([]byte, k%7)
				n, _ := io.ReadFull(sc.Rest(), first)
				more, e := io.ReadAll(sc.Rest())
				rest, err = append(first[:n:n], more...), e
				c.Add("rest_asked_twice", 1)
			} else {
				rest, err = io.ReadAll(sc.Rest())
			}
			c.Add("rest_calls", 1)
			if err != nil || string(rest) != in[off:] {
				c.Fail(data, "Rest() after %d tokens returned %q (err %v), want the unconsumed input %q", k, rest, err, in[off:])
				panic(errStop)
			}
			if sc.Next() || sc.Text() != "" {
				c.Fail(data, "after Rest(), Next=true or Text=%q", sc.Text())
				panic(errStop)
			}
			if k%4 == 3 && off <= len(in) {
				// resume tokenizing after a raw section: a fresh scanner reads k
				// tokens, a few raw bytes are taken through Rest, and the scanner is
				// Reset onto its own Rest reader
				sc3 := shell.NewScanner(&chunkReader{data: in, sizes: sizes})
				for j := 0; j < k; j++ {
					sc3.Next()
				}
				rr := sc3.Rest()
				raw := make([]byte, min(k%5, len(in)-off))
				nr, _ := io.ReadFull(rr, raw)
				c.Call("shell.Scanner.Reset(its own Rest reader) then Next, input %q", in)
				sc3.Reset(rr)
				var got []string
				for sc3.Next() {
					got = append(got, sc3.Text())
				}
				wantT, wantC := refSplit(in[off+nr:], nil)
				if !equalStrings(got, refTexts(wantT)) || sc3.Complete() != wantC {
					c.Fail(data, "after %d tokens and %d raw bytes read through Rest, Reset(Rest reader) and scanning yields %q (complete=%v), the reference on the remaining input %q gives %q (%v)", k, nr, got, sc3.Complete(), in[off+nr:], refTexts(wantT), wantC)
					panic(errStop)
				}
				c.Add("reset_onto_own_rest", 1)
			}
			if k%4 == 2 {
				// the scanner re-targeted after Rest: a complete fresh scan
				sc.Reset(&chunkReader{data: "after 'the rest' \"a new\" input\\ x", sizes: []int{1 + k%5}})
				var got []string
				for sc.Next() {
					got = append(got, sc.Text())
				}
				if !equalStrings(got, []string{"after", "the rest", "a new", "input x"}) || !sc.Complete() || sc.Err() != io.EOF {
					c.Fail(data, "Reset after Rest(): the scanner yields %q (complete=%v err=%v) on the new input", got, sc.Complete(), sc.Err())
					panic(errStop)
				}
				c.Add("reset_after_rest", 1)
			}
		}
		// a failing reader surfaces through Err
		boom := errors.New("boom")
		sc := shell.NewScanner(&chunkReader{data: in, sizes: []int{2}, fail: boom})
		n := 0
		for sc.Next() {
			n++
			if n > len(want)+3 {
				break
			}
		}
		if sc.Err() != boom {
			c.Fail(data, "reader failed with a non-EOF error but Err() = %v", sc.Err())
			panic(errStop)
		}
	})
	if !ok && pv != errStop {
		c.FailKind("panic", data, "panic: %v\n%s", pv, stack)
	}
	if !wantComplete {
		c.Add("incomplete_inputs", 1)
	}
	return ok
}

var errStop = errors.New("stop")

// byte sequences that text tools treat specially (byte-order marks,
// interpreter line, CR LF, escape sequences, option-like words)
var c15magicTok = []string{"\xef\xbb\xbf", "\xef\xbb", "\xff\xfe", "\xfe\xff", "#!", "#!/bin/sh", "\r\n", "\n\r", "\x1b[0m", "--", "-", "-n", "\\\r\n", "\x7f", "\x01", "\x00", "\xc0\x80", "\xed\xa0\x80", "\xe2\x80\xa8", "\xc2\x85", "\xc2\xa0"}

// shellEligible: complete, no other metacharacters (by construction of the
// alphabet) and no unquoted newline according to the reference.
func shellEligible(in string) bool {
	if strings.IndexByte(in, 0) >= 0 {
		return false
	}
	_, complete := refSplit(in, nil)
	if !complete {
		return false
	}
	// find unquoted newlines by re-running the state machine
	st := rsBreak
	for i := 0; i < len(in); i++ {
		b := in[i]
		switch st {
		case rsBreak, rsWord:
			switch b {
			case '\n':
				return false
			case '\\':
				st += 1
			case '\'':
				st = rsSingle
			case '"':
				st = rsDouble
			case ' ', '\t':
				st = rsBreak
			default:
				st = rsWord
			}
		case rsBreakQ:
			if b == '\n' {
				st = rsBreak
			} else {
				st = rsWord
			}
		case rsWordQ:
			st = rsWord
		case rsSingle:
			if b == '\'' {
				st = rsWord
			}
		case rsDouble:
			if b == '"' {
				st = rsWord
			} else if b == '\\' {
				st = rsDoubleQ
			}
		case rsDoubleQ:
			st = rsDouble
		}
	}
	return true
}

func (m *c16mon) flushShell(rig *shellRig) {
	if len(m.shIn) == 0 {
		return
	}
	ins := m.shIn
	rig.compare(m.c, m.shIn, m.shWant, "shell_inputs", func(i int, sh string, got []string, diag string) {
		m.c.Fail(map[string]any{"input": fw.Q(ins[i]), "shell": sh}, "%s splits the input into %q (%s); Split's reference gives %q", sh, got, diag, m.shWant[i])
	})
	m.shIn, m.shWant = nil, nil
}

func runC16(c *fw.Ctx) {
	// before anything else in this process touches the package
	if c.Begin(1<<24 + c.Block) {
		if msg := shellFirstUse(); msg != "" {
			c.Fail(map[string]any{"phase": "first use of the shell package in a fresh process, from 16 goroutines at once"}, "%s", msg)
		}
		c.Add("first_use_from_many_goroutines", 1)
	}
	rig := newShellRig()
	defer rig.close()
	if c.Block == 0 && len(rig.shells) < 2 {
		c.Inconclusive("need dash (or /bin/sh) and bash; found %d shells", len(rig.shells))
	}
	m := &c16mon{c: c}
	alpha := []byte{'a', ' ', '\n', '\\', '\'', '"', 'b'}
	light := c.Flavour == "race"
	L := c.Pick(7, 9)
	if light {
		L = 5
	}
	idx := 0
	code := 0
	for length := 0; length <= L; length++ {
		cnt := 1
		for i := 0; i < length; i++ {
			cnt *= len(alpha)
		}
		const bundle = 4000
		for start := 0; start < cnt; start += bundle {
			code++
			if code%c.NBlocks != c.Block {
				continue
			}
			if !c.Begin(idx + code) {
				continue
			}
			var n, nt int64
			buf := make([]byte, length)
			for x := start; x < min(cnt, start+bundle); x++ {
				y := x
				for i := 0; i < length; i++ {
					buf[i] = alpha[y%len(alpha)]
					y /= len(alpha)
				}
				in := string(buf)
				// the scanner-level checks are heavier: all inputs up to length 5, every 9th beyond
				deep := length <= 5 || x%9 == 0
				m.check(in, nil, deep)
				n++
				if strings.ContainsAny(in, `\'"`) {
					nt++
				}
				if length <= 6 && !light && shellEligible(in) {
					w, _ := refSplit(in, nil)
					m.shIn = append(m.shIn, in)
					m.shWant = append(m.shWant, refTexts(w))
				}
				if c.WantSample() && length == 6 && x%20011 == 5 {
					w, cp := refSplit(in, nil)
					c.Sample(map[string]any{"input": fw.Q(in), "tokens": fw.Qs(refTexts(w)), "complete": cp})
				}
			}
			c.Evals(n - 1)
			c.Add("inputs", n)
			c.SeenEnum(nt)
			m.flushShell(rig)
			if c.Stopped() {
				return
			}
		}
	}
	idx += code + 1
	// every byte value in five contexts: classification of all 256 values
	if c.Block == 1%c.NBlocks && c.Begin(idx) {
		for b := 0; b < 256; b++ {
			ch := string([]byte{byte(b)})
			for _, in := range []string{ch, "a" + ch + "b", "'" + ch + "'x", "\"" + ch + "\"x", "\\" + ch, "\"\\" + ch + "\"", "a " + ch + " b"} {
				m.check(in, nil, true)
				// shells: printable ASCII, tab and newline only (bash reserves some control bytes internally)
				if (b >= 0x20 && b < 0x7f || b == '\t' || b == '\n') && strings.IndexByte("|&;<>()$`*?[#~=%!{}", byte(b)) < 0 && shellEligible(in) {
					w, _ := refSplit(in, nil)
					m.shIn = append(m.shIn, in)
					m.shWant = append(m.shWant, refTexts(w))
				}
			}
		}
		c.Add("all_byte_values", 256)
		c.Add("inputs", 256*7)
		c.Evals(256 * 7)
		m.flushShell(rig)
	}
	idx++
	// every rune of the Basic Multilingual Plane (and a stride of the other
	// planes) in every quoting context at once, first at the very start of the
	// input: a rune-specific rule anywhere changes the token list.
	if !light && c.Begin(idx+590000+c.Block) {
		var n int64
		for cp := 0x80 + c.Block; cp <= 0x10FFFF; cp += c.NBlocks {
			if cp >= 0xD800 && cp <= 0xDFFF {
				continue
			}
			if cp > 0xFFFF && (cp/c.NBlocks)%97 != 0 {
				continue
			}
			u := string(rune(cp))
			in := u + "c x\\" + u + " '" + u + "' \"" + u + "\" \"\\" + u + "\" a" + u + "b " + u
			m.check(in, nil, cp%64 == 0)
			n++
			if c.Stopped() {
				return
			}
		}
		for _, u := range c15magicTok {
			for _, in := range []string{u, u + "a b", "a " + u + " b", "'" + u + "' x", "\"" + u + "\" x"} {
				m.check(in, nil, true)
				n++
			}
		}
		c.Add("rune_sweep_inputs", n)
		c.Add("inputs", n)
		c.Evals(n)
		c.SeenEnum(n)
	}
	// position sweep: one byte of every value at every offset of otherwise plain
	// text of every length up to 40 (and around 64, 128), and pairs of the
	// tokenizer's special bytes at every two offsets up to length 22
	if !light && c.Begin(idx+595000+c.Block) {
		var n int64
		plain := "abcdefghijklmnopqrstuvwxyzABCDEFGHIJKLMNOPQRSTUVWXYZ"
		word := func(L int) []byte {
			w := make([]byte, L)
			for i := range w {
				w[i] = plain[i%len(plain)]
			}
			return w
		}
		lens := []int{63, 64, 65, 127, 128, 129}
		for L := 1; L <= 40; L++ {
			lens = append(lens, L)
		}
		for b := c.Block; b < 256; b += c.NBlocks {
			for _, L := range lens {
				for p := 0; p < L; p++ {
					w := word(L)
					w[p] = byte(b)
					m.check(string(w), nil, (b+L+p)%23 == 0)
					n++
				}
			}
			if c.Stopped() {
				return
			}
		}
		specials := " \n\\'\"\t"
		for si := c.Block % len(specials); si < len(specials); si += c.NBlocks {
			for sj := 0; sj < len(specials); sj++ {
				for L := 2; L <= 22; L++ {
					for p := 0; p < L; p++ {
						for q := p + 1; q < L; q++ {
							w := word(L)
							w[p], w[q] = specials[si], specials[sj]
							m.check(string(w), nil, false)
							n++
						}
					}
				}
			}
		}
		c.Add("position_sweep_inputs", n)
		c.Add("inputs", n)
		c.Evals(n)
		c.SeenEnum(n)
	}
	// huge inputs delivered one byte per Read: a single token, a single run of
	// blanks, a single quoted span and ten million short tokens, 12 MiB each (3 MiB
	// in the 32-bit build): whatever the scanner does per fragment or per token
	// is multiplied by millions
	if !light && c.Flavour != "cover" && c.Block < 4 && c.Begin(idx+597000+c.Block) {
		n := 12 << 20
		if strconv.IntSize == 32 {
			n = 3 << 20
		}
		var in string
		var want []string
		switch c.Block {
		case 0:
			in = strings.Repeat("x", n)
			want = []string{in}
		case 1:
			in = strings.Repeat(" ", n) + "tail"
			want = []string{"tail"}
		case 2:
			body := strings.Repeat("a b\t", n/4)
			in = "'" + body + "' z"
			want = []string{body, "z"}
		default:
			in = strings.Repeat("a ", n/2)
			want = nil // n/2 tokens "a": counted below
		}
		c.Call("shell.Scanner over %d bytes read one byte at a time (shape %d)", len(in), c.Block)
		ok, pv, stack := fw.Try(func() {
			sc := shell.NewScanner(&chunkReader{data: in, sizes: []int{1}})
			cnt, bad := 0, ""
			for sc.Next() {
				t := sc.Text()
				if want != nil {
					if cnt >= len(want) || t != want[cnt] {
						bad = fmt.Sprintf("token %d has %d bytes, want %d tokens with %d bytes first", cnt, len(t), len(want), len(want[0]))
						break
					}
				} else if t != "a" {
					bad = fmt.Sprintf("token %d is %q, want \"a\"", cnt, t)
					break
				}
				cnt++
			}
			wantCnt := len(want)
			if want == nil {
				wantCnt = n / 2
			}
			if bad != "" || cnt != wantCnt || !sc.Complete() || sc.Err() != io.EOF {
				c.Fail(map[string]any{"input": fmt.Sprintf("%d bytes, shape %d (0 one token, 1 blanks then a token, 2 one quoted span, 3 many one-byte tokens)", len(in), c.Block), "reader": "one byte per Read"}, "Scanner yields %d tokens (want %d), complete=%v err=%v %s", cnt, wantCnt, sc.Complete(), sc.Err(), bad)
			}
		})
		if !ok {
			c.FailKind("panic", map[string]any{"input_bytes": len(in), "shape": c.Block}, "panic: %v\n%s", pv, stack)
		}
		c.Add("huge_inputs_one_byte_reads", 1)
		c.Add("inputs", 1)
	}
	// long inputs: tokens and quoted spans that cross buffer boundaries (4096, 8192, 65536)
	if c.Block < 8 && c.Begin(idx+600000+c.Block) {
		lens := []int{4090, 4094, 4095, 4096, 4097, 4100, 5000, 8191, 8192, 8193, 20000, 65537}
		for li, L := range lens {
			if li%8 != c.Block {
				continue
			}
			body := strings.Repeat("abcdefghij", L/10+1)[:L]
			sp := strings.Repeat("ab cd\tef\n", L/9+1)[:L]
			for _, in := range []string{
				"'" + sp + "' tail", "'" + sp, "x '" + body + "'y z", "\"" + sp + "\" t", "\"" + body + "\\\"" + body + "\"", body + " " + body, body + "\\\n" + body + " k",
				strings.Repeat(" ", L) + "a", "a" + strings.Repeat("\\ ", L/2) + " b", strings.Repeat("'' ", L/3), strings.Repeat("a ", L/2) + "'" + body,
			} {
				m.check(in, nil, true)
				c.Add("long_inputs", 1)
				c.Add("inputs", 1)
			}
		}
	}
	// random longer inputs over a wider alphabet
	wide := []string{"a", "b", "xyz", " ", "  ", "\t", "\n", "\\", "'", "\"", "\r", "\v", "\f", " ", "$", "`", "#", "é", "\\\n", "''", "\"\"", "\\\\", "\\\""}
	nr := c.Pick(3000, 40000)
	if light {
		nr = 300
	}
	for k := 0; k < nr; k++ {
		if !c.Begin(idx + k) {
			continue
		}
		r := c.Rng()
		var sb strings.Builder
		for j := r.IntN(60); j >= 0 && sb.Len() < 200; j-- {
			sb.WriteString(wide[r.IntN(len(wide))])
		}
		in := sb.String()
		m.check(in, r, true)
		c.Add("inputs", 1)
		if strings.ContainsAny(in, `\'"`) {
			h := fw.NewH()
			h.Str(in)
			c.Seen(h.Sum())
		}
	}
	idx += nr
	// coverage of the 42 (state, class) situations by this block's inputs
	n42 := 0
	for _, s := range m.seen {
		if s {
			n42++
		}
	}
	c.Max("max:state_class_pairs_covered_of_42", int64(n42))
	if n42 == 42 {
		c.Add("state_class_pairs_covered_of_42", 1)
	}

	// results that outlive the scanner that produced them: remainders obtained
	// from Rest are kept unread, their scanners dropped, garbage collections
	// forced (finalizers get time to run), new scanners created and used — and
	// only then are the old remainders read and compared
	for k := 0; k < c.Pick(3, 20); k++ {
		if light || !c.Begin(idx+5000+k) {
			continue
		}
		r := c.Rng()
		const N = 24
		type kept struct {
			in   string
			off  int
			rest io.Reader
		}
		keep := make([]kept, 0, N)
		mkInput := func(tag string) string {
			var sb strings.Builder
			sb.WriteString(tag + " ")
			for j := 3 + r.IntN(30); j >= 0; j-- {
				sb.WriteString(wide[r.IntN(len(wide))])
			}
			return sb.String() + " end" + tag
		}
		for i := 0; i < N; i++ {
			in := mkInput(fmt.Sprintf("old%d", i))
			want, _ := refSplit(in, nil)
			sc := shell.NewScanner(strings.NewReader(in))
			nt := r.IntN(len(want) + 1)
			off := 0
			for j := 0; j < nt && sc.Next(); j++ {
				off = want[j].End
			}
			keep = append(keep, kept{in: in, off: off, rest: sc.Rest()})
		}
		for g := 0; g <= k%3; g++ { // one, two or three collections (pools survive one)
			runtime.GC()
			time.Sleep(3 * time.Millisecond) // lets finalizers run; not a verdict
		}
		bad := false
		type live struct {
			sc   *shell.Scanner
			in   string
			want []refTok
			wc   bool
			got  []string
		}
		var lives []*live
		for i := 0; i < 2*N && !bad; i++ {
			in := mkInput(fmt.Sprintf("new%d", i))
			want, wc := refSplit(in, nil)
			lv := &live{sc: shell.NewScanner(strings.NewReader(in)), in: in, want: want, wc: wc}
			if i%2 == 0 {
				// half of the new scanners stay alive, one token consumed, while
				// the old remainders are read
				if lv.sc.Next() {
					lv.got = append(lv.got, lv.sc.Text())
				}
				lives = append(lives, lv)
				continue
			}
			for lv.sc.Next() {
				lv.got = append(lv.got, lv.sc.Text())
			}
			if !equalStrings(lv.got, refTexts(want)) || lv.sc.Complete() != wc {
				c.Fail(map[string]any{"input": fw.Q(in), "phase": "new scanners created after older scanners were dropped and collected"}, "Scanner yields %q (complete=%v), reference %q (%v)", lv.got, lv.sc.Complete(), refTexts(want), wc)
				bad = true
			}
		}
		finishLives := func() {
			for _, lv := range lives {
				if bad {
					return
				}
				for lv.sc.Next() {
					lv.got = append(lv.got, lv.sc.Text())
				}
				if !equalStrings(lv.got, refTexts(lv.want)) || lv.sc.Complete() != lv.wc {
					c.Fail(map[string]any{"input": fw.Q(lv.in), "phase": "a scanner that was alive while remainders of older, collected scanners were read"}, "Scanner yields %q (complete=%v), reference %q (%v)", lv.got, lv.sc.Complete(), refTexts(lv.want), lv.wc)
					bad = true
				}
			}
		}
		for _, kp := range keep {
			if bad {
				break
			}
			rest, err := io.ReadAll(kp.rest)
			if err != nil || string(rest) != kp.in[kp.off:] {
				c.Fail(map[string]any{"input": fw.Q(kp.in), "consumed_bytes": kp.off, "phase": "remainder from Rest read after its scanner was dropped, three garbage collections and 48 new scanners"}, "Rest() reader yields %q (err %v), want the unconsumed input %q", rest, err, kp.in[kp.off:])
				bad = true
			}
		}
		finishLives()
		c.Add("rest_readers_kept_across_gc", N)
		c.Step()
	}

	// concurrent: pooled Split and Scanner.Reset reuse from 8 goroutines
	rounds := c.Pick(4, 30)
	for k := 0; k < rounds; k++ {
		if !c.Begin(idx + k) {
			continue
		}
		r := c.Rng()
		seeds := make([]uint64, 8)
		for i := range seeds {
			seeds[i] = r.Uint64()
		}
		errs := make([]string, 8)
		var wg sync.WaitGroup
		for g := 0; g < 8; g++ {
			wg.Add(1)
			go func(g int) {
				defer wg.Done()
				lr := rand.New(rand.NewPCG(seeds[g], uint64(g)))
				sc := shell.NewScanner(strings.NewReader(""))
				for i := 0; i < 600; i++ {
					var sb strings.Builder
					for j := lr.IntN(20); j >= 0; j-- {
						sb.WriteString(wide[lr.IntN(len(wide))])
					}
					in := fmt.Sprintf("g%d ", g) + sb.String()
					want, wc := refSplit(in, nil)
					got, gc := shell.Split(in)
					if !equalStrings(got, refTexts(want)) || gc != wc {
						errs[g] = fmt.Sprintf("concurrent Split(%q) = %q,%v want %q,%v", in, got, gc, refTexts(want), wc)
						return
					}
					sc.Reset(strings.NewReader(in))
					if got := sc.Split(); !equalStrings(got, refTexts(want)) {
						errs[g] = fmt.Sprintf("concurrent Scanner.Reset+Split(%q) = %q want %q", in, got, refTexts(want))
						return
					}
					c.Step()
				}
			}(g)
		}
		wg.Wait()
		c.Add("concurrent_splits", 8*600)
		for _, e := range errs {
			if e != "" {
				c.Fail(map[string]any{"phase": "concurrent"}, "%s", e)
				break
			}
		}
	}
}
