//go:build pC03 || pall

package props

import (
	"fmt"
	"math/rand/v2"
	"slices"

	"github.com/creachadair/mds/stree"
	"verif/harness/fw"
)

// C03 — stree.Cursor navigation is consistent with key order and structure.
// The tree's contents come from the Tree API (reference set as in C01); the
// structure is read twice through the cursor API (once with a single cursor
// and Up, once with Clone-based recursion), validated as a binary search tree
// over exactly the reference set, and then used as the shadow model for
// scripted and random walks of a population of cursors.

func init() {
	fw.Register(&fw.Property{
		ID: "C03",
		Meta: func(tier string) fw.Meta {
			return fw.Meta{
				Flavours: []string{"plain", "cover", "386"},
				Blocks:   32,
				Procs:    16,
				Rule: "case = one tree shape (beta in {0,250,600,900,1000,...}, built by a C01-style history or bulk New) with: Cursor(k) for EVERY key and for absent keys around every key; full forward (Min, Next...) and backward (Max, Prev...) sweeps with HasNext/HasPrev before each move; subtree checks at every node (everything through Left smaller, through Right larger, Cursor.Inorder == subtree keys ascending, early stop, the same cursor scanned again from inside its own scan (re-entrancy; cursors obtained by Cursor(k) and by moves from the root), Min/Max land on subtree extremes, Up after Left/Right returns); " +
					"random walks (Next/Prev/Left/Right/Up/Min/Max/Clone, 200-2000 moves) of a population of up to 4 cursors with shadow positions, all cursors re-checked after every move; sparse-observation walks (only Valid/Key looked at after each move, the Has* predicates asked occasionally and not re-asked before the next move); cursors looked up, the tree cloned, the original modified, and the clone checked through every cursor operation; nil and invalidated cursors: every method a harmless no-op. " +
					"Deep remnants (bulk New, then all but one root path and a few strays removed) among the shapes; during walks, Add of keys that are present (the deepest key, the key under a cursor, a random one), which is documented to leave the tree unmodified: every open cursor must go on as if nothing happened. " +
					"distinct = hash of (shape as parent vector, walk seed); non-trivial = the shape has depth >= 4 and the walks included a Next/Prev that climbed >= 2 ancestors",
				Required:     []string{"shapes", "next_climb_ge2", "prev_climb_ge2", "clone_moves", "invalid_cursor_probes", "absent_key_probes", "shapes_depth_ge10", "walk_moves", "empty_trees", "shapes_with_wide_comparator", "sparse_walk_moves", "clone_after_lookup_checks", "reentrant_scans", "cursors_reached_by_moves", "bulk_new_with_repeated_keys", "abandoned_scans", "scans_with_cursor_moved_inside", "very_deep_shapes", "tree_reads_with_open_cursors", "deep_remnant_shapes", "adds_of_present_keys_with_open_cursors"},
				Assumptions:  []string{"Cursor.Inorder is read as listing the subtree where the cursor stood when Inorder was called, also if the loop body moves that cursor", "set contents are taken from Tree.Inorder (property C01)", "the structure used as shadow model is itself read through the cursor API, and is accepted only if two independent readings agree and form a binary search tree over exactly the reference set"},
				CoverPkgs:    []string{"github.com/creachadair/mds/stree"},
				CoverAnchors: []string{"stree/cursor.go", "stree/stree.go:Cursor", "stree/stree.go:Root", "stree/node.go:pathTo"},
			}
		},
		Run: runC03,
	})
}

type c03case struct {
	c      *fw.Ctx
	r      *rand.Rand
	t      *stree.Tree[Elem]
	ref    []Elem
	nodes  []shapeNode
	desc   string
	failed bool
	walk   opLog
}

func (k *c03case) fail(format string, args ...any) {
	if k.failed {
		return
	}
	k.failed = true
	keys := make([]int, len(k.ref))
	for i, e := range k.ref {
		keys[i] = e.Key
	}
	parents := make([]int, len(k.nodes))
	for i, n := range k.nodes {
		parents[i] = n.Parent
	}
	k.c.Fail(map[string]any{"build": k.desc, "keys_inorder": keys, "parent_index_of_each_key": parents, "moves": k.walk.list()}, "%s", fmt.Sprintf(format, args...))
}

// readByClone reads the structure using only Clone, HasLeft/Left, HasRight/Right, Key.
func readByClone(c *stree.Cursor[Elem], depth, parent int, out *[]shapeNode) int {
	leftRoot := -1
	if c.HasLeft() {
		leftRoot = readByClone(c.Clone().Left(), depth+1, -2, out)
	}
	me := len(*out)
	*out = append(*out, shapeNode{E: c.Key(), Depth: depth, Parent: parent})
	if leftRoot >= 0 {
		(*out)[leftRoot].Parent = me
	}
	if c.HasRight() {
		readByClone(c.Clone().Right(), depth+1, me, out)
	}
	return me
}

func (k *c03case) subtreeRange(i int) (lo, hi int) {
	lo, hi = i, i
	for k.nodes[lo].L >= 0 {
		lo = k.nodes[lo].L
	}
	for k.nodes[hi].R >= 0 {
		hi = k.nodes[hi].R
	}
	return
}

func (k *c03case) structure() bool {
	t := k.t
	nodes, depth := treeShape(t, identElem)
	var nodes2 []shapeNode
	if root := t.Root(); root.Valid() {
		readByClone(root, 0, -1, &nodes2)
	} else if len(k.ref) != 0 {
		k.fail("Root() invalid for a tree of %d keys", len(k.ref))
		return false
	}
	k.nodes = nodes
	if len(nodes) != len(k.ref) || len(nodes2) != len(k.ref) {
		k.fail("structure read through cursors has %d / %d nodes, the tree holds %d keys", len(nodes), len(nodes2), len(k.ref))
		return false
	}
	for i := range nodes {
		if nodes[i].E != k.ref[i] || nodes2[i].E != k.ref[i] {
			k.fail("in-order position %d read through cursors is %v / %v, Tree.Inorder has %v: Left/Right do not respect key order", i, nodes[i].E, nodes2[i].E, k.ref[i])
			return false
		}
		if nodes[i].Parent != nodes2[i].Parent || nodes[i].Depth != nodes2[i].Depth {
			k.fail("two readings of the structure disagree at key %v: parent %d vs %d, depth %d vs %d", k.ref[i], nodes[i].Parent, nodes2[i].Parent, nodes[i].Depth, nodes2[i].Depth)
			return false
		}
	}
	linkShape(k.nodes)
	// BST: the subtree of each node occupies a contiguous in-order range
	// around it (left part below, right part above) — implied by the in-order
	// reading; check parent/child depth consistency.
	for i, n := range k.nodes {
		if n.Parent >= 0 && k.nodes[n.Parent].Depth != n.Depth-1 {
			k.fail("node %v depth %d but parent depth %d", n.E, n.Depth, k.nodes[n.Parent].Depth)
			return false
		}
		_ = i
	}
	k.c.Max("max:depth", int64(depth))
	if depth >= 10 {
		k.c.Add("shapes_depth_ge10", 1)
	}
	return true
}

// cursorAt returns a cursor to in-order position i via Tree.Cursor.
func (k *c03case) cursorAt(i int) *stree.Cursor[Elem] {
	return k.t.Cursor(Elem{Key: k.ref[i].Key, Tag: -7})
}

func (k *c03case) checkAt(c *stree.Cursor[Elem], i int, what string) bool {
	if i < 0 {
		if c.Valid() {
			k.fail("%s: cursor should be invalid but is at %v", what, c.Key())
			return false
		}
		if got := c.Key(); got != (Elem{}) {
			k.fail("%s: invalid cursor has key %v, want zero", what, got)
			return false
		}
		return true
	}
	if !c.Valid() {
		k.fail("%s: cursor invalid, want at %v", what, k.ref[i])
		return false
	}
	if got := c.Key(); got != k.ref[i] {
		k.fail("%s: cursor at %v, want %v", what, got, k.ref[i])
		return false
	}
	n := k.nodes[i]
	if c.HasNext() != (i+1 < len(k.ref)) || c.HasPrev() != (i > 0) {
		k.fail("%s: at %v HasNext=%v HasPrev=%v, position %d of %d", what, k.ref[i], c.HasNext(), c.HasPrev(), i, len(k.ref))
		return false
	}
	if c.HasLeft() != (n.L >= 0) || c.HasRight() != (n.R >= 0) || c.HasParent() != (n.Parent >= 0) {
		k.fail("%s: at %v HasLeft=%v HasRight=%v HasParent=%v, structure says L=%d R=%d parent=%d", what, k.ref[i], c.HasLeft(), c.HasRight(), c.HasParent(), n.L, n.R, n.Parent)
		return false
	}
	return true
}

func (k *c03case) probeInvalid(c *stree.Cursor[Elem], what string) {
	k.c.Add("invalid_cursor_probes", 1)
	ok, pv, _ := fw.Try(func() {
		for round := 0; round < 2 && !k.failed; round++ {
			if c.Valid() || c.Key() != (Elem{}) || c.HasNext() || c.HasPrev() || c.HasLeft() || c.HasRight() || c.HasParent() {
				k.fail("%s: invalid cursor reports Valid=%v Key=%v HasNext=%v HasPrev=%v HasLeft=%v HasRight=%v HasParent=%v", what, c.Valid(), c.Key(), c.HasNext(), c.HasPrev(), c.HasLeft(), c.HasRight(), c.HasParent())
				return
			}
			for name, f := range map[string]func() *stree.Cursor[Elem]{"Next": c.Next, "Prev": c.Prev, "Left": c.Left, "Right": c.Right, "Up": c.Up, "Min": c.Min, "Max": c.Max} {
				if got := f(); got != c {
					k.fail("%s: %s on an invalid cursor did not return its receiver", what, name)
					return
				}
				if c.Valid() {
					k.fail("%s: %s made an invalid cursor valid at %v", what, name, c.Key())
					return
				}
			}
			cl := c.Clone()
			if cl.Valid() {
				k.fail("%s: Clone of an invalid cursor is valid", what)
				return
			}
			n := 0
			c.Inorder(func(Elem) bool { n++; return true })
			if n != 0 {
				k.fail("%s: Inorder of an invalid cursor yielded %d keys", what, n)
				return
			}
		}
	})
	if !ok {
		k.fail("%s: operation on an invalid cursor panicked: %v", what, pv)
	}
}

func (k *c03case) perKey() {
	n := len(k.ref)
	for i := 0; i < n && !k.failed; i++ {
		c := k.cursorAt(i)
		if i%3 == 1 {
			// reach the same node by moves from the root instead (the cursor's
			// internal path then has a different history and capacity)
			c = k.t.Root()
			for c.Valid() && c.Key().Key != k.ref[i].Key {
				if k.ref[i].Key < c.Key().Key {
					c.Left()
				} else {
					c.Right()
				}
			}
			k.c.Add("cursors_reached_by_moves", 1)
		}
		if !k.checkAt(c, i, fmt.Sprintf("Cursor(%d)", k.ref[i].Key)) {
			return
		}
		// absent keys on either side
		for _, d := range []int{-1, 1} {
			ak := k.ref[i].Key + d
			j := i + d
			if j >= 0 && j < n && k.ref[j].Key == ak {
				continue
			}
			k.c.Add("absent_key_probes", 1)
			ac := k.t.Cursor(Elem{Key: ak})
			if ac.Valid() {
				k.fail("Cursor(%d) for an absent key is valid at %v", ak, ac.Key())
				return
			}
			if i%16 == 0 {
				k.probeInvalid(ac, fmt.Sprintf("Cursor(%d) of absent key", ak))
			}
		}
		// subtree
		node := k.nodes[i]
		lo, hi := k.subtreeRange(i)
		if hi-lo <= 400 || i%8 == 0 {
			j := lo
			bad := false
			c.Inorder(func(e Elem) bool {
				if j > hi || e != k.ref[j] {
					bad = true
					return false
				}
				j++
				return true
			})
			if bad || j != hi+1 {
				k.fail("Cursor(%d).Inorder does not list exactly the subtree keys [%v..%v]", k.ref[i].Key, k.ref[lo], k.ref[hi])
				return
			}
			if i%4 == 2 {
				// a scan abandoned half-way (its loop body panics, the caller
				// recovers): the cursor must not have moved and must scan again
				at := i % (hi - lo + 1)
				fw.Panics(func() {
					calls := 0
					c.Inorder(func(Elem) bool {
						if calls++; calls > at {
							panic("scan abandoned by its loop body")
						}
						return true
					})
				})
				k.c.Add("abandoned_scans", 1)
				jj := lo
				c.Inorder(func(e Elem) bool {
					if jj > hi || e != k.ref[jj] {
						return false
					}
					jj++
					return true
				})
				if jj != hi+1 || !c.Valid() || c.Key() != k.ref[i] {
					k.fail("Cursor(%d) after an abandoned Inorder (loop body panicked at call %d): valid=%v, a new scan lists %d of %d subtree keys", k.ref[i].Key, at+1, c.Valid(), jj-lo, hi-lo+1)
					return
				}
			}
			if i%5 == 3 && hi-lo <= 150 {
				// the cursor is moved from inside its own scan (the tree is not
				// changed): the scan keeps listing the subtree where the cursor
				// stood when Inorder was called
				mv := c.Clone()
				jj, moves := lo, 0
				okList := true
				mv.Inorder(func(e Elem) bool {
					if jj > hi || e != k.ref[jj] {
						okList = false
						return false
					}
					switch (jj + i) % 4 {
					case 0:
						mv.Up()
					case 1:
						mv.Min()
					case 2:
						mv.Next()
					default:
						mv.Left()
					}
					moves++
					jj++
					return true
				})
				k.c.Add("scans_with_cursor_moved_inside", 1)
				if !okList || jj != hi+1 {
					k.fail("Cursor(%d).Inorder while the same cursor is moved (Up/Min/Next/Left) in the loop body listed %d keys correctly of the %d in its subtree [%v..%v]", k.ref[i].Key, jj-lo, hi-lo+1, k.ref[lo], k.ref[hi])
					return
				}
			}
			if hi-lo <= 150 {
				// re-entrant use: from inside the cursor's own scan, scan the very
				// same cursor again (and read it); both scans must be complete
				at := (i * 7) % (hi - lo + 1)
				j, bad, innerBad := lo, false, false
				c.Inorder(func(e Elem) bool {
					if j > hi || e != k.ref[j] {
						bad = true
						return false
					}
					if j-lo == at || j-lo == at/2 {
						jj := lo
						c.Inorder(func(e2 Elem) bool {
							if jj > hi || e2 != k.ref[jj] {
								innerBad = true
								return false
							}
							jj++
							return true
						})
						if jj != hi+1 || !c.Valid() || c.Key() != k.ref[i] {
							innerBad = true
						}
						k.c.Add("reentrant_scans", 1)
					}
					j++
					return true
				})
				if bad || innerBad || j != hi+1 {
					k.fail("Cursor(%d).Inorder run again from inside its own loop body: outer scan complete=%v, inner scan complete=%v (subtree keys [%v..%v])", k.ref[i].Key, !bad && j == hi+1, !innerBad, k.ref[lo], k.ref[hi])
					return
				}
			}
			stop := i % (hi - lo + 1)
			calls := 0
			c.Inorder(func(Elem) bool { calls++; return calls <= stop })
			if calls != stop+1 {
				k.fail("Cursor(%d).Inorder called yield %d times after it returned false at call %d", k.ref[i].Key, calls, stop+1)
				return
			}
		}
		if !k.checkAt(c.Clone().Min(), lo, fmt.Sprintf("Cursor(%d).Min", k.ref[i].Key)) {
			return
		}
		if !k.checkAt(c.Clone().Max(), hi, fmt.Sprintf("Cursor(%d).Max", k.ref[i].Key)) {
			return
		}
		if !k.checkAt(c.Clone().Left(), node.L, fmt.Sprintf("Cursor(%d).Left", k.ref[i].Key)) {
			return
		}
		if !k.checkAt(c.Clone().Right(), node.R, fmt.Sprintf("Cursor(%d).Right", k.ref[i].Key)) {
			return
		}
		if node.L >= 0 && !k.checkAt(c.Clone().Left().Up(), i, fmt.Sprintf("Cursor(%d).Left.Up", k.ref[i].Key)) {
			return
		}
		if node.R >= 0 && !k.checkAt(c.Clone().Right().Up(), i, fmt.Sprintf("Cursor(%d).Right.Up", k.ref[i].Key)) {
			return
		}
		if !k.checkAt(c.Clone().Up(), node.Parent, fmt.Sprintf("Cursor(%d).Up", k.ref[i].Key)) {
			return
		}
		if !k.checkAt(c.Clone().Next(), nextIdx(i, n), fmt.Sprintf("Cursor(%d).Next", k.ref[i].Key)) {
			return
		}
		if !k.checkAt(c.Clone().Prev(), i-1, fmt.Sprintf("Cursor(%d).Prev", k.ref[i].Key)) {
			return
		}
		// the cursor itself has not moved
		if !k.checkAt(c, i, fmt.Sprintf("Cursor(%d) after moving its clones", k.ref[i].Key)) {
			return
		}
		k.c.Step()
	}
}

func nextIdx(i, n int) int {
	if i+1 < n {
		return i + 1
	}
	return -1
}

func (k *c03case) sweeps() {
	n := len(k.ref)
	if n == 0 {
		return
	}
	c := k.t.Root().Min()
	for i := 0; i < n; i++ {
		if !k.checkAt(c, i, fmt.Sprintf("forward sweep step %d", i)) {
			return
		}
		if i+1 < n && k.nodes[i].R < 0 {
			if climb := k.nodes[i].Depth - k.nodes[i+1].Depth; climb >= 2 {
				k.c.Add("next_climb_ge2", 1)
				k.c.Max("max:climb", int64(climb))
			}
		}
		if got := c.Next(); got != c {
			k.fail("Next did not return its receiver")
			return
		}
	}
	if !k.checkAt(c, -1, "forward sweep past the maximum") {
		return
	}
	k.probeInvalid(c, "cursor after Next past the maximum")
	c = k.t.Root().Max()
	for i := n - 1; i >= 0; i-- {
		if !k.checkAt(c, i, fmt.Sprintf("backward sweep step %d", i)) {
			return
		}
		if i > 0 && k.nodes[i].L < 0 {
			if climb := k.nodes[i].Depth - k.nodes[i-1].Depth; climb >= 2 {
				k.c.Add("prev_climb_ge2", 1)
			}
		}
		c.Prev()
	}
	if !k.checkAt(c, -1, "backward sweep past the minimum") {
		return
	}
	k.probeInvalid(c, "cursor after Prev past the minimum")
	// Sweeps that start in the middle, from Cursor(k), both directions.
	for s := 0; s < 6 && !k.failed; s++ {
		i := k.r.IntN(n)
		c := k.cursorAt(i)
		for j := i; j < n && j < i+60; j++ {
			if !k.checkAt(c, j, fmt.Sprintf("sweep from Cursor(%d) +%d", k.ref[i].Key, j-i)) {
				return
			}
			c.Next()
		}
		c = k.cursorAt(i)
		for j := i; j >= 0 && j > i-60; j-- {
			if !k.checkAt(c, j, fmt.Sprintf("sweep from Cursor(%d) -%d", k.ref[i].Key, i-j)) {
				return
			}
			c.Prev()
		}
	}
}

func (k *c03case) randomWalk(moves int) (climbed bool) {
	n := len(k.ref)
	if n == 0 {
		return
	}
	type cur struct {
		c   *stree.Cursor[Elem]
		pos int
	}
	start := k.r.IntN(n)
	pop := []*cur{{c: k.cursorAt(start), pos: start}}
	k.walk = opLog{}
	k.walk.add("c0 := Cursor(%d)", k.ref[start].Key)
	names := []string{"Next", "Prev", "Left", "Right", "Up", "Min", "Max", "Clone", "Reset"}
	for m := 0; m < moves && !k.failed; m++ {
		ci := k.r.IntN(len(pop))
		cu := pop[ci]
		mv := k.r.IntN(len(names))
		if cu.pos < 0 && mv < 7 && k.r.IntN(3) != 0 {
			mv = 8 // mostly re-seat invalid cursors instead of poking them
		}
		k.walk.add("c%d.%s", ci, names[mv])
		k.c.Add("walk_moves", 1)
		if m%37 == 11 {
			// read-only calls on the tree while cursors are open: Clone (the copy is
			// dropped), Len, Get, a full Inorder. None of them may disturb a cursor.
			k.walk.add("tree.Clone(); tree.Len(); tree.Get; tree.Inorder")
			_ = k.t.Clone()
			k.t.Len()
			k.t.Get(Elem{Key: k.ref[m%n].Key})
			k.t.Inorder(func(Elem) bool { return true })
			k.c.Add("tree_reads_with_open_cursors", 1)
		}
		if m%37 == 23 {
			// Add of keys that are present: documented to return false "without
			// modifying the tree", so no cursor may notice (the deepest key, the
			// key under a cursor, a random one)
			deepest := 0
			for i := range k.nodes {
				if k.nodes[i].Depth > k.nodes[deepest].Depth {
					deepest = i
				}
			}
			for _, i := range []int{deepest, max(cu.pos, 0), k.r.IntN(n)} {
				k.walk.add("tree.Add(%d) (present)", k.ref[i].Key)
				if k.t.Add(k.ref[i]) {
					k.fail("Add(%v) of a key that is present returned true", k.ref[i])
					return
				}
			}
			k.c.Add("adds_of_present_keys_with_open_cursors", 1)
		}
		switch mv {
		case 0:
			if cu.pos >= 0 {
				if cu.pos+1 < n && k.nodes[cu.pos].R < 0 && k.nodes[cu.pos].Depth-k.nodes[cu.pos+1].Depth >= 2 {
					climbed = true
				}
				cu.pos = nextIdx(cu.pos, n)
			}
			cu.c.Next()
		case 1:
			if cu.pos >= 0 {
				if cu.pos > 0 && k.nodes[cu.pos].L < 0 && k.nodes[cu.pos].Depth-k.nodes[cu.pos-1].Depth >= 2 {
					climbed = true
				}
				cu.pos--
			}
			cu.c.Prev()
		case 2:
			if cu.pos >= 0 {
				cu.pos = k.nodes[cu.pos].L
			}
			cu.c.Left()
		case 3:
			if cu.pos >= 0 {
				cu.pos = k.nodes[cu.pos].R
			}
			cu.c.Right()
		case 4:
			if cu.pos >= 0 {
				cu.pos = k.nodes[cu.pos].Parent
			}
			cu.c.Up()
		case 5:
			if cu.pos >= 0 {
				cu.pos, _ = k.subtreeRange(cu.pos)
			}
			cu.c.Min()
		case 6:
			if cu.pos >= 0 {
				_, cu.pos = k.subtreeRange(cu.pos)
			}
			cu.c.Max()
		case 7:
			k.c.Add("clone_moves", 1)
			nc := &cur{c: cu.c.Clone(), pos: cu.pos}
			if len(pop) < 4 {
				pop = append(pop, nc)
			} else {
				pop[k.r.IntN(len(pop))] = nc
			}
		case 8:
			p := k.r.IntN(n)
			cu.c, cu.pos = k.cursorAt(p), p
			k.walk.add("  (c%d := Cursor(%d))", ci, k.ref[p].Key)
		}
		for j, q := range pop {
			if !k.checkAt(q.c, q.pos, fmt.Sprintf("cursor c%d after move %d", j, m)) {
				return
			}
		}
		k.c.Step()
	}
	return
}

// randomWalkSparse moves one cursor around and looks only at Valid/Key after
// each move; HasNext/HasPrev/HasLeft/... are separate, occasional operations
// and are not re-asked before the next move. (The dense walk asks every
// predicate after every move, which would refresh anything a cursor remembers
// between calls.)
func (k *c03case) randomWalkSparse(moves int) {
	n := len(k.ref)
	if n == 0 {
		return
	}
	pos := k.r.IntN(n)
	c := k.cursorAt(pos)
	k.walk = opLog{}
	k.walk.add("c := Cursor(%d)  (sparse observation)", k.ref[pos].Key)
	for m := 0; m < moves && !k.failed; m++ {
		if pos < 0 {
			pos = k.r.IntN(n)
			c = k.cursorAt(pos)
			k.walk.add("c = Cursor(%d)", k.ref[pos].Key)
		}
		op := k.r.IntN(12)
		switch op {
		case 0:
			k.walk.add("Next")
			c.Next()
			pos = nextIdx(pos, n)
		case 1:
			k.walk.add("Prev")
			c.Prev()
			pos--
		case 2:
			k.walk.add("Left")
			c.Left()
			pos = k.nodes[pos].L
		case 3:
			k.walk.add("Right")
			c.Right()
			pos = k.nodes[pos].R
		case 4:
			k.walk.add("Up")
			c.Up()
			pos = k.nodes[pos].Parent
		case 5:
			k.walk.add("Min")
			c.Min()
			pos, _ = k.subtreeRange(pos)
		case 6:
			k.walk.add("Max")
			c.Max()
			_, pos = k.subtreeRange(pos)
		case 7:
			k.walk.add("HasNext")
			if got := c.HasNext(); got != (pos+1 < n) {
				k.fail("HasNext = %v at position %d of %d", got, pos, n)
			}
		case 8:
			k.walk.add("HasPrev")
			if got := c.HasPrev(); got != (pos > 0) {
				k.fail("HasPrev = %v at position %d of %d", got, pos, n)
			}
		case 9:
			k.walk.add("HasLeft/HasRight/HasParent")
			nd := k.nodes[pos]
			if c.HasLeft() != (nd.L >= 0) || c.HasRight() != (nd.R >= 0) || c.HasParent() != (nd.Parent >= 0) {
				k.fail("HasLeft/HasRight/HasParent = %v %v %v at %v", c.HasLeft(), c.HasRight(), c.HasParent(), k.ref[pos])
			}
		default:
			k.walk.add("Clone (continue on the clone)")
			c = c.Clone()
		}
		k.c.Add("sparse_walk_moves", 1)
		k.c.Step()
		if k.failed {
			return
		}
		if pos < 0 {
			if c.Valid() {
				k.fail("cursor should be invalid, is at %v", c.Key())
			}
			continue
		}
		if !c.Valid() || c.Key() != k.ref[pos] {
			k.fail("after %s: cursor at %v (valid=%v), want %v", k.walk.ops[len(k.walk.ops)-1], c.Key(), c.Valid(), k.ref[pos])
		}
	}
}

// cloneAfterLookups: cursors are taken on the tree, the tree is cloned, the
// original is then modified; the clone must still present the old contents
// through every cursor operation (nothing looked up earlier may leak across).
func (k *c03case) cloneAfterLookups() {
	n := len(k.ref)
	if n == 0 {
		return
	}
	for i := 0; i < min(n, 6); i++ {
		k.cursorAt(k.r.IntN(n))
	}
	kc := k.ref[k.r.IntN(n)].Key
	k.t.Cursor(Elem{Key: kc}) // the most recent lookup
	k.t.Min()
	k.t.Max()
	dup := k.t.Clone()
	// modify the original: remove some keys around kc, add neighbours
	for d := -3; d <= 3; d++ {
		k.t.Remove(Elem{Key: kc + 2*d + 2})
		k.t.Add(Elem{Key: kc + 2*d + 1, Tag: -50 - d})
	}
	k.t.Remove(Elem{Key: k.ref[0].Key})
	k.t.Add(Elem{Key: k.ref[n-1].Key + 5, Tag: -60})
	k2 := &c03case{c: k.c, r: k.r, t: dup, ref: k.ref, desc: k.desc + "; Cursor lookups, then Clone, then the original was modified: checking the clone"}
	if k2.structure() {
		k2.perKey()
		if !k2.failed {
			k2.sweeps()
		}
	}
	k.c.Add("clone_after_lookup_checks", 1)
	if k2.failed {
		k.failed = true
	}
}

func runC03(c *fw.Ctx) {
	if c.Block < 6 && c.Begin(1<<22+c.Block) {
		depth := []int{4200, 6000, 9000}[c.Block/2%3]
		ok, pv, stack := fw.Try(func() { c03veryDeep(c, c.Block%3, depth) })
		if !ok {
			c.FailKind("panic", map[string]any{"phase": "very deep trees", "chain_length": depth}, "panic: %v\n%s", pv, stack)
		}
	}
	betas := []int{0, 250, 600, 900, 1000, 1000, 100, 999}
	ncases := c.Pick(240, 4000)
	for i := 0; i < ncases; i++ {
		if !c.Begin(i) {
			continue
		}
		r := c.Rng()
		beta := betas[(i+c.Block)%len(betas)]
		k := &c03case{c: c, r: r}
		ok, pv, stack := fw.Try(func() {
			k.t, k.desc = c03build(r, beta, i, c)
			k.t.Inorder(func(e Elem) bool { k.ref = append(k.ref, e); return true })
			for j := 1; j < len(k.ref); j++ {
				if k.ref[j-1].Key >= k.ref[j].Key {
					k.fail("Tree.Inorder not ascending")
					return
				}
			}
			if !k.structure() {
				return
			}
			c.Add("shapes", 1)
			if len(k.ref) == 0 {
				c.Add("empty_trees", 1)
				k.probeInvalid(k.t.Root(), "Root() of an empty tree")
				k.probeInvalid(k.t.Cursor(Elem{Key: 3}), "Cursor(3) of an empty tree")
			}
			k.perKey()
			if k.failed {
				return
			}
			k.sweeps()
			if k.failed {
				return
			}
			var nilc *stree.Cursor[Elem]
			k.probeInvalid(nilc, "nil cursor")
			climbed := false
			for w := 0; w < 3 && !k.failed; w++ {
				if k.randomWalk(200 + r.IntN(c.Pick(600, 1800))) {
					climbed = true
				}
			}
			for w := 0; w < 3 && !k.failed; w++ {
				k.randomWalkSparse(150 + r.IntN(c.Pick(500, 1500)))
			}
			_, depth := treeShape(k.t, identElem)
			if climbed && depth >= 4 && !k.failed {
				h := fw.NewH()
				for _, nd := range k.nodes {
					h.Int(nd.Parent)
				}
				h.U64(r.Uint64())
				c.Seen(h.Sum())
				if c.WantSample() && len(k.ref) <= 24 {
					parents := make([]int, len(k.nodes))
					keys := make([]int, len(k.nodes))
					for j, nd := range k.nodes {
						parents[j], keys[j] = nd.Parent, nd.E.Key
					}
					c.Sample(map[string]any{"build": k.desc, "keys_inorder": keys, "parent_index_of_each_key": parents, "last_walk_tail": tailStrings(k.walk.ops, 30)})
				}
			}
		})
		if !ok {
			c.FailKind("panic", map[string]any{"build": k.desc, "moves": k.walk.list()}, "panic: %v\n%s", pv, stack)
		}
		if ok && !k.failed && k.t != nil {
			ok2, pv2, stack2 := fw.Try(func() { k.cloneAfterLookups() })
			if !ok2 {
				c.FailKind("panic", map[string]any{"build": k.desc, "phase": "clone after lookups"}, "panic: %v\n%s", pv2, stack2)
			}
		}
	}
}

func tailStrings(s []string, n int) []string {
	if len(s) > n {
		return s[len(s)-n:]
	}
	return s
}

// c03build produces a tree shape. The build description replays it.
func c03build(r *rand.Rand, beta, caseIdx int, c *fw.Ctx) (*stree.Tree[Elem], string) {
	tag := 0
	mk := func(k int) Elem { tag++; return Elem{Key: k, Tag: tag} }
	n := 1 + r.IntN(c.Pick(260, 900))
	switch caseIdx % 10 {
	case 0:
		n = 1 + r.IntN(24)
	case 1:
		n = caseIdx / 10 % 9 // includes the empty tree
	}
	mode := r.IntN(9)
	desc := fmt.Sprintf("beta=%d n=%d mode=%d", beta, n, mode)
	cmpElem := cmpElem
	if r.IntN(3) == 0 {
		cmpElem = cmpElemWide
		desc += " wide-comparator"
		c.Add("shapes_with_wide_comparator", 1)
	}
	switch mode {
	case 0: // bulk New
		keys := make([]Elem, n)
		for i, p := range r.Perm(n) {
			keys[i] = mk(p * 2)
		}
		return stree.New(beta, cmpElem, keys...), desc + " (bulk New)"
	case 7: // bulk New with repeated keys, given in ascending, descending or random order
		var keys []Elem
		for i := 0; i < n; i++ {
			keys = append(keys, mk(i*2))
			for r.IntN(3) == 0 {
				keys = append(keys, mk(i*2))
			}
		}
		order := r.IntN(3)
		switch order {
		case 1:
			slices.Reverse(keys)
		case 2:
			r.Shuffle(len(keys), func(a, b int) { keys[a], keys[b] = keys[b], keys[a] })
		}
		c.Add("bulk_new_with_repeated_keys", 1)
		return stree.New(beta, cmpElem, keys...), desc + fmt.Sprintf(" (bulk New of %d keys with repeats, order %d)", len(keys), order)
	case 8: // a deep remnant: bulk New, then everything removed except the path from the root to one key (and a few strays), as far as removals do not trigger the delete-side rebuild
		n = max(n, 3)
		keys := make([]Elem, n)
		for i := range keys {
			keys[i] = mk(i * 2)
		}
		t := stree.New(beta, cmpElem, keys...)
		keep := map[int]bool{}
		cu := t.Cursor(Elem{Key: 2 * r.IntN(n)})
		for cu.Valid() {
			keep[cu.Key().Key] = true
			cu.Up()
		}
		floor := n*beta/2000 + 2 // removals below max*beta/2000 rebuild the whole tree
		for _, i := range r.Perm(n) {
			if t.Len() <= floor {
				break
			}
			if !keep[2*i] && r.IntN(16) != 0 {
				t.Remove(Elem{Key: 2 * i})
			}
		}
		c.Add("deep_remnant_shapes", 1)
		return t, desc + fmt.Sprintf(" (bulk New, then all but one root path and a few strays removed: %d keys left)", t.Len())
	case 1: // ascending inserts
		t := stree.New(beta, cmpElem)
		for i := 0; i < n; i++ {
			t.Add(mk(i * 2))
		}
		return t, desc + " (ascending)"
	case 2: // descending
		t := stree.New(beta, cmpElem)
		for i := n; i > 0; i-- {
			t.Add(mk(i * 2))
		}
		return t, desc + " (descending)"
	case 3: // zig-zag inward: deep alternating path when beta is loose
		t := stree.New(beta, cmpElem)
		lo, hi := 0, 4*n
		for i := 0; i < n; i++ {
			if i%2 == 0 {
				t.Add(mk(lo))
				lo += 2
			} else {
				t.Add(mk(hi))
				hi -= 2
			}
		}
		return t, desc + " (inward zig-zag)"
	case 4: // random inserts
		t := stree.New(beta, cmpElem)
		for i := 0; i < n; i++ {
			t.Add(mk(r.IntN(4*n) * 2))
		}
		return t, desc + " (random)"
	case 5: // random inserts then random removals (two-child removals reshape the tree)
		t := stree.New(beta, cmpElem)
		var ks []int
		for i := 0; i < 2*n; i++ {
			k := r.IntN(6*n) * 2
			if t.Add(mk(k)) {
				ks = append(ks, k)
			}
		}
		r.Shuffle(len(ks), func(a, b int) { ks[a], ks[b] = ks[b], ks[a] })
		for _, k := range ks[:len(ks)/2] {
			t.Remove(Elem{Key: k})
		}
		return t, desc + " (random inserts, half removed)"
	default: // sawtooth runs
		t := stree.New(beta, cmpElem)
		x := 0
		for i := 0; i < n; i++ {
			if i%13 == 0 {
				x -= 60
			}
			x += 2 + 2*r.IntN(3)
			t.Add(mk(x))
		}
		return t, desc + " (sawtooth)"
	}
}

// c03veryDeep: trees several thousand levels deep (balance factor 1000: never
// rebalanced) in which the in-order neighbour of a deep node is a shallow
// ancestor far above it, and the other way round: a long chain hanging under a
// child of the root, its mirror image, and a chain with side branches. For
// every key, Cursor(k).Next and Cursor(k).Prev must land on the neighbouring
// keys; full forward and backward sweeps; HasNext/HasPrev.
func c03veryDeep(c *fw.Ctx, variant, depth int) {
	t := stree.New(1000, cmpElem)
	tag := 0
	add := func(k int) { tag++; t.Add(Elem{Key: k, Tag: tag}) }
	switch variant {
	case 0: // root, a left child, and an ascending chain below that child
		add(2 * depth * 3)
		add(depth * 3)
		for i := 1; i <= depth; i++ {
			add(i)
		}
	case 1: // the mirror image
		add(-2 * depth * 3)
		add(-depth * 3)
		for i := 1; i <= depth; i++ {
			add(-i)
		}
	default: // a descending chain with a right branch of three nodes every 512 levels
		for i := depth; i >= 1; i-- {
			add(i * 10)
			if i%512 == 0 {
				add(i*10 + 5)
				add(i*10 + 3)
				add(i*10 + 7)
			}
		}
	}
	var keys []int
	t.Inorder(func(e Elem) bool { keys = append(keys, e.Key); return true })
	data := map[string]any{"shape": []string{"root, left child, ascending chain below it", "mirror image", "descending chain with side branches"}[variant], "chain_length": depth, "keys": len(keys)}
	for i := 1; i < len(keys); i++ {
		if keys[i-1] >= keys[i] {
			c.Fail(data, "Tree.Inorder not ascending at position %d", i)
			return
		}
	}
	at := func(cu *stree.Cursor[Elem], i int) bool {
		if i < 0 || i >= len(keys) {
			return !cu.Valid()
		}
		return cu.Valid() && cu.Key().Key == keys[i]
	}
	for i, k := range keys {
		cu := t.Cursor(Elem{Key: k})
		if !at(cu, i) || cu.HasNext() != (i+1 < len(keys)) || cu.HasPrev() != (i > 0) {
			c.Fail(data, "Cursor(%d): valid=%v key=%v HasNext=%v HasPrev=%v (in-order position %d of %d)", k, cu.Valid(), cu.Key(), cu.HasNext(), cu.HasPrev(), i, len(keys))
			return
		}
		if nx := cu.Clone().Next(); !at(nx, i+1) {
			c.Fail(data, "Cursor(%d).Next is at %v (valid=%v), want in-order position %d", k, nx.Key(), nx.Valid(), i+1)
			return
		}
		if pv := cu.Prev(); !at(pv, i-1) {
			c.Fail(data, "Cursor(%d).Prev is at %v (valid=%v), want in-order position %d", k, pv.Key(), pv.Valid(), i-1)
			return
		}
		if i%64 == 0 {
			c.Step()
		}
	}
	cu := t.Root().Min()
	for i := 0; i <= len(keys); i++ {
		if !at(cu, i) {
			c.Fail(data, "forward sweep: step %d is at %v (valid=%v)", i, cu.Key(), cu.Valid())
			return
		}
		cu.Next()
	}
	cu = t.Root().Max()
	for i := len(keys) - 1; i >= -1; i-- {
		if !at(cu, i) {
			c.Fail(data, "backward sweep: position %d is at %v (valid=%v)", i, cu.Key(), cu.Valid())
			return
		}
		cu.Prev()
	}
	c.Add("very_deep_shapes", 1)
	c.Max("max:tree_depth", int64(depth))
}
