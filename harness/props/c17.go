//go:build pC17 || pall

package props

import (
	"fmt"
	"math"
	"runtime"
	"sort"
	"strconv"

	"github.com/creachadair/mds/slice"
	"verif/harness/fw"
)

// C17 — slice utilities rearrange and partition exactly as documented, for all
// arguments. Definitional oracles, exhaustive over small sizes. "Capacity
// clipped" is checked behaviourally: appending to a returned subslice must not
// change any element of the underlying buffer outside that subslice.

func init() {
	fw.Register(&fw.Property{
		ID: "C17",
		Meta: func(tier string) fw.Meta {
			return fw.Meta{
				Flavours: []string{"plain", "cover", "386"},
				Blocks:   16,
				Procs:    16,
				Rule: "exhaustive enumeration: Partition: every keep/drop mask for n <= 16 (20 thorough), on exact-size slices and on windows of a larger guard-filled buffer; Rotate: every n <= 400 (1300) and every k in [-n-2, n+2] plus far out-of-range k; every function with counts/offsets near the ends of the int range (MaxInt, MaxInt-1, 2^62, 2^31, MinInt) and far out of range with low 8..62 bits that look like a valid value (m*2^w + d); Chunks/Batches: every len <= 40 (96) x every n in [-1, len+3], on windows with spare capacity; Head/Tail: every len <= 12 x n in [0, len+3]; Stripe: row-length vectors over {0..3}^<=4 x i in [0,4]; At/PtrAt: every len <= 12 x i in [-len-3, len+3]; Rotate of slices of 1..64 MiB (ints, uint32s, 64-byte structs; lengths that are multiples of 4096 and odd lengths, one prime) by shifts of both signs, by shifts sharing a large divisor with the length and by shifts in a simple ratio to it (half rounded either way, a third, all but one), checked after each shift; (thorough only) Rotate of a []byte of 2^31+17 elements by -1 and by 2^31-3; Rotate/Partition/Chunks/Batches instantiated with 15 ordinary element types of every width (byte, named byte slice, int8, bool, uint16, rune, uint32, int, uint64, float32, float64, string, small arrays, interface) on slices of 0..9000 elements around 256, 512, 1024 and 4096 with shifts around 0, n/2, 256, 512 and n. " +
					"Oracles: stable filter + permutation + append-does-not-clobber for Partition; element i moves to (i+k) mod n and out-of-range k panics for Rotate; concatenation by address, documented lengths/counts, append-does-not-clobber-a-later-subslice, no panic for allowed arguments (incl. empty slice) for Chunks/Batches; direct indexing for the rest. " +
					"distinct = enumerated argument tuples; non-trivial = the call had a non-empty slice argument",
				Required:     []string{"partition_masks", "rotate_cases", "chunks_cases", "batches_cases", "batches_of_empty", "head_tail_cases", "stripe_cases", "at_ptrat_cases", "expected_panics_seen", "extreme_argument_cases", "element_type_checks", "typed_rotate_cases", "typed_partition_cases", "typed_element_sweeps", "very_large_slice_rotations"},
				Exhaustive:   true,
				Assumptions:  []string{"'capacity-clipped' is read as: appending to a returned subslice cannot overwrite an element outside it (so a single whole-input chunk may keep the input's capacity)"},
				CoverPkgs:    []string{"github.com/creachadair/mds/slice"},
				CoverAnchors: []string{"slice/slice.go:Partition", "slice/slice.go:Rotate", "slice/slice.go:gcd", "slice/slice.go:sliceCheck", "slice/slice.go:indexCheck", "slice/slice.go:Chunks", "slice/slice.go:Batches", "slice/slice.go:Head", "slice/slice.go:Tail", "slice/slice.go:Stripe", "slice/slice.go:At", "slice/slice.go:PtrAt"},
			}
		},
		Run: runC17,
	})
}

const guard = -7777

// window returns buf[off:off+n] of a fresh buffer whose other cells hold guard
// values, with spare capacity behind the window when spare > 0.
func window(n, off, spare int) (buf, w []int) {
	buf = make([]int, off+n+spare)
	for i := range buf {
		buf[i] = guard - i
	}
	w = buf[off : off+n]
	for i := range w {
		w[i] = i
	}
	return buf, w
}

// appendClobbers reports whether appending to sub changes any cell of buf
// outside sub's own [start, start+len) cells.
func appendClobbers(buf []int, sub []int, start int) (bool, int) {
	before := append([]int(nil), buf...)
	_ = append(sub, 424242)
	for i := range buf {
		if buf[i] != before[i] && !(i >= start && i < start+len(sub)) {
			buf[i] = before[i]
			return true, i
		}
	}
	return false, -1
}

func c17partition(c *fw.Ctx, n int, mask uint, layout int) {
	off, spare := 0, 0
	if layout == 1 {
		off, spare = 2, 3
	}
	buf, vs := window(n, off, spare)
	caseData := map[string]any{"func": "Partition", "n": n, "keep_mask": fmt.Sprintf("%0*b", max(n, 1), mask), "window_offset": off, "spare_capacity": spare}
	keep := func(v int) bool { return mask>>uint(v)&1 == 1 }
	var want []int
	for i := 0; i < n; i++ {
		if keep(i) {
			want = append(want, i)
		}
	}
	var got []int
	ok, pv, stack := fw.Try(func() { got = slice.Partition(vs, keep) })
	c.Step()
	if !ok {
		c.FailKind("panic", caseData, "Partition panicked: %v\n%s", pv, stack)
		return
	}
	if !equalInts(got, want) {
		c.Fail(caseData, "Partition returned %v, want the kept elements in order %v", got, want)
		return
	}
	if len(got) > 0 && &got[0] != &vs[0] {
		c.Fail(caseData, "Partition result is not a prefix of its argument")
		return
	}
	perm := append([]int(nil), vs...)
	sort.Ints(perm)
	for i, v := range perm {
		if v != i {
			c.Fail(caseData, "after Partition the slice %v is not a permutation of its original contents", vs)
			return
		}
	}
	for i, v := range buf {
		if (i < off || i >= off+n) && v != guard-i {
			c.Fail(caseData, "Partition wrote outside the slice at buffer index %d", i)
			return
		}
	}
	if n > 0 {
		if bad, at := appendClobbers(buf, got, off); bad {
			c.Fail(caseData, "result is not capacity-clipped: appending to it overwrote buffer cell %d (result len %d cap %d)", at, len(got), cap(got))
		}
	}
}

func c17rotate(c *fw.Ctx, n, k int) {
	buf, vs := window(n, 1, 2)
	caseData := map[string]any{"func": "Rotate", "n": n, "k": k}
	valid := k >= -n && k <= n
	panicked, pv := fw.Panics(func() { slice.Rotate(vs, k) })
	c.Step()
	if panicked != !valid {
		c.Fail(caseData, "Rotate panicked=%v (%v) but k is %s the documented range [-n, n]", panicked, pv, map[bool]string{true: "inside", false: "outside"}[valid])
		return
	}
	if panicked {
		c.Add("expected_panics_seen", 1)
		for i, v := range vs {
			if v != i {
				c.Fail(caseData, "Rotate with out-of-range k modified the slice before panicking: %v", vs)
				return
			}
		}
		return
	}
	for i := 0; i < n; i++ {
		to := ((i+k)%n + n) % n
		if vs[to] != i {
			c.Fail(caseData, "Rotate: element originally at %d should be at %d; slice is %v", i, to, vs)
			return
		}
	}
	for i, v := range buf {
		if (i < 1 || i >= 1+n) && v != guard-i {
			c.Fail(caseData, "Rotate wrote outside the slice at buffer index %d", i)
			return
		}
	}
}

func c17chunksBatches(c *fw.Ctx, ln, n int, batches bool) {
	buf, vs := window(ln, 1, 4)
	name := "Chunks"
	if batches {
		name = "Batches"
	}
	caseData := map[string]any{"func": name, "len": ln, "n": n}
	var out [][]int
	panicked, pv := fw.Panics(func() {
		if batches {
			out = slice.Batches(vs, n)
		} else {
			out = slice.Chunks(vs, n)
		}
	})
	c.Step()
	if n < 0 {
		if !panicked {
			c.Fail(caseData, "%s with n < 0 did not panic", name)
		} else {
			c.Add("expected_panics_seen", 1)
		}
		return
	}
	if panicked {
		c.Fail(caseData, "%s panicked for an argument the documentation allows: %v", name, pv)
		return
	}
	lens := make([]int, len(out))
	for i, s := range out {
		lens[i] = len(s)
	}
	caseData["result_lengths"] = lens
	// concatenation by address
	pos := 0
	for i, s := range out {
		if len(s) > 0 {
			if pos >= ln || &s[0] != &vs[pos] {
				c.Fail(caseData, "%s: subslice %d does not start at element %d of the input", name, i, pos)
				return
			}
		}
		pos += len(s)
	}
	if pos != ln && !(batches && n == 0) { // Batches(vs, 0) is documented to return nil
		c.Fail(caseData, "%s: subslices cover %d of %d elements", name, pos, ln)
		return
	}
	if batches {
		if ln == 0 {
			c.Add("batches_of_empty", 1)
		}
		wantCount := min(n, ln)
		if len(out) != wantCount {
			c.Fail(caseData, "Batches returned %d batches, want min(n, len) = %d", len(out), wantCount)
			return
		}
		if n == 0 && out != nil {
			c.Fail(caseData, "Batches(vs, 0) is documented to return nil")
			return
		}
		lo, hi := ln, 0
		for _, l := range lens {
			lo, hi = min(lo, l), max(hi, l)
		}
		if len(out) > 0 && hi-lo > 1 {
			c.Fail(caseData, "Batches: lengths %v differ by more than one", lens)
			return
		}
	} else {
		if n == 0 {
			if len(out) != 1 {
				c.Fail(caseData, "Chunks(vs, 0) returned %d chunks, want the single whole input", len(out))
				return
			}
		} else {
			for i, l := range lens {
				if i < len(lens)-1 && l != n {
					c.Fail(caseData, "Chunks: chunk %d has length %d, want %d", i, l, n)
					return
				}
				if l > n {
					c.Fail(caseData, "Chunks: chunk %d has length %d > %d", i, l, n)
					return
				}
			}
			if ln > 0 && lens[len(lens)-1] == 0 {
				c.Fail(caseData, "Chunks: empty last chunk for a non-empty input")
				return
			}
		}
	}
	// appending to a subslice must not overwrite an element of a later subslice
	pos = 0
	for i, s := range out {
		if i < len(out)-1 {
			if bad, at := appendClobbers(buf, s, 1+pos); bad {
				c.Fail(caseData, "%s: subslice %d is not capacity-clipped: appending to it overwrote buffer cell %d (a later subslice)", name, i, at)
				return
			}
		}
		pos += len(s)
	}
}

func c17headTail(c *fw.Ctx, ln, n int) {
	_, vs := window(ln, 1, 2)
	caseData := map[string]any{"func": "Head/Tail", "len": ln, "n": n}
	var h, t []int
	ok, pv, stack := fw.Try(func() { h, t = slice.Head(vs, n), slice.Tail(vs, n) })
	c.Step()
	if !ok {
		c.FailKind("panic", caseData, "Head/Tail panicked: %v\n%s", pv, stack)
		return
	}
	m := min(n, ln)
	if !equalInts(h, vs[:m]) || (m > 0 && &h[0] != &vs[0]) {
		c.Fail(caseData, "Head returned %v want %v", h, vs[:m])
	}
	if !equalInts(t, vs[ln-m:]) || (m > 0 && &t[0] != &vs[ln-m]) {
		c.Fail(caseData, "Tail returned %v want %v", t, vs[ln-m:])
	}
}

func c17at(c *fw.Ctx, ln, i int) {
	_, vs := window(ln, 1, 2)
	caseData := map[string]any{"func": "At/PtrAt", "len": ln, "i": i}
	idx := i
	if idx < 0 {
		idx += ln
	}
	valid := idx >= 0 && idx < ln && i >= -ln
	var got int
	panicked, _ := fw.Panics(func() { got = slice.At(vs, i) })
	if panicked == valid || (valid && got != vs[idx]) {
		c.Fail(caseData, "At: panicked=%v value=%d; index in range=%v", panicked, got, valid)
	}
	if panicked {
		c.Add("expected_panics_seen", 1)
	}
	var p *int
	pp, pv := fw.Panics(func() { p = slice.PtrAt(vs, i) })
	c.Step()
	if pp {
		c.Fail(caseData, "PtrAt panicked (%v); it is documented to return nil when out of range", pv)
		return
	}
	if valid && p != &vs[idx] {
		c.Fail(caseData, "PtrAt does not point at element %d", idx)
	}
	if !valid && p != nil {
		c.Fail(caseData, "PtrAt returned a non-nil pointer for an out-of-range index")
	}
}

func c17stripe(c *fw.Ctx, rowLens []int, i int) {
	rows := make([][]int, len(rowLens))
	for r, l := range rowLens {
		rows[r] = make([]int, l)
		for j := range rows[r] {
			rows[r][j] = 100*r + j
		}
	}
	var want []int
	for r, l := range rowLens {
		if i < l {
			want = append(want, 100*r+i)
		}
	}
	var got []int
	caseData := map[string]any{"func": "Stripe", "row_lengths": rowLens, "i": i}
	ok, pv, stack := fw.Try(func() { got = slice.Stripe(rows, i) })
	c.Step()
	if !ok {
		c.FailKind("panic", caseData, "Stripe panicked: %v\n%s", pv, stack)
		return
	}
	if !equalInts(got, want) {
		c.Fail(caseData, "Stripe returned %v want %v", got, want)
	}
}

func runC17(c *fw.Ctx) {
	idx := 0
	// Partition
	maxN := c.Pick(16, 22)
	for n := 0; n <= maxN; n++ {
		if c.Begin(idx + n) {
			var cnt int64
			for mask := uint(c.Block); mask < 1<<uint(n); mask += uint(c.NBlocks) {
				for layout := 0; layout < 2; layout++ {
					c17partition(c, n, mask, layout)
					cnt++
				}
			}
			if n == 0 && c.Block == 0 {
				c17partition(c, 0, 0, 0)
				c17partition(c, 0, 0, 1)
			}
			c.Evals(cnt)
			c.Add("partition_masks", cnt)
			if n > 0 {
				c.SeenEnum(cnt)
			}
		}
	}
	idx += 100
	// Rotate
	maxR := c.Pick(400, 2200)
	for n := c.Block; n <= maxR; n += c.NBlocks {
		if c.Begin(idx + n) {
			var cnt int64
			for k := -n - 2; k <= n+2; k++ {
				c17rotate(c, n, k)
				cnt++
			}
			for _, k := range []int{-1000, 1000, -2*n - 1, 2*n + 1, 3 * n, -3 * n} {
				if k < -n-2 || k > n+2 {
					c17rotate(c, n, k)
					cnt++
				}
			}
			c.Evals(cnt)
			c.Add("rotate_cases", cnt)
			if n > 0 {
				c.SeenEnum(cnt)
			}
		}
	}
	idx += 100
	// Chunks / Batches
	maxL := c.Pick(40, 300)
	for ln := c.Block; ln <= maxL; ln += c.NBlocks {
		if c.Begin(idx + ln) {
			var cnt int64
			for n := -1; n <= ln+3; n++ {
				c17chunksBatches(c, ln, n, false)
				c17chunksBatches(c, ln, n, true)
				cnt++
			}
			c.Evals(2 * cnt)
			c.Add("chunks_cases", cnt)
			c.Add("batches_cases", cnt)
			if ln > 0 {
				c.SeenEnum(2 * cnt)
			}
		}
	}
	idx += 100
	// extreme arguments: chunk/batch counts and offsets near the ends of the int range
	if c.Begin(idx + c.Block) {
		var cnt int64
		huge := []int{math.MaxInt, math.MaxInt - 1, math.MaxInt - 2, math.MaxInt - 7, math.MaxInt / 2, clipInt(1 << 62), clipInt(1 << 32), clipInt(1 << 31), 1<<31 - 1}
		for ln := c.Block % 4; ln <= 12; ln += 4 {
			for _, n := range huge {
				c17chunksBatches(c, ln, n, false)
				c17chunksBatches(c, ln, n, true)
				c17headTail(c, ln, n)
				c17at(c, ln, n)
				c17at(c, ln, -n)
				c17at(c, ln, math.MinInt)
				c17rotate(c, ln, n)
				c17rotate(c, ln, -n)
				cnt += 8
			}
		}
		// arguments far out of range whose low 8..62 bits look like a valid count/offset
		for ln := c.Block % 4; ln <= 300; ln = ln*3 + 4 {
			for _, n := range truncInts(ln) {
				if n > 0 {
					c17chunksBatches(c, ln, n, false)
					c17chunksBatches(c, ln, n, true)
					c17headTail(c, ln, n)
					cnt += 3
				}
				c17at(c, ln, n)
				c17rotate(c, ln, n)
				cnt += 2
			}
		}
		c.Evals(cnt)
		c.Add("extreme_argument_cases", cnt)
		c.SeenEnum(cnt)
	}
	if c.Block == 0 && c.Begin(idx+50) {
		// nil slices: every function must treat them like empty ones
		var nilInts []int
		ok, pv, stack := fw.Try(func() {
			if got := slice.Partition(nilInts, func(int) bool { return true }); len(got) != 0 {
				c.Fail(map[string]any{"func": "Partition", "arg": "nil"}, "Partition(nil) = %v", got)
			}
			slice.Rotate(nilInts, 0)
			for n := 0; n <= 3; n++ {
				if ch := slice.Chunks(nilInts, n); len(ch) > 1 || (len(ch) == 1 && len(ch[0]) != 0) {
					c.Fail(map[string]any{"func": "Chunks", "arg": "nil", "n": n}, "Chunks(nil, %d) = %v", n, ch)
				}
				if b := slice.Batches(nilInts, n); len(b) != 0 {
					c.Fail(map[string]any{"func": "Batches", "arg": "nil", "n": n}, "Batches(nil, %d) = %v", n, b)
				}
				if h, t := slice.Head(nilInts, n), slice.Tail(nilInts, n); len(h) != 0 || len(t) != 0 {
					c.Fail(map[string]any{"func": "Head/Tail", "arg": "nil", "n": n}, "Head/Tail(nil, %d) = %v %v", n, h, t)
				}
			}
			if slice.PtrAt(nilInts, 0) != nil || slice.PtrAt(nilInts, -1) != nil {
				c.Fail(map[string]any{"func": "PtrAt", "arg": "nil"}, "PtrAt(nil, i) is not nil")
			}
			if len(slice.Stripe([][]int{nil, {1}, nil}, 0)) != 1 || len(slice.Stripe[int]([][]int(nil), 0)) != 0 {
				c.Fail(map[string]any{"func": "Stripe", "arg": "nil rows"}, "Stripe with nil rows misbehaves")
			}
		})
		if !ok {
			c.FailKind("panic", map[string]any{"arg": "nil slice"}, "panic on a nil slice: %v\n%s", pv, stack)
		}
		if p, _ := fw.Panics(func() { slice.At(nilInts, 0) }); !p {
			c.Fail(map[string]any{"func": "At", "arg": "nil"}, "At(nil, 0) did not panic")
		}
		c.Add("nil_slice_checks", 1)
	}
	if c.Block == 1%c.NBlocks && c.Begin(idx+60) {
		// other element types: zero-size elements, strings, pointers, large structs
		ok, pv, stack := fw.Try(func() {
			type big struct {
				ID  int
				Pad [40]int64
			}
			for n := 0; n <= 9; n++ {
				z := make([]struct{}, n)
				strs := make([]string, n)
				ptrs := make([]*int, n)
				bigs := make([]big, n)
				for i := 0; i < n; i++ {
					strs[i] = fmt.Sprint("s", i)
					v := i
					ptrs[i] = &v
					bigs[i].ID = i
					bigs[i].Pad[39] = int64(i)
				}
				for k := -n; k <= n; k++ {
					slice.Rotate(z, k)
					s2 := append([]string(nil), strs...)
					p2 := append([]*int(nil), ptrs...)
					b2 := append([]big(nil), bigs...)
					slice.Rotate(s2, k)
					slice.Rotate(p2, k)
					slice.Rotate(b2, k)
					for i := 0; i < n; i++ {
						to := ((i+k)%n + n) % n
						if s2[to] != strs[i] || p2[to] != ptrs[i] || b2[to] != bigs[i] {
							c.Fail(map[string]any{"func": "Rotate", "n": n, "k": k, "element_types": "string, *int, 328-byte struct"}, "Rotate moved element %d to the wrong place", i)
							return
						}
					}
				}
				cnt := 0
				kept := slice.Partition(z, func(struct{}) bool { cnt++; return cnt%2 == 1 })
				if len(kept) != (n+1)/2 {
					c.Fail(map[string]any{"func": "Partition", "n": n, "element_type": "struct{}"}, "Partition kept %d of %d zero-size elements, the predicate accepted %d", len(kept), n, (n+1)/2)
					return
				}
				for m := 0; m <= n+1; m++ {
					tot := 0
					for _, ch := range slice.Chunks(z, m) {
						tot += len(ch)
					}
					tb := 0
					for _, b := range slice.Batches(z, m) {
						tb += len(b)
					}
					if tot != n || (m > 0 && tb != n) {
						c.Fail(map[string]any{"func": "Chunks/Batches", "n": n, "m": m, "element_type": "struct{}"}, "Chunks/Batches of zero-size elements cover %d / %d of %d", tot, tb, n)
						return
					}
				}
				c.Step()
			}
		})
		if !ok {
			c.FailKind("panic", map[string]any{"element_types": "struct{}, string, *int, large struct"}, "panic with a non-int element type: %v\n%s", pv, stack)
		}
		c.Add("element_type_checks", 1)
	}
	if c.Begin(idx + 70 + c.Block) {
		// ordinary element types of every width, large slices
		mix := func(i int) int { return i*131 + i>>8 }
		c17typed[byte, []byte](c, "byte", func(i int) byte { return byte(mix(i)) })
		c17typed[byte, c17namedBytes](c, "byte (named slice type)", func(i int) byte { return byte(mix(i)) })
		c17typed[int8, []int8](c, "int8", func(i int) int8 { return int8(mix(i)) })
		c17typed[bool, []bool](c, "bool", func(i int) bool { return mix(i)%3 == 0 })
		c17typed[uint16, []uint16](c, "uint16", func(i int) uint16 { return uint16(i) })
		c17typed[rune, []rune](c, "rune", func(i int) rune { return rune(i) })
		c17typed[uint32, []uint32](c, "uint32", func(i int) uint32 { return uint32(i) })
		c17typed[int, []int](c, "int", func(i int) int { return i })
		c17typed[uint64, []uint64](c, "uint64", func(i int) uint64 { return uint64(i) << 33 })
		c17typed[float64, []float64](c, "float64", func(i int) float64 { return float64(i) + 0.5 })
		c17typed[float32, []float32](c, "float32", func(i int) float32 { return float32(i) })
		c17typed[string, []string](c, "string", func(i int) string { return fmt.Sprint("s", i) })
		c17typed[[3]byte, [][3]byte](c, "[3]byte", func(i int) [3]byte { return [3]byte{byte(i), byte(i >> 8), 7} })
		c17typed[[2]string, [][2]string](c, "[2]string", func(i int) [2]string { return [2]string{fmt.Sprint(i), "x"} })
		c17typed[any, []any](c, "any", func(i int) any {
			if i%2 == 0 {
				return i
			}
			return fmt.Sprint(i)
		})
		c.Add("typed_element_sweeps", 15)
	}
	if strconv.IntSize == 64 && c.Begin(idx+80+c.Block) {
		// very large slices (8 .. 64 MiB): ints, bytes, 64-byte structs; shifts of both signs
		type wide struct {
			ID  int
			Pad [7]int64
		}
		rotate := func(name string, n int, rot func(k int), at func(i int) int) bool {
			// shifts of both signs; for sizes that are multiples of 1024 also shifts
			// that share a large divisor with n (many short cycles)
			// and shifts in a simple ratio to n (half, a third, all but one), which for
			// odd n are (n-1)/2 and (n+1)/2 in both directions
			shifts := []int{-1, 1, -(n / 2), n/2 + 1, -(n - 7), n - 3, -5, 4099, 1024, -4096, 6144, n / 4, -(n / 8), 3 * (n / 16),
				n / 2, -(n/2 + 1), (n + 1) / 2, -((n - 1) / 2), n/2 - 1, n / 3, -(n / 3), 2*(n/3) + 1, n - 1, -(n - 1)}
			total := 0
			for si, k := range shifts {
				rot(k) // nothing is undone: shifts accumulate, and the state is checked after each
				total += k
				kk := ((total % n) + n) % n
				for i := 0; i < n; i += 1 + i/64 {
					to := i + kk
					if to >= n {
						to -= n
					}
					if at(to) != i {
						c.Fail(map[string]any{"func": "Rotate", "element_type": name, "n": n, "shifts_applied_in_turn": shifts[:si+1], "gomaxprocs": runtime.GOMAXPROCS(0)}, "after the last of these shifts (%d) the element originally at index %d is not at index %d", k, i, to)
						return false
					}
				}
				c.Step()
			}
			return true
		}
		ok, pv, stack := fw.Try(func() {
			// blocks 0..7: multiples of 4096, so that shifts by 1024, 4096, n/4 ... split the slice into many cycles;
			// blocks 8..15: odd lengths (one of them prime), from just over 1 MiB of ints upwards
			n := []int{1 << 20, 513 * 4096, 1<<21 + 4096, 1 << 22, 1<<23 + 8192, 3 << 20, 1 << 24, 1<<25 + 4096,
				131073, 1<<20 + 1, 999983, 1<<21 - 1, 1<<22 + 1, 1500001, 3<<21 + 1, 1<<24 + 1}[c.Block%16]
			switch c.Block % 3 {
			case 0:
				vs := make([]int, n)
				for i := range vs {
					vs[i] = i
				}
				rotate("int", n, func(k int) { slice.Rotate(vs, k) }, func(i int) int { return vs[i] })
			case 1:
				vs := make([]uint32, n)
				for i := range vs {
					vs[i] = uint32(i)
				}
				rotate("uint32", n, func(k int) { slice.Rotate(vs, k) }, func(i int) int { return int(vs[i]) })
			default:
				m := n / 8
				if n%2 == 1 {
					m |= 1
				}
				vs := make([]wide, m)
				for i := range vs {
					vs[i].ID = i
				}
				rotate("64-byte struct", m, func(k int) { slice.Rotate(vs, k%m) }, func(i int) int { return vs[i].ID })
			}
		})
		if !ok {
			c.FailKind("panic", map[string]any{"func": "Rotate", "phase": "very large slices"}, "panic: %v\n%s", pv, stack)
		}
		c.Add("very_large_slice_rotations", 1)
	}
	if c.Thorough() && strconv.IntSize == 64 && c.Block < 2 && c.Begin(idx+90+c.Block) {
		// a slice of more than 2^31 elements (2 GiB of bytes): index arithmetic
		// narrower than 64 bits wraps here; thorough tier only (about 30 s)
		n := clipInt(1<<31 + 17)
		k := []int{-1, 1<<31 - 3}[c.Block]
		mk := func(i int) byte { return byte(i*131 + i>>8 + i>>17 + i>>26) }
		ok, pv, stack := fw.Try(func() {
			bs := make([]byte, n)
			for i := range bs {
				bs[i] = mk(i)
			}
			c.Step()
			slice.Rotate(bs, k)
			c.Step()
			kk := ((k % n) + n) % n
			for i := 0; i < n; i++ {
				to := i + kk
				if to >= n {
					to -= n
				}
				if bs[to] != mk(i) {
					c.Fail(map[string]any{"func": "Rotate", "element_type": "byte", "n": n, "k": k}, "Rotate of a slice of 2^31+17 elements: the element originally at index %d is not at index %d", i, to)
					return
				}
				if i&(1<<26-1) == 0 {
					c.Step()
				}
			}
		})
		if !ok {
			c.FailKind("panic", map[string]any{"func": "Rotate", "n": n, "k": k}, "panic: %v\n%s", pv, stack)
		}
		c.Add("huge_slice_rotations", 1)
	}
	idx += 100
	// Head/Tail, At/PtrAt
	for ln := c.Block; ln <= 12; ln += c.NBlocks {
		if c.Begin(idx + ln) {
			var a, b int64
			for n := 0; n <= ln+3; n++ {
				c17headTail(c, ln, n)
				a++
			}
			for i := -ln - 3; i <= ln+3; i++ {
				c17at(c, ln, i)
				b++
			}
			c.Evals(a + b)
			c.Add("head_tail_cases", a)
			c.Add("at_ptrat_cases", b)
			if ln > 0 {
				c.SeenEnum(a + b)
			}
		}
	}
	idx += 100
	// Stripe
	if c.Begin(idx + c.Block) {
		var cnt int64
		code := 0
		for rows := 0; rows <= 4; rows++ {
			total := 1
			for i := 0; i < rows; i++ {
				total *= 4
			}
			for x := 0; x < total; x++ {
				code++
				if code%c.NBlocks != c.Block {
					continue
				}
				lens := make([]int, rows)
				y := x
				for i := range lens {
					lens[i] = y % 4
					y /= 4
				}
				for i := 0; i <= 4; i++ {
					c17stripe(c, lens, i)
					cnt++
				}
			}
		}
		c.Evals(cnt)
		c.Add("stripe_cases", cnt)
		c.SeenEnum(cnt)
		if c.WantSample() {
			c.Sample(map[string]any{"func": "Batches", "len": 7, "n": 3, "result": fmt.Sprint(slice.Batches([]int{0, 1, 2, 3, 4, 5, 6}, 3))})
			c.Sample(map[string]any{"func": "Rotate", "n": 5, "k": -2, "result": func() []int { v := []int{0, 1, 2, 3, 4}; slice.Rotate(v, -2); return v }()})
		}
	}
}

// c17typed checks Rotate, Partition, Chunks and Batches for one ordinary
// element type on slices up to well past 256, 512 and 4096 elements: a path
// specialised for an element type or width, with its own size thresholds,
// must obey the same rules as the generic one.
func c17typed[T comparable, S ~[]T](c *fw.Ctx, name string, mk func(i int) T) {
	sizes := []int{0, 1, 2, 3, 5, 8, 16, 17, 31, 33, 64, 100, 255, 256, 257, 258, 300, 511, 512, 513, 514, 515, 600, 700, 1023, 1024, 1025, 2000, 4095, 4096, 4097, 5000, 9000}
	for si, n := range sizes {
		if si%c.NBlocks != c.Block%c.NBlocks && n > 64 {
			continue
		}
		orig := make(S, n)
		for i := range orig {
			orig[i] = mk(i)
		}
		ks := map[int]bool{}
		for _, k := range []int{0, 1, 2, 3, n / 2, n/2 - 1, n/2 + 1, n / 3, 255, 256, 257, 258, 300, 511, 512, 513, n - 1, n - 2, n - 255, n - 256, n - 257, n - 258, n - 300, n - 513, n} {
			if k >= 0 && k <= n {
				ks[k], ks[-k] = true, true
			}
		}
		for k := range ks {
			vs := append(S(nil), orig...)
			data := map[string]any{"func": "Rotate", "element_type": name, "n": n, "k": k}
			ok, pv, stack := fw.Try(func() { slice.Rotate(vs, k) })
			if !ok {
				c.FailKind("panic", data, "Rotate panicked for k inside [-n, n]: %v\n%s", pv, stack)
				return
			}
			for i := 0; i < n; i++ {
				to := ((i+k)%n + n) % n
				if vs[to] != orig[i] {
					c.Fail(data, "Rotate: the element originally at index %d is not at index %d", i, to)
					return
				}
			}
			c.Add("typed_rotate_cases", 1)
		}
		// Partition: stable filter by value, whole slice a permutation
		for _, mod := range []int{2, 3, 7} {
			vs := append(S(nil), orig...)
			idx := map[T]int{}
			for i, v := range orig {
				if _, ok := idx[v]; !ok {
					idx[v] = i
				}
			}
			pred := func(v T) bool { return idx[v]%mod == 0 }
			var want S
			count := map[T]int{}
			for _, v := range orig {
				count[v]++
				if pred(v) {
					want = append(want, v)
				}
			}
			data := map[string]any{"func": "Partition", "element_type": name, "n": n, "keep": fmt.Sprintf("first index of the value %% %d == 0", mod)}
			var got S
			ok, pv, stack := fw.Try(func() { got = slice.Partition(vs, pred) })
			if !ok {
				c.FailKind("panic", data, "Partition panicked: %v\n%s", pv, stack)
				return
			}
			if len(got) != len(want) {
				c.Fail(data, "Partition kept %d elements, the predicate accepts %d", len(got), len(want))
				return
			}
			for i := range got {
				if got[i] != want[i] {
					c.Fail(data, "Partition: kept element %d differs from the stable filter", i)
					return
				}
			}
			for _, v := range vs {
				count[v]--
			}
			for _, n := range count {
				if n != 0 {
					c.Fail(data, "Partition left the slice no permutation of its original contents")
					return
				}
			}
			c.Add("typed_partition_cases", 1)
		}
		// Chunks / Batches: concatenation and lengths
		for _, m := range []int{1, 2, 3, 255, 256, 257, n/2 + 1, n, n + 1} {
			if m <= 0 {
				continue
			}
			var cat S
			chs := slice.Chunks(orig, m)
			for i, ch := range chs {
				if i < len(chs)-1 && len(ch) != m {
					c.Fail(map[string]any{"func": "Chunks", "element_type": name, "n": n, "m": m}, "chunk %d has length %d", i, len(ch))
					return
				}
				cat = append(cat, ch...)
			}
			var catb S
			bs := slice.Batches(orig, m)
			lo, hi := n, 0
			for _, b := range bs {
				lo, hi = min(lo, len(b)), max(hi, len(b))
				catb = append(catb, b...)
			}
			if len(bs) != min(m, n) || (len(bs) > 0 && hi-lo > 1) {
				c.Fail(map[string]any{"func": "Batches", "element_type": name, "n": n, "m": m}, "Batches returned %d batches with lengths between %d and %d", len(bs), lo, hi)
				return
			}
			if len(cat) != n || len(catb) != n {
				c.Fail(map[string]any{"func": "Chunks/Batches", "element_type": name, "n": n, "m": m}, "concatenation has %d / %d of %d elements", len(cat), len(catb), n)
				return
			}
			for i := range orig {
				if cat[i] != orig[i] || catb[i] != orig[i] {
					c.Fail(map[string]any{"func": "Chunks/Batches", "element_type": name, "n": n, "m": m}, "concatenation differs from the input at index %d", i)
					return
				}
			}
		}
		c.Step()
	}
}

type c17namedBytes []byte
