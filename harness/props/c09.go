//go:build pC09 || pall

package props

import (
	"fmt"
	"math/rand/v2"
	"runtime"
	"sort"
	"strings"
	"sync"
	"sync/atomic"
	"time"

	"github.com/anishathalye/porcupine"
	"github.com/creachadair/mds/cache"
	"verif/harness/fw"
)

// C09 — cache.Cache is safe and linearizable under concurrent use.
//
// Five monitors (DESIGN.md §5 C09):
//  1. Go race detector (flavour "race") over a stress phase with no shared recording;
//  2. linearizability of many short recorded histories, checked with porcupine
//     against the C08 reference LRU;
//  3. Store serialisation: a proxy around the LRU store requires at most one
//     Store method in flight, and widens windows with yields/sleeps;
//  4. accounting over the eviction log: every value id put is reported at most
//     once, exactly once after a final Clear at quiescence, nothing unknown;
//     Size <= limit at every observation (Size() results and hook probes);
//  5. the Go runtime itself (fatal errors, panics) via the driver.

func init() {
	fw.Register(&fw.Property{
		ID: "C09",
		Meta: func(tier string) fw.Meta {
			return fw.Meta{
				Flavours: []string{"race", "plain", "386"},
				Blocks:   16,
				Procs:    8,
				Rule: "case = one concurrent run on one cache (LRU store behind a serialisation-checking proxy, or - a quarter of the recorded histories - the plain cache a user builds: no proxy, no eviction callback; 3-5 keys so that at most 5 heap entries exist and finding F1 cannot occur; limit 2-4 with unit sizes or limit 4-8 with sizes 0-3). " +
					"(a) linearizability cases: 2-4 goroutines x 4-8 ops of Has/Get/Put/Remove/Len/Size/Clear, call/return stamped from one atomic counter at the client boundary, unique value id per Put, checked with porcupine against the reference LRU (no partitioning: eviction/Len/Size/Clear couple the keys), then a final Clear and the exactly-once accounting of the eviction log; " +
					"(b) stress cases: 2-8 goroutines x 150-400 ops with goroutine-local results only (no harness synchronisation that could hide a race), an observer goroutine probing Size() and the accounting hook, run under the race detector and plain. (c) large-cache cases: a cache of 257..4097 unit entries is cleared while 2-4 observers call Len/Size (and optionally one Put races): every observation must be explained by Clear being one atomic step, and every entry must be reported evicted exactly once. (d) high-rate invariant cases without recording: a key that is only ever replaced must always be reported present; after a goroutine's own Clear its private key must be absent. GOMAXPROCS in {1,2,4,16} by block; random yields before calls and inside the proxy/size function/eviction callback. " +
					"(e) independent caches: 2-8 caches that share nothing, each built and used by one goroutine, busy at the same time for thousands of operations; every answer of each is compared with its own reference LRU as in a sequential history (also under the race detector). " +
					"distinct = hash(per-client op lists, set of overlapping op pairs) = distinct interleavings observed; non-trivial = at least one pair of conflicting operations (same key, or one of them Len/Size/Clear/evicting Put) overlapped in real time",
				Required:     []string{"lin_histories", "lin_overlapping_conflicting_pairs", "lin_histories_with_eviction_and_overlap", "stress_rounds", "stress_ops", "store_proxy_calls", "observer_probes", "evictions_logged", "porcupine_ok", "large_clear_cases", "large_clear_observations", "invariant_cases", "invariant_ops", "histories_on_plain_cache", "histories_with_sizes_beyond_2_to_the_31", "monotone_observation_cases", "independent_cache_rounds"},
				Assumptions:  []string{"sequential specification = reference LRU of C08; key space <= 5 so that the heap never has more than 5 entries and known finding F1/F2 cannot influence results", "the race detector only sees accesses that actually overlapped without an intervening happens-before edge", "porcupine v1.3.0 is trusted as the linearizability decision procedure (60 s timeout => inconclusive)"},
				CoverPkgs:    []string{"github.com/creachadair/mds/cache"},
				CoverAnchors: []string{"cache/cache.go"},
				HangTicks:    600,
			}
		},
		Run: runC09,
	})
}

// --- store proxy -----------------------------------------------------------

type c09proxy struct {
	inner    cache.Store[int, CVal]
	inflight atomic.Int32
	calls    atomic.Int64
	overlap  atomic.Int64 // times more than one Store method was in flight
	jit      *c09jitter
}

func (p *c09proxy) enter() {
	p.calls.Add(1)
	if p.inflight.Add(1) != 1 {
		p.overlap.Add(1)
	}
	p.jit.maybe()
}
func (p *c09proxy) leave() { p.inflight.Add(-1) }

func (p *c09proxy) Access(k int) (CVal, bool) { p.enter(); defer p.leave(); return p.inner.Access(k) }
func (p *c09proxy) Check(k int) (CVal, bool)  { p.enter(); defer p.leave(); return p.inner.Check(k) }
func (p *c09proxy) Store(k int, v CVal)       { p.enter(); defer p.leave(); p.inner.Store(k, v) }
func (p *c09proxy) Remove(k int)              { p.enter(); defer p.leave(); p.inner.Remove(k) }
func (p *c09proxy) Evict() (int, CVal)        { p.enter(); defer p.leave(); return p.inner.Evict() }

// c09jitter yields or sleeps now and then; its own state is an atomic counter
// mixed with a per-run salt, so it is goroutine-safe and adds no happens-before
// edges beyond atomics.
type c09jitter struct {
	ctr  atomic.Uint64
	salt uint64
	on   bool
}

func (j *c09jitter) maybe() {
	if j == nil || !j.on {
		return
	}
	x := (j.ctr.Add(1) + j.salt) * 0x9e3779b97f4a7c15
	switch (x >> 40) % 16 {
	case 0, 1, 2:
		runtime.Gosched()
	case 3:
		time.Sleep(time.Duration(1+(x>>20)%50) * time.Microsecond)
	}
}

// --- the cache under test with all monitors attached -----------------------

type c09rig struct {
	ch     *cache.Cache[int, CVal]
	proxy  *c09proxy
	limit  int64
	unit   bool
	mu     sync.Mutex // guards evlog (the monitor's own state must be thread-safe)
	evlog  []lruEntry
	nevict atomic.Int64
	record bool
	// shift: with a size function, sizes and the limit are multiplied by
	// 2^shift, so that totals pass 2^31, 2^32 and 2^40
	shift uint
}

func newC09rig(limit int64, unit bool, salt uint64, jitter, record bool) *c09rig {
	return newC09rigOpt(limit, unit, salt, jitter, record, false)
}

// newC09rigOpt with bare=true builds the cache the way a plain user does: the
// LRU store itself (no proxy in front of it) and no eviction callback. Only
// the client-side monitors (linearizability, Size <= limit, the accounting
// hook at quiescence) apply then.
func newC09rigOpt(limit int64, unit bool, salt uint64, jitter, record, bare bool) *c09rig {
	return newC09rigFull(limit, unit, salt, jitter, record, bare, 0)
}

func newC09rigFull(limit int64, unit bool, salt uint64, jitter, record, bare bool, shift uint) *c09rig {
	if unit {
		shift = 0
	}
	rig := &c09rig{limit: limit, unit: unit, record: record, shift: shift}
	jit := &c09jitter{salt: salt, on: jitter}
	conf := cache.LRU[int, CVal]()
	rig.proxy = &c09proxy{inner: cache.VerifStoreOf(conf), jit: jit}
	if bare {
		if !unit {
			conf = conf.WithSize(func(v CVal) int64 { jit.maybe(); return v.Sz << shift })
		}
		rig.ch = cache.New(limit<<shift, conf)
		return rig
	}
	conf = conf.WithStore(rig.proxy).OnEvict(func(k int, v CVal) {
		rig.nevict.Add(1)
		if rig.record {
			rig.mu.Lock()
			rig.evlog = append(rig.evlog, lruEntry{k, v})
			rig.mu.Unlock()
		}
		jit.maybe()
	})
	if !unit {
		conf = conf.WithSize(func(v CVal) int64 { jit.maybe(); return v.Sz << shift })
	}
	rig.ch = cache.New(limit<<shift, conf)
	return rig
}

// --- linearizability -------------------------------------------------------

type c09in struct {
	Op byte // P G H R L S C
	K  int
	V  CVal
}

type c09out struct {
	OK bool
	V  CVal
	N  int64
}

func (i c09in) String() string {
	switch i.Op {
	case 'P':
		return fmt.Sprintf("Put(%d,id%d/sz%d)", i.K, i.V.ID, i.V.Sz)
	case 'G':
		return fmt.Sprintf("Get(%d)", i.K)
	case 'H':
		return fmt.Sprintf("Has(%d)", i.K)
	case 'R':
		return fmt.Sprintf("Remove(%d)", i.K)
	case 'L':
		return "Len()"
	case 'S':
		return "Size()"
	case 'C':
		return "Clear()"
	}
	return "?"
}

func c09encode(m *lruModel) string {
	var sb strings.Builder
	for _, e := range m.Es {
		fmt.Fprintf(&sb, "%d:%d:%d,", e.K, e.V.ID, e.V.Sz)
	}
	return sb.String()
}

func c09decode(s string, limit int64) *lruModel {
	m := &lruModel{Limit: limit}
	for _, f := range strings.Split(s, ",") {
		if f == "" {
			continue
		}
		var e lruEntry
		fmt.Sscanf(f, "%d:%d:%d", &e.K, &e.V.ID, &e.V.Sz)
		m.Es = append(m.Es, e)
	}
	return m
}

func c09model(limit int64) porcupine.Model {
	return porcupine.Model{
		Init: func() any { return "" },
		Step: func(state, input, output any) (bool, any) {
			m := c09decode(state.(string), limit)
			in, out := input.(c09in), output.(c09out)
			switch in.Op {
			case 'P':
				ok, _, _ := m.put(in.K, in.V)
				return out.OK == ok, c09encode(m)
			case 'G':
				v, ok := m.get(in.K)
				return out.OK == ok && out.V == v, c09encode(m)
			case 'H':
				return out.OK == m.has(in.K), state
			case 'R':
				_, ok := m.remove(in.K)
				return out.OK == ok, c09encode(m)
			case 'L':
				return out.N == int64(len(m.Es)), state
			case 'S':
				return out.N == m.size(), state
			case 'C':
				m.clear()
				return true, ""
			}
			return false, state
		},
		DescribeOperation: func(input, output any) string {
			in, out := input.(c09in), output.(c09out)
			return fmt.Sprintf("%v -> ok=%v v=id%d n=%d", in, out.OK, out.V.ID, out.N)
		},
	}
}

func c09apply(rig *c09rig, in c09in) c09out {
	switch in.Op {
	case 'P':
		return c09out{OK: rig.ch.Put(in.K, in.V)}
	case 'G':
		v, ok := rig.ch.Get(in.K)
		return c09out{OK: ok, V: v}
	case 'H':
		return c09out{OK: rig.ch.Has(in.K)}
	case 'R':
		return c09out{OK: rig.ch.Remove(in.K)}
	case 'L':
		return c09out{N: int64(rig.ch.Len())}
	case 'S':
		n := rig.ch.Size()
		if rig.shift > 0 {
			if n&(1<<rig.shift-1) != 0 || n < 0 {
				return c09out{N: -1 - n&(1<<62-1)} // not a multiple of the unit: no model state matches
			}
			n >>= rig.shift
		}
		return c09out{N: n}
	case 'C':
		rig.ch.Clear()
	}
	return c09out{}
}

func c09genClient(r *rand.Rand, n, keys int, unit bool, limit int64, nextID *int) []c09in {
	ops := make([]c09in, n)
	for i := range ops {
		k := r.IntN(keys)
		switch x := r.IntN(20); {
		case x < 7:
			*nextID++
			sz := int64(1)
			if !unit {
				sz = int64(r.IntN(4))
				if r.IntN(12) == 0 {
					sz = limit + 1 // never fits
				}
			}
			ops[i] = c09in{Op: 'P', K: k, V: CVal{ID: *nextID, Sz: sz}}
		case x < 12:
			ops[i] = c09in{Op: 'G', K: k}
		case x < 14:
			ops[i] = c09in{Op: 'H', K: k}
		case x < 17:
			ops[i] = c09in{Op: 'R', K: k}
		case x < 18:
			ops[i] = c09in{Op: 'L'}
		case x < 19:
			ops[i] = c09in{Op: 'S'}
		default:
			ops[i] = c09in{Op: 'C'}
		}
	}
	return ops
}

type c09event struct {
	client    int
	in        c09in
	out       c09out
	call, ret int64
}

func conflicting(a, b c09in) bool {
	global := func(x c09in) bool { return x.Op == 'L' || x.Op == 'S' || x.Op == 'C' || x.Op == 'P' }
	if a.Op == 'H' && b.Op == 'H' {
		return false
	}
	return a.K == b.K || global(a) || global(b)
}

func c09linCase(c *fw.Ctx, r *rand.Rand) {
	nclients := 2 + r.IntN(3)
	keys := 3 + r.IntN(3)
	unit := r.IntN(3) != 0
	limit := int64(2 + r.IntN(3))
	if !unit {
		limit = int64(4 + r.IntN(5))
	}
	nextID := 0
	clients := make([][]c09in, nclients)
	for i := range clients {
		clients[i] = c09genClient(r, 4+r.IntN(5), keys, unit, limit, &nextID)
	}
	salt := r.Uint64()
	bare := salt%4 == 3 // a quarter of the histories: no store proxy, no eviction callback
	shift := []uint{0, 0, 0, 29, 31, 32, 33, 40}[salt>>8%8]
	rig := newC09rigFull(limit, unit, salt, true, true, bare, shift)
	if !unit && shift > 0 {
		c.Add("histories_with_sizes_beyond_2_to_the_31", 1)
	}
	if bare {
		c.Add("histories_on_plain_cache", 1)
	}
	var clock atomic.Int64
	events := make([][]c09event, nclients)
	preYield := make([][]byte, nclients)
	for i := range clients {
		preYield[i] = make([]byte, len(clients[i]))
		for j := range preYield[i] {
			preYield[i][j] = byte(r.IntN(6))
		}
	}
	var wg sync.WaitGroup
	start := make(chan struct{})
	for ci := range clients {
		wg.Add(1)
		go func(ci int) {
			defer wg.Done()
			<-start
			evs := make([]c09event, 0, len(clients[ci]))
			for j, in := range clients[ci] {
				switch preYield[ci][j] {
				case 0, 1:
					runtime.Gosched()
				case 2:
					for s := 0; s < 200; s++ {
						_ = s
					}
				}
				ev := c09event{client: ci, in: in}
				ev.call = clock.Add(1) // call recorded before invoking
				ev.out = c09apply(rig, in)
				ev.ret = clock.Add(1) // return recorded after the reply
				evs = append(evs, ev)
				c.Step()
			}
			events[ci] = evs
		}(ci)
	}
	close(start)
	wg.Wait()

	var all []c09event
	for _, evs := range events {
		all = append(all, evs...)
	}
	sort.Slice(all, func(i, j int) bool { return all[i].call < all[j].call })
	describe := func() map[string]any {
		lines := make([]string, len(all))
		for i, e := range all {
			lines[i] = fmt.Sprintf("client %d  call@%d ret@%d  %v -> ok=%v v=id%d/sz%d n=%d", e.client, e.call, e.ret, e.in, e.out.OK, e.out.V.ID, e.out.V.Sz, e.out.N)
		}
		rig.mu.Lock()
		ev := fmt.Sprint(rig.evlog)
		rig.mu.Unlock()
		return map[string]any{"limit": limit, "unit_sizes": unit, "keys": keys, "plain_cache_without_proxy_and_callback": bare, "sizes_times_2_to_the": shift, "gomaxprocs": runtime.GOMAXPROCS(0), "history_by_call_time": lines, "eviction_log": ev}
	}

	// (3) store serialisation
	c.Add("store_proxy_calls", rig.proxy.calls.Load())
	if n := rig.proxy.overlap.Load(); n > 0 {
		c.Fail(describe(), "Store methods of the cache's store were in flight concurrently %d time(s): the cache does not serialise access to its store", n)
		return
	}
	// Size observations
	for _, e := range all {
		if e.in.Op == 'S' && e.out.N > limit {
			c.Fail(describe(), "Size() returned %d, above the limit %d", e.out.N, limit)
			return
		}
	}
	// (4) accounting: before the final Clear each id at most once, all known
	putOK := map[int]int{} // id -> key for successful puts
	for _, e := range all {
		if e.in.Op == 'P' && e.out.OK {
			putOK[e.in.V.ID] = e.in.K
		}
	}
	check := func(final bool) bool {
		if bare {
			return true
		}
		rig.mu.Lock()
		log := append([]lruEntry(nil), rig.evlog...)
		rig.mu.Unlock()
		seen := map[int]int{}
		for _, e := range log {
			k, ok := putOK[e.V.ID]
			if !ok || k != e.K {
				c.Fail(describe(), "eviction callback reported (key %d, value id%d) which no successful Put stored", e.K, e.V.ID)
				return false
			}
			seen[e.V.ID]++
			if seen[e.V.ID] > 1 {
				c.Fail(describe(), "value id%d (key %d) was reported to the eviction callback %d times", e.V.ID, e.K, seen[e.V.ID])
				return false
			}
		}
		if final && len(seen) != len(putOK) {
			var missing []int
			for id := range putOK {
				if seen[id] == 0 {
					missing = append(missing, id)
				}
			}
			sort.Ints(missing)
			c.Fail(describe(), "after a final Clear at quiescence %d of %d stored values were never reported to the eviction callback: ids %v", len(missing), len(putOK), missing)
			return false
		}
		return true
	}
	if !check(false) {
		return
	}
	if _, _, _, err := rig.ch.VerifCheck(rig.proxy.inner); err != nil {
		c.Fail(describe(), "accounting hook at quiescence: %v", err)
		return
	}
	evBefore := rig.nevict.Load()
	// (2) linearizability
	ops := make([]porcupine.Operation, len(all))
	for i, e := range all {
		ops[i] = porcupine.Operation{ClientId: e.client, Input: e.in, Call: e.call, Output: e.out, Return: e.ret}
	}
	c.Oracle(true)
	res, info := porcupine.CheckOperationsVerbose(c09model(limit), ops, 60*time.Second)
	c.Oracle(false)
	_ = info
	switch res {
	case porcupine.Ok:
		c.Add("porcupine_ok", 1)
	case porcupine.Illegal:
		c.Fail(describe(), "history is not linearizable with respect to the reference LRU (porcupine: Illegal)")
		return
	default:
		c.Add("porcupine_unknown", 1)
		c.Inconclusive("porcupine timed out on a history of %d operations", len(ops))
	}
	// final Clear at quiescence, exactly-once
	rig.ch.Clear()
	if !check(true) {
		return
	}
	if rig.ch.Len() != 0 || rig.ch.Size() != 0 {
		c.Fail(describe(), "after final Clear: Len=%d Size=%d", rig.ch.Len(), rig.ch.Size())
		return
	}
	c.Add("evictions_logged", rig.nevict.Load())

	// reach: overlaps
	overl, confl := 0, 0
	h := fw.NewH()
	for ci, cl := range clients {
		h.Int(ci)
		for _, in := range cl {
			h.Int(int(in.Op))
			h.Int(in.K)
			h.Int(int(in.V.Sz))
		}
	}
	// index events per client to name pairs canonically
	pos := map[int64][2]int{}
	for ci, evs := range events {
		for j, e := range evs {
			pos[e.call] = [2]int{ci, j}
		}
	}
	for i := 0; i < len(all); i++ {
		for j := i + 1; j < len(all) && all[j].call < all[i].ret; j++ {
			if all[i].client == all[j].client {
				continue
			}
			overl++
			if conflicting(all[i].in, all[j].in) {
				confl++
			}
			a, b := pos[all[i].call], pos[all[j].call]
			h.Int(a[0]*1000 + a[1])
			h.Int(b[0]*1000 + b[1])
		}
	}
	c.Add("lin_histories", 1)
	c.Add("lin_ops", int64(len(all)))
	c.Add("lin_overlapping_pairs", int64(overl))
	c.Add("lin_overlapping_conflicting_pairs", int64(confl))
	if evBefore > 0 && overl > 0 {
		c.Add("lin_histories_with_eviction_and_overlap", 1)
	}
	if confl > 0 {
		c.Seen(h.Sum())
	}
	if c.WantSample() && overl > 0 && len(all) <= 16 {
		c.Sample(describe())
	}
}

// --- stress (race detector / runtime) ----------------------------------------

func c09stressCase(c *fw.Ctx, r *rand.Rand) {
	ng := 2 + r.IntN(7)
	keys := 3 + r.IntN(3)
	unit := r.IntN(2) == 0
	limit := int64(2 + r.IntN(3))
	if !unit {
		limit = int64(4 + r.IntN(5))
	}
	nops := 150 + r.IntN(c.Pick(250, 600))
	// jitter off in half of the rounds so that raw speed also gets its chance
	rig := newC09rig(limit, unit, r.Uint64(), r.IntN(2) == 0, false)
	type local struct {
		badGet  string
		badSize int64
		ops     int
	}
	locals := make([]local, ng)
	seeds := make([]uint64, ng)
	for i := range seeds {
		seeds[i] = r.Uint64()
	}
	var wg sync.WaitGroup
	start := make(chan struct{})
	stop := make(chan struct{})
	var probes, probeBad atomic.Int64
	var probeMsg atomic.Value
	// observer: Size() and the accounting hook, concurrently
	obsDone := make(chan struct{})
	go func() {
		defer close(obsDone)
		<-start
		for {
			select {
			case <-stop:
				return
			default:
			}
			if s := rig.ch.Size(); s > limit || s < 0 {
				probeBad.Add(1)
				probeMsg.Store(fmt.Sprintf("Size()=%d with limit %d", s, limit))
			}
			if _, _, _, err := rig.ch.VerifCheck(rig.proxy.inner); err != nil {
				probeBad.Add(1)
				probeMsg.Store("accounting hook under the cache lock: " + err.Error())
			}
			probes.Add(2)
			runtime.Gosched()
		}
	}()
	for g := 0; g < ng; g++ {
		wg.Add(1)
		go func(g int) {
			defer wg.Done()
			lr := rand.New(rand.NewPCG(seeds[g], uint64(g)))
			<-start
			lo := &locals[g]
			id := g * 1000000
			for i := 0; i < nops; i++ {
				k := lr.IntN(keys)
				switch x := lr.IntN(20); {
				case x < 7:
					id++
					sz := int64(1)
					if !unit {
						sz = int64(lr.IntN(4))
					}
					// value ids encode the key so that a Get can be checked locally
					rig.ch.Put(k, CVal{ID: id*8 + k, Sz: sz})
				case x < 12:
					if v, ok := rig.ch.Get(k); ok && v.ID%8 != k {
						lo.badGet = fmt.Sprintf("Get(%d) returned value id %d that was put for key %d", k, v.ID, v.ID%8)
					}
				case x < 14:
					rig.ch.Has(k)
				case x < 17:
					rig.ch.Remove(k)
				case x < 18:
					if n := rig.ch.Len(); n < 0 || n > keys {
						lo.badGet = fmt.Sprintf("Len()=%d with %d keys", n, keys)
					}
				case x < 19:
					if s := rig.ch.Size(); s > limit || s < 0 {
						lo.badSize = s
					}
				default:
					rig.ch.Clear()
				}
				lo.ops++
				c.Step()
			}
		}(g)
	}
	close(start)
	wg.Wait()
	close(stop)
	<-obsDone
	caseData := map[string]any{"goroutines": ng, "keys": keys, "limit": limit, "unit_sizes": unit, "ops_per_goroutine": nops, "gomaxprocs": runtime.GOMAXPROCS(0)}
	total := 0
	for g := range locals {
		total += locals[g].ops
		if locals[g].badGet != "" {
			c.Fail(caseData, "goroutine %d: %s", g, locals[g].badGet)
			return
		}
		if locals[g].badSize != 0 {
			c.Fail(caseData, "goroutine %d: Size()=%d with limit %d", g, locals[g].badSize, limit)
			return
		}
	}
	if probeBad.Load() > 0 {
		c.Fail(caseData, "observer: %v (%d bad probes of %d)", probeMsg.Load(), probeBad.Load(), probes.Load())
		return
	}
	if n := rig.proxy.overlap.Load(); n > 0 {
		c.Fail(caseData, "Store methods of the cache's store were in flight concurrently %d time(s)", n)
		return
	}
	rig.ch.Clear()
	if _, _, _, err := rig.ch.VerifCheck(rig.proxy.inner); err != nil || rig.ch.Len() != 0 || rig.ch.Size() != 0 {
		c.Fail(caseData, "at quiescence after Clear: Len=%d Size=%d hook=%v", rig.ch.Len(), rig.ch.Size(), err)
		return
	}
	c.Add("stress_rounds", 1)
	c.Add("stress_ops", int64(total))
	c.Add("observer_probes", probes.Load())
	c.Add("store_proxy_calls", rig.proxy.calls.Load())
	c.Add("stress_evictions", rig.nevict.Load())
}

// --- large caches: Clear must be one atomic step ----------------------------

// c09clearCase fills a cache with n unit-size entries (n in the hundreds or
// thousands, beyond any batching threshold), then runs Clear concurrently with
// observers calling Len/Size (and optionally one Put of a fresh key). With only
// these operations a linearizable cache shows Len in {n, 0} (+1 for the Put),
// never a partly cleared value; every entry is reported evicted exactly once.
func c09clearCase(c *fw.Ctx, r *rand.Rand) {
	n := []int{257, 300, 512, 513, 1000, 1025, 2000, 4097}[r.IntN(8)]
	withPut := r.IntN(2) == 0
	rig := newC09rig(int64(n), true, r.Uint64(), r.IntN(2) == 0, true)
	for k := 0; k < n; k++ {
		rig.ch.Put(k, CVal{ID: k + 1, Sz: 1})
	}
	var clock atomic.Int64
	type obs struct {
		call, ret int64
		v         int64
		size      bool
	}
	nobs := 2 + r.IntN(3)
	results := make([][]obs, nobs)
	var clearCall, clearRet, putCall, putRet atomic.Int64
	var putOK atomic.Bool
	var done atomic.Bool
	var wg sync.WaitGroup
	start := make(chan struct{})
	for o := 0; o < nobs; o++ {
		wg.Add(1)
		go func(o int) {
			defer wg.Done()
			<-start
			var out []obs
			for i := 0; i < 4000 && (!done.Load() || i < 20); i++ {
				ob := obs{size: (i+o)%3 == 0}
				ob.call = clock.Add(1)
				if ob.size {
					ob.v = rig.ch.Size()
				} else {
					ob.v = int64(rig.ch.Len())
				}
				ob.ret = clock.Add(1)
				out = append(out, ob)
				if i%8 == 0 {
					runtime.Gosched()
				}
			}
			results[o] = out
		}(o)
	}
	wg.Add(1)
	go func() {
		defer wg.Done()
		<-start
		for i := 0; i < 3; i++ {
			runtime.Gosched()
		}
		clearCall.Store(clock.Add(1))
		rig.ch.Clear()
		clearRet.Store(clock.Add(1))
		c.Step()
	}()
	if withPut {
		wg.Add(1)
		go func() {
			defer wg.Done()
			<-start
			for i := 0; i < r.IntN(6); i++ {
				runtime.Gosched()
			}
			putCall.Store(clock.Add(1))
			putOK.Store(rig.ch.Put(n+7, CVal{ID: n + 100, Sz: 1}))
			putRet.Store(clock.Add(1))
		}()
	}
	close(start)
	// let observers run until Clear (and Put) returned
	go func() {
		for clearRet.Load() == 0 || (withPut && putRet.Load() == 0) {
			runtime.Gosched()
		}
		done.Store(true)
	}()
	wg.Wait()
	data := map[string]any{"entries": n, "with_concurrent_put": withPut, "observers": nobs, "gomaxprocs": runtime.GOMAXPROCS(0)}
	c.Add("large_clear_cases", 1)
	cc, cr := clearCall.Load(), clearRet.Load()
	for o, out := range results {
		c.Add("large_clear_observations", int64(len(out)))
		for _, ob := range out {
			ok := ob.v == int64(n) || ob.v == 0 || (withPut && (ob.v == 1 || ob.v == int64(n))) // Put before Clear keeps n (evicts one), after Clear gives 1
			if ob.ret < cc && ob.v != int64(n) {
				ok = false
			}
			if ob.call > cr && !(ob.v == 0 || (withPut && ob.v == 1)) {
				ok = false
			}
			if !ok {
				what := "Len"
				if ob.size {
					what = "Size"
				}
				c.Fail(data, "observer %d saw %s() = %d (call@%d ret@%d) while Clear ran from @%d to @%d on a cache of %d entries: no sequential order of Clear/Put/Len explains a partly cleared cache", o, what, ob.v, ob.call, ob.ret, cc, cr, n)
				return
			}
		}
	}
	// quiescence: final contents and exactly-once accounting
	finalLen := rig.ch.Len()
	if !(finalLen == 0 || (withPut && finalLen == 1)) {
		c.Fail(data, "after Clear (and Put) returned, Len = %d", finalLen)
		return
	}
	rig.ch.Clear()
	rig.mu.Lock()
	seen := map[int]int{}
	for _, e := range rig.evlog {
		seen[e.V.ID]++
	}
	rig.mu.Unlock()
	want := n
	if withPut && putOK.Load() {
		want = n + 1
	}
	bad := 0
	for _, k := range seen {
		if k != 1 {
			bad++
		}
	}
	if len(seen) != want || bad > 0 {
		c.Fail(data, "eviction callback reported %d distinct values (%d of them more than once), %d were stored", len(seen), bad, want)
		return
	}
	if n := rig.proxy.overlap.Load(); n > 0 {
		c.Fail(data, "Store methods were in flight concurrently %d time(s)", n)
	}
}

// --- high-rate invariants (no recording, millions of operations) -------------

// c09invariantCase runs goroutines that each own a private key of a shared
// cache and check facts that follow from every sequential order whatever the
// other goroutines do:
//   - stable key: a key that is only ever Put (never removed, evicted or
//     cleared) must be reported present by every Has/Get after its first Put
//     returned, also while another Put replaces its value;
//   - own Clear: after a goroutine's own Clear returned, a key that only this
//     goroutine writes must be absent until it puts it again.
func c09invariantCase(c *fw.Ctx, r *rand.Rand) {
	mode := r.IntN(2)
	ng := 2 + r.IntN(5)
	iters := 2000 + r.IntN(c.Pick(3000, 30000))
	// roomy limit: nothing is ever evicted for lack of space
	rig := newC09rig(1<<20, r.IntN(2) == 0, r.Uint64(), r.IntN(4) == 0, false)
	var bad atomic.Value
	var wg sync.WaitGroup
	start := make(chan struct{})
	if mode == 0 {
		// one writer per key replacing its value over and over; readers probe the keys
		keys := 1 + r.IntN(3)
		for k := 0; k < keys; k++ {
			rig.ch.Put(k, CVal{ID: 1, Sz: 1})
		}
		for g := 0; g < ng; g++ {
			wg.Add(1)
			go func(g int) {
				defer wg.Done()
				<-start
				for i := 0; i < iters && bad.Load() == nil; i++ {
					k := (g + i) % keys
					if g < keys {
						rig.ch.Put(g, CVal{ID: i + 2, Sz: 1}) // replaces the sole value of key g
					}
					if i%2 == 0 {
						if !rig.ch.Has(k) {
							bad.Store(fmt.Sprintf("Has(%d) reported absent although key %d is only ever Put (replaced), never removed", k, k))
						}
					} else if _, ok := rig.ch.Get(k); !ok {
						bad.Store(fmt.Sprintf("Get(%d) reported absent although key %d is only ever Put (replaced), never removed", k, k))
					}
					if i%64 == 0 {
						c.Step()
					}
				}
			}(g)
		}
	} else {
		// every goroutine: Put(own key); Clear(); own key must be gone
		for g := 0; g < ng; g++ {
			wg.Add(1)
			go func(g int) {
				defer wg.Done()
				<-start
				for i := 0; i < iters/4 && bad.Load() == nil; i++ {
					rig.ch.Put(1000+g, CVal{ID: i + 1, Sz: 1})
					rig.ch.Clear()
					if rig.ch.Has(1000 + g) {
						bad.Store(fmt.Sprintf("goroutine %d: Put(own key); Clear(); Has(own key) = true, although only this goroutine ever puts that key", g))
					}
					if i%64 == 0 {
						c.Step()
					}
				}
			}(g)
		}
	}
	close(start)
	wg.Wait()
	c.Add("invariant_cases", 1)
	c.Add("invariant_ops", int64(ng*iters))
	if v := bad.Load(); v != nil {
		c.Fail(map[string]any{"mode": []string{"stable key under replacement", "own key gone after own Clear"}[mode], "goroutines": ng, "gomaxprocs": runtime.GOMAXPROCS(0)}, "%s", v)
	}
	if n := rig.proxy.overlap.Load(); n > 0 {
		c.Fail(map[string]any{"mode": mode}, "Store methods were in flight concurrently %d time(s)", n)
	}
}

// c09monotoneCase: observations that must be ordered even under concurrency.
// A plain unit-size cache far below its limit only grows (new keys are put)
// and later only shrinks (keys are removed): the number of entries and the
// total size are equal at every instant and monotone, so the chain of values an
// observer reads by calling Len, Size, Len, Size, ... back to back must be
// monotone too. Two methods that are each linearizable but are served from
// separately updated copies break the chain. No delays are injected: the
// windows in question have no callback or store call inside them.
func c09monotoneCase(c *fw.Ctx, r *rand.Rand) {
	n := 20000 + r.IntN(60000)
	if c.Flavour == "race" || runtime.GOMAXPROCS(0) == 1 {
		n = 4000 + r.IntN(12000) // the race detector and a single P make every call far more expensive
	}
	bare := r.IntN(2) == 0
	var ch *cache.Cache[int, CVal]
	if bare {
		ch = cache.New(1<<30, cache.LRU[int, CVal]())
	} else {
		ch = cache.New(1<<30, cache.LRU[int, CVal]().OnEvict(func(int, CVal) {}))
	}
	var phase atomic.Int32 // 0 growing, 1 shrinking, 2 done
	var bad atomic.Value
	var probes atomic.Int64
	var wg sync.WaitGroup
	nobs := 1 + r.IntN(3)
	for o := 0; o < nobs; o++ {
		wg.Add(1)
		go func(o int) {
			defer wg.Done()
			for phase.Load() < 2 {
				ph := phase.Load()
				var chain [6]int64
				for i := range chain {
					if (i+o)%2 == 0 {
						chain[i] = int64(ch.Len())
					} else {
						chain[i] = ch.Size()
					}
				}
				probes.Add(1)
				if phase.Load() != ph {
					continue // the phase changed while reading: not comparable
				}
				for i := 1; i < len(chain); i++ {
					if (ph == 0 && chain[i] < chain[i-1]) || (ph == 1 && chain[i] > chain[i-1]) {
						bad.CompareAndSwap(nil, fmt.Sprintf("while the cache only %s, successive calls (Len and Size alternating, starting with %s) by one goroutine returned %v", map[int32]string{0: "grew", 1: "shrank"}[ph], map[bool]string{true: "Len", false: "Size"}[o%2 == 0], chain))
						return
					}
				}
			}
		}(o)
	}
	for k := 0; k < n; k++ {
		ch.Put(k, CVal{ID: k, Sz: 1})
		if k&1023 == 0 {
			c.Step()
		}
	}
	phase.Store(1)
	for k := 0; k < n; k++ {
		ch.Remove(k)
		if k&1023 == 0 {
			c.Step()
		}
	}
	phase.Store(2)
	wg.Wait()
	c.Add("monotone_observation_cases", 1)
	c.Add("monotone_observation_probes", probes.Load())
	if v := bad.Load(); v != nil {
		c.Fail(map[string]any{"phase": "monotone observations", "entries": n, "observers": nobs, "plain_cache_without_callback": bare, "gomaxprocs": runtime.GOMAXPROCS(0)}, "%s", v.(string))
	}
}

// c09independentCase: several caches that have nothing to do with each other
// (own store, own configuration, built and used by one goroutine each) are
// busy at the same time. Each goroutine compares every answer of its cache
// with its own reference LRU, exactly as a sequential history; what the other
// caches are doing must not show (and, under the race detector, must not race).
func c09independentCase(c *fw.Ctx, r *rand.Rand) {
	g := 2 + r.IntN(7)
	nops := 3000 + r.IntN(6000)
	seeds := make([]uint64, g)
	for i := range seeds {
		seeds[i] = r.Uint64()
	}
	msgs := make([]string, g)
	var start, wg sync.WaitGroup
	start.Add(1)
	for w := 0; w < g; w++ {
		wg.Add(1)
		go func(w int) {
			defer wg.Done()
			defer func() {
				if p := recover(); p != nil && msgs[w] == "" {
					msgs[w] = fmt.Sprintf("cache %d: panic: %v", w, p)
				}
			}()
			rr := rand.New(rand.NewPCG(seeds[w], 0xc09))
			limit := int64(1 + rr.IntN(4))
			var calls []lruEntry
			ch := cache.New(limit, cache.LRU[int, CVal]().OnEvict(func(k int, v CVal) { calls = append(calls, lruEntry{k, v}) }))
			ref := &lruModel{Limit: limit}
			start.Wait()
			for i := 0; i < nops; i++ {
				k := rr.IntN(5)
				calls = calls[:0]
				switch rr.IntN(8) {
				case 0, 1, 2:
					v := CVal{ID: i + 1, Sz: 1}
					got := ch.Put(k, v)
					ok, replaced, evicted := ref.put(k, v)
					want := len(evicted)
					if replaced != nil {
						want++
					}
					if got != ok || len(calls) != want {
						msgs[w] = fmt.Sprintf("cache %d (limit %d), op %d: Put(%d) = %v with %d eviction callbacks %v; its own reference LRU says %v with %d (evicted %v)", w, limit, i, k, got, len(calls), calls, ok, want, evicted)
						return
					}
					for j, e := range evicted {
						if calls[len(calls)-len(evicted)+j] != e && (replaced == nil || calls[j] != e) {
							msgs[w] = fmt.Sprintf("cache %d (limit %d), op %d: Put(%d) evicted %v; its own reference LRU evicts %v", w, limit, i, k, calls, evicted)
							return
						}
					}
				case 3, 4, 5:
					got, gok := ch.Get(k)
					want, wok := ref.get(k)
					if got != want || gok != wok {
						msgs[w] = fmt.Sprintf("cache %d (limit %d), op %d: Get(%d) = (%v, %v); its own reference LRU says (%v, %v)", w, limit, i, k, got, gok, want, wok)
						return
					}
				case 6:
					if got, want := ch.Has(k), ref.has(k); got != want {
						msgs[w] = fmt.Sprintf("cache %d (limit %d), op %d: Has(%d) = %v; its own reference LRU says %v", w, limit, i, k, got, want)
						return
					}
				default:
					_, want := ref.remove(k)
					if got := ch.Remove(k); got != want {
						msgs[w] = fmt.Sprintf("cache %d (limit %d), op %d: Remove(%d) = %v; its own reference LRU says %v", w, limit, i, k, got, want)
						return
					}
				}
				if ch.Len() != len(ref.Es) || ch.Size() != ref.size() {
					msgs[w] = fmt.Sprintf("cache %d (limit %d), after op %d: Len=%d Size=%d; its own reference LRU has %d entries of size %d", w, limit, i, ch.Len(), ch.Size(), len(ref.Es), ref.size())
					return
				}
			}
		}(w)
	}
	start.Done()
	wg.Wait()
	c.Step()
	c.Add("independent_cache_rounds", 1)
	c.Add("independent_cache_ops", int64(g*nops))
	for _, m := range msgs {
		if m != "" {
			c.Fail(map[string]any{"phase": "independent caches busy at the same time", "caches": g, "ops_each": nops, "gomaxprocs": runtime.GOMAXPROCS(0)}, "%s", m)
			return
		}
	}
}

func runC09(c *fw.Ctx) {
	procs := []int{1, 2, 4, 16}[c.Block%4]
	old := runtime.GOMAXPROCS(procs)
	defer runtime.GOMAXPROCS(old)
	c.Add(fmt.Sprintf("blocks_gomaxprocs_%d", procs), 1)

	reps := 1
	if c.Replaying() {
		reps = 300 // a schedule-dependent witness needs many attempts
	}
	nlin := c.Pick(1300, 6000)
	if c.Flavour == "race" {
		nlin = c.Pick(500, 2000)
	}
	for i := 0; i < nlin; i++ {
		if !c.Begin(i) {
			continue
		}
		for rep := 0; rep < reps && !c.Stopped(); rep++ {
			r := c.Rng()
			if rep > 0 {
				r = rand.New(rand.NewPCG(uint64(rep), uint64(i)))
			}
			ok, pv, stack := fw.Try(func() { c09linCase(c, r) })
			if !ok {
				c.FailKind("panic", map[string]any{"phase": "linearizability case"}, "panic: %v\n%s", pv, stack)
			}
		}
	}
	nclear := c.Pick(25, 80)
	for i := 0; i < nclear; i++ {
		if !c.Begin(1<<21 + i) {
			continue
		}
		for rep := 0; rep < reps && !c.Stopped(); rep++ {
			r := c.Rng()
			if rep > 0 {
				r = rand.New(rand.NewPCG(uint64(rep), uint64(i)))
			}
			ok, pv, stack := fw.Try(func() { c09clearCase(c, r) })
			if !ok {
				c.FailKind("panic", map[string]any{"phase": "large-cache Clear case"}, "panic: %v\n%s", pv, stack)
			}
		}
	}
	ninv := c.Pick(12, 60)
	for i := 0; i < ninv; i++ {
		if !c.Begin(1<<22 + i) {
			continue
		}
		for rep := 0; rep < min(reps, 30) && !c.Stopped(); rep++ {
			r := c.Rng()
			if rep > 0 {
				r = rand.New(rand.NewPCG(uint64(rep), uint64(i)))
			}
			ok, pv, stack := fw.Try(func() { c09invariantCase(c, r) })
			if !ok {
				c.FailKind("panic", map[string]any{"phase": "invariant case"}, "panic: %v\n%s", pv, stack)
			}
		}
	}
	for i := 0; i < c.Pick(6, 12); i++ {
		if !c.Begin(1<<23 + i) {
			continue
		}
		r := c.Rng()
		ok, pv, stack := fw.Try(func() { c09monotoneCase(c, r) })
		if !ok {
			c.FailKind("panic", map[string]any{"phase": "monotone observations"}, "panic: %v\n%s", pv, stack)
		}
	}
	for i := 0; i < c.Pick(8, 24); i++ {
		if !c.Begin(1<<23 + 1000 + i) {
			continue
		}
		r := c.Rng()
		ok, pv, stack := fw.Try(func() { c09independentCase(c, r) })
		if !ok {
			c.FailKind("panic", map[string]any{"phase": "independent caches"}, "panic: %v\n%s", pv, stack)
		}
	}
	base := 1 << 20
	nstress := c.Pick(40, 120)
	for i := 0; i < nstress; i++ {
		if !c.Begin(base + i) {
			continue
		}
		for rep := 0; rep < reps && !c.Stopped(); rep++ {
			r := c.Rng()
			if rep > 0 {
				r = rand.New(rand.NewPCG(uint64(rep), uint64(i)))
			}
			ok, pv, stack := fw.Try(func() { c09stressCase(c, r) })
			if !ok {
				c.FailKind("panic", map[string]any{"phase": "stress case"}, "panic: %v\n%s", pv, stack)
			}
		}
	}
}
