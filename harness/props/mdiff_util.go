//go:build pC13 || pC14 || pall

package props

import (
	"fmt"

	"github.com/creachadair/mds/mdiff"
	"github.com/creachadair/mds/slice"
)

// Helpers shared by the mdiff monitors.

func chunkString(c *mdiff.Chunk) string {
	return fmt.Sprintf("{L[%d,%d) R[%d,%d) %v}", c.LStart, c.LEnd, c.RStart, c.REnd, c.Edits)
}

func chunksString(cs []*mdiff.Chunk) string {
	s := "["
	for i, c := range cs {
		if i > 0 {
			s += " "
		}
		s += chunkString(c)
	}
	return s + "]"
}

// interpretChunk executes the edits of c against left and right and returns an
// error text if they do not consume exactly left[LStart-1:LEnd-1] and produce
// exactly right[RStart-1:REnd-1]. It also returns the number of leading and
// trailing context (Emit) lines.
func interpretChunk(c *mdiff.Chunk, left, right []string) (lead, trail int, problem string) {
	if c.LStart < 1 || c.RStart < 1 || c.LEnd < c.LStart || c.REnd < c.RStart || c.LEnd-1 > len(left) || c.REnd-1 > len(right) {
		return 0, 0, fmt.Sprintf("ranges L[%d,%d) R[%d,%d) are not valid for inputs of %d and %d lines", c.LStart, c.LEnd, c.RStart, c.REnd, len(left), len(right))
	}
	lpos, rpos := c.LStart-1, c.RStart-1
	eqAt := func(x []string, base []string, pos int) bool {
		if pos+len(x) > len(base) {
			return false
		}
		for i := range x {
			if x[i] != base[pos+i] {
				return false
			}
		}
		return true
	}
	seenChange := false
	for i, e := range c.Edits {
		switch e.Op {
		case slice.OpEmit:
			if !eqAt(e.X, left, lpos) || !eqAt(e.X, right, rpos) {
				return 0, 0, fmt.Sprintf("edit %d: context %q is not at left line %d and right line %d", i, e.X, lpos+1, rpos+1)
			}
			if !seenChange {
				lead += len(e.X)
			}
			trail = len(e.X)
			lpos += len(e.X)
			rpos += len(e.X)
			continue
		case slice.OpDrop:
			if !eqAt(e.X, left, lpos) {
				return 0, 0, fmt.Sprintf("edit %d: dropped lines %q are not at left line %d", i, e.X, lpos+1)
			}
			lpos += len(e.X)
		case slice.OpCopy:
			if !eqAt(e.Y, right, rpos) {
				return 0, 0, fmt.Sprintf("edit %d: copied lines %q are not at right line %d", i, e.Y, rpos+1)
			}
			rpos += len(e.Y)
		case slice.OpReplace:
			if !eqAt(e.X, left, lpos) || !eqAt(e.Y, right, rpos) {
				return 0, 0, fmt.Sprintf("edit %d: replace %q -> %q is not at left line %d / right line %d", i, e.X, e.Y, lpos+1, rpos+1)
			}
			lpos += len(e.X)
			rpos += len(e.Y)
		default:
			return 0, 0, fmt.Sprintf("edit %d has unknown opcode %q", i, e.Op)
		}
		seenChange = true
		trail = 0
	}
	if lpos != c.LEnd-1 || rpos != c.REnd-1 {
		return 0, 0, fmt.Sprintf("edits consume left lines up to %d and produce right lines up to %d, but the ranges end at %d and %d", lpos, rpos, c.LEnd-1, c.REnd-1)
	}
	return lead, trail, ""
}

// applyChunks replaces each chunk's left range by its output and returns the
// resulting lines; chunks must be ascending and disjoint.
func applyChunks(cs []*mdiff.Chunk, left []string) ([]string, string) {
	var out []string
	pos := 0 // 0-based index into left of the next unconsumed line
	for i, c := range cs {
		if c.LStart-1 < pos {
			return nil, fmt.Sprintf("chunk %d starts at left line %d, before the end of the previous chunk (line %d)", i, c.LStart, pos+1)
		}
		if c.LEnd-1 > len(left) {
			return nil, fmt.Sprintf("chunk %d ends beyond the left input", i)
		}
		out = append(out, left[pos:c.LStart-1]...)
		for _, e := range c.Edits {
			switch e.Op {
			case slice.OpEmit:
				out = append(out, e.X...)
			case slice.OpCopy, slice.OpReplace:
				out = append(out, e.Y...)
			}
		}
		pos = c.LEnd - 1
	}
	out = append(out, left[pos:]...)
	return out, ""
}

func cloneEdits(es []mdiff.Edit) []mdiff.Edit {
	out := make([]mdiff.Edit, len(es))
	for i, e := range es {
		out[i] = mdiff.Edit{Op: e.Op, X: append([]string(nil), e.X...), Y: append([]string(nil), e.Y...)}
	}
	return out
}

func equalEdits(a, b []mdiff.Edit) bool {
	if len(a) != len(b) {
		return false
	}
	for i := range a {
		if a[i].Op != b[i].Op || !equalStrings(a[i].X, b[i].X) || !equalStrings(a[i].Y, b[i].Y) {
			return false
		}
	}
	return true
}
