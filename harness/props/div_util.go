//go:build pC05 || pC06 || pC08 || pall

package props

// heapDiv is the first divergence between the code under test and the
// reference in one executed history.
type heapDiv struct {
	Step   int    // index of the op at which the divergence was seen
	Detail string // what diverged
}
