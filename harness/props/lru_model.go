//go:build pC08 || pC09 || pall

package props

import (
	"fmt"
	"strings"
)

// Reference LRU cache shared by C08 (sequential) and C09 (as the sequential
// specification for the linearizability checker).

// CVal is the value type stored in caches under test: ID is unique per Put so
// that a Get identifies the Put it observed; Sz is what the size function
// returns.
type CVal struct {
	ID int   `json:"id"`
	Sz int64 `json:"sz"`
}

type lruEntry struct {
	K int
	V CVal
}

// lruModel holds entries from least to most recently used.
type lruModel struct {
	Limit int64
	Es    []lruEntry
}

func (m *lruModel) clone() *lruModel {
	return &lruModel{Limit: m.Limit, Es: append([]lruEntry(nil), m.Es...)}
}

func (m *lruModel) find(k int) int {
	for i, e := range m.Es {
		if e.K == k {
			return i
		}
	}
	return -1
}

func (m *lruModel) size() int64 {
	var s int64
	for _, e := range m.Es {
		s += e.V.Sz
	}
	return s
}

func (m *lruModel) has(k int) bool { return m.find(k) >= 0 }

func (m *lruModel) get(k int) (CVal, bool) {
	i := m.find(k)
	if i < 0 {
		return CVal{}, false
	}
	e := m.Es[i]
	m.Es = append(append(m.Es[:i:i], m.Es[i+1:]...), e)
	return e.V, true
}

// put returns whether the value was stored, the replaced entry (if any) and
// the evicted entries in eviction order.
func (m *lruModel) put(k int, v CVal) (ok bool, replaced *lruEntry, evicted []lruEntry) {
	if v.Sz > m.Limit {
		return false, nil, nil
	}
	if i := m.find(k); i >= 0 {
		e := m.Es[i]
		replaced = &e
		m.Es = append(m.Es[:i:i], m.Es[i+1:]...)
	}
	for m.size()+v.Sz > m.Limit {
		evicted = append(evicted, m.Es[0])
		m.Es = m.Es[1:]
	}
	m.Es = append(m.Es[:len(m.Es):len(m.Es)], lruEntry{k, v})
	return true, replaced, evicted
}

func (m *lruModel) remove(k int) (lruEntry, bool) {
	i := m.find(k)
	if i < 0 {
		return lruEntry{}, false
	}
	e := m.Es[i]
	m.Es = append(m.Es[:i:i], m.Es[i+1:]...)
	return e, true
}

func (m *lruModel) clear() []lruEntry {
	out := m.Es
	m.Es = nil
	return out
}

func (m *lruModel) String() string {
	var sb strings.Builder
	fmt.Fprintf(&sb, "limit=%d lru->mru:", m.Limit)
	for _, e := range m.Es {
		fmt.Fprintf(&sb, " %d=%d/%d", e.K, e.V.ID, e.V.Sz)
	}
	return sb.String()
}
