//go:build pC05 || pC06 || pall

package props

import (
	"cmp"
	"fmt"
	"math"
	"math/rand/v2"

	"github.com/creachadair/mds/heapq"
	"verif/harness/fw"
)

// Shared runner for the heapq monitors (C05 ordering/conservation, C06
// position reports). A history is a precomputed list of concrete operations,
// so that it can be executed twice: as is ("real"), and with the verif hook
// substituting the textbook parent index in pushUp ("counterfactual"), which
// is how violations are attributed to known finding F1.

type hop struct {
	Op   byte  `json:"op"` // A add, P pop, R remove(i), S set, O reorder, C clear, N new-with-data, T remove by reported position of the j-th held tag
	Key  int   `json:"key,omitempty"`
	I    int   `json:"i,omitempty"`
	Keys []int `json:"keys,omitempty"`
	Dir  int   `json:"dir,omitempty"`
}

func (o hop) String() string {
	switch o.Op {
	case 'A':
		return fmt.Sprintf("Add(%d)", o.Key)
	case 'P':
		return "Pop"
	case 'R':
		return fmt.Sprintf("Remove(%d)", o.I)
	case 'T':
		return fmt.Sprintf("Remove(reported position of held element #%d)", o.I)
	case 'S':
		return fmt.Sprintf("Set(%v)", o.Keys)
	case 'O':
		return fmt.Sprintf("Reorder(dir=%d)", o.Dir)
	case 'X':
		return "Peek(-1), Remove(-1) (documented panics, recovered)"
	case 'C':
		return "Clear"
	case 'N':
		return fmt.Sprintf("NewWithData(dir=%d, %v)", o.Dir, o.Keys)
	}
	return "?"
}

func hopStrings(ops []hop) []string {
	out := make([]string, len(ops))
	for i, o := range ops {
		out[i] = o.String()
	}
	return out
}

func heapCmp(dir int) func(a, b Elem) int {
	switch dir {
	case 1:
		return func(a, b Elem) int { return cmpElem(b, a) }
	case 2:
		return func(a, b Elem) int {
			x, y := ((a.Key%5)+5)%5, ((b.Key%5)+5)%5
			if x != y {
				if x < y {
					return -1
				}
				return 1
			}
			return cmpElem(a, b)
		}
	}
	switch dir {
	case 7: // the natural order, reported with the extreme values of int
		return func(a, b Elem) int {
			switch {
			case a.Key < b.Key:
				return math.MinInt
			case a.Key > b.Key:
				return math.MaxInt
			}
			return 0
		}
	case 5: // by insertion tag: unrelated to the key order
		return func(a, b Elem) int { return cmp.Compare(a.Tag, b.Tag) }
	case 6: // by a scrambled function of key and tag: unrelated to both
		return func(a, b Elem) int {
			x, y := uint32(a.Key*40503+a.Tag*9973)*2654435761>>8, uint32(b.Key*40503+b.Tag*9973)*2654435761>>8
			if x != y {
				return cmp.Compare(x, y)
			}
			return cmpElem(a, b)
		}
	case 3:
		return cmpElemWide
	case 4:
		return func(a, b Elem) int { return clipInt(2 * (int64(b.Key) - int64(a.Key))) }
	}
	return cmpElem
}

type heapOpts struct {
	update     bool // install an update (position) callback
	checkOrder bool // C05: Front/Pop minimal, drain sorted
	checkPos   bool // C06: reported positions
	fixParent  bool // counterfactual run
	light      bool // large histories: the O(n) parts of the per-step check run every 37th step (and on every Pop/Remove result)
	sparse     bool // nothing is read between operations (not even Front) except every 53rd step; only operation results are observed
	bound      bool // observations go through method values (q.Len, q.Front, ...) bound when the queue was created
	moved      int  // 1: the Queue struct is copied by value right after construction and only the copy is used; 2: the same after a few operations
}

type heapStats struct {
	maxLen      int
	interior    int // Remove(i) with 0 < i < Len-1
	evenPushUps int64
	parentCalls int64
	oddParents  int64
	posChecks   int
	removeByPos int
	reorders    int
	drains      int
}

// heapRun executes ops and returns the first divergence, if any.
func heapRun(c *fw.Ctx, ops []hop, opt heapOpts) (div *heapDiv, st heapStats) {
	heapq.VerifFixParent.Store(opt.fixParent)
	defer heapq.VerifFixParent.Store(false)
	odd0, even0, calls0 := heapq.VerifOddParent.Load(), heapq.VerifEvenParent.Load(), heapq.VerifParentCalls.Load()
	defer func() {
		st.oddParents = heapq.VerifOddParent.Load() - odd0
		st.evenPushUps = heapq.VerifEvenParent.Load() - even0
		st.parentCalls = heapq.VerifParentCalls.Load() - calls0
	}()

	dir := 0
	// the comparison function notes its arguments: it is only defined on
	// elements that were handed to the queue at some point (never on a zero
	// value or anything else the caller did not supply)
	issued := map[int]Elem{}
	var stray *Elem
	heapCmp := func(dir int) func(a, b Elem) int {
		f := heapCmp(dir)
		return func(a, b Elem) int {
			if stray == nil {
				if issued[a.Tag] != a {
					w := a
					stray = &w
				} else if issued[b.Tag] != b {
					w := b
					stray = &w
				}
			}
			return f(a, b)
		}
	}
	cmp := heapCmp(dir)
	pos := map[int]int{}      // tag -> last reported position
	tracked := map[int]bool{} // tags that entered through Add or Set
	var order []int           // held tags in insertion order (for op 'T')
	ref := map[int]Elem{}     // tag -> element held
	tag := 0
	update := func(e Elem, p int) {
		if stray == nil && issued[e.Tag] != e {
			// a position report about something that was never handed to the queue
			w := e
			stray = &w
		}
		pos[e.Tag] = p
	}
	q := heapq.New(cmp) // the function value itself: the queue must not see later changes of the monitor's variable
	if opt.update {
		q.Update(update)
	}
	if opt.moved == 1 {
		cp := *q // the owner holds the queue by value; the original is never used again
		q = &cp
	}
	// observations either call the methods directly or go through method values
	// bound once, right after the queue came into being
	var accLen func() int
	var accIsEmpty func() bool
	var accFront func() Elem
	var accPeek func(int) (Elem, bool)
	var accEach func(func(Elem) bool)
	bind := func() {
		if opt.bound {
			accLen, accIsEmpty, accFront, accPeek, accEach = q.Len, q.IsEmpty, q.Front, q.Peek, q.Each
			return
		}
		accLen = func() int { return q.Len() }
		accIsEmpty = func() bool { return q.IsEmpty() }
		accFront = func() Elem { return q.Front() }
		accPeek = func(i int) (Elem, bool) { return q.Peek(i) }
		accEach = func(f func(Elem) bool) { q.Each(f) }
	}
	bind()
	step := 0
	fail := func(format string, args ...any) *heapDiv {
		return &heapDiv{Step: step, Detail: fmt.Sprintf(format, args...)}
	}
	drop := func(t int) {
		delete(ref, t)
		for i, x := range order {
			if x == t {
				order = append(order[:i], order[i+1:]...)
				break
			}
		}
	}
	minimal := func(e Elem) (Elem, bool) {
		for _, x := range ref {
			if cmp(x, e) < 0 {
				return x, false
			}
		}
		return Elem{}, true
	}
	check := func() *heapDiv {
		if accLen() != len(ref) || accIsEmpty() != (len(ref) == 0) {
			return fail("Len=%d IsEmpty=%v with %d elements held", accLen(), accIsEmpty(), len(ref))
		}
		if opt.sparse && step%53 != 0 && step < len(ops) {
			return nil
		}
		if opt.light && step%37 != 0 {
			f := accFront()
			if len(ref) > 0 {
				if x, ok := ref[f.Tag]; !ok || x != f {
					return fail("Front=%v is not held", f)
				}
			}
			return nil
		}
		seen := map[int]bool{}
		var bad *heapDiv
		nth := 0
		accEach(func(e Elem) bool {
			// read-only calls from inside the loop body: Each lists in offset order
			if len(ref) <= 64 {
				if pe, ok := accPeek(nth); !ok || pe != e || accLen() != len(ref) {
					bad = fail("inside Each, element %d is %v but Peek(%d)=(%v,%v), Len=%d", nth, e, nth, pe, ok, accLen())
					return false
				}
				if nth == len(ref)/2 {
					accFront()
					m := 0
					accEach(func(Elem) bool { m++; return true })
					if m != len(ref) {
						bad = fail("an Each started inside Each yields %d of %d elements", m, len(ref))
						return false
					}
				}
			}
			nth++
			if x, ok := ref[e.Tag]; !ok || x != e {
				bad = fail("Each yields %v which is not held (held: %d elements)", e, len(ref))
				return false
			}
			if seen[e.Tag] {
				bad = fail("Each yields %v twice", e)
				return false
			}
			seen[e.Tag] = true
			return true
		})
		if bad != nil {
			return bad
		}
		if len(seen) != len(ref) {
			return fail("Each yields %d elements, %d are held", len(seen), len(ref))
		}
		f := accFront()
		if len(ref) == 0 {
			if f != (Elem{}) {
				return fail("Front of an empty queue is %v", f)
			}
		} else {
			if x, ok := ref[f.Tag]; !ok || x != f {
				return fail("Front=%v is not held", f)
			}
			if p0, ok := accPeek(0); !ok || p0 != f {
				return fail("Peek(0)=%v,%v differs from Front=%v", p0, ok, f)
			}
			if opt.checkOrder {
				if x, ok := minimal(f); !ok {
					return fail("Front=%v is not minimal: %v is held and orders before it (dir=%d)", f, x, dir)
				}
			}
		}
		if _, ok := accPeek(len(ref)); ok {
			return fail("Peek(Len) reports a value")
		}
		if opt.checkPos {
			for t, e := range ref {
				if !tracked[t] {
					continue
				}
				p, ok := pos[t]
				if !ok {
					return fail("no position was ever reported for held element %v", e)
				}
				got, gok := accPeek(p)
				st.posChecks++
				if !gok || got != e {
					return fail("last position reported for %v is %d, but Peek(%d)=(%v,%v)", e, p, p, got, gok)
				}
			}
		}
		return nil
	}

	for step = 0; step < len(ops); step++ {
		o := ops[step]
		c.Step()
		if !opt.checkPos && step%29 == 13 {
			// the optional update function removed (documented: Update(nil)) or set
			// again in mid-life; positions are not being checked in this run
			if step%58 == 13 {
				q.Update(nil)
			} else if opt.update {
				q.Update(update)
			} else {
				q.Update(func(Elem, int) {})
			}
		}
		if opt.moved == 2 && step == 7 {
			cp := *q // moved by value after some use; only the copy is used from here on
			q = &cp
			bind()
		}
		switch o.Op {
		case 'A':
			tag++
			e := Elem{Key: o.Key, Tag: tag}
			ref[tag] = e
			issued[tag] = e
			tracked[tag] = true
			order = append(order, tag)
			c.Call("heapq.Add(%v) len=%d", e, len(ref)-1)
			p := q.Add(e)
			if got, ok := accPeek(p); !ok || got != e {
				return fail("Add(%v) returned position %d but Peek(%d)=(%v,%v)", e, p, p, got, ok), st
			}
			if opt.checkPos {
				if lp, ok := pos[tag]; !ok || lp != p {
					return fail("Add(%v) returned %d, last reported position is %d (reported=%v)", e, p, lp, ok), st
				}
			}
		case 'P':
			c.Call("heapq.Pop len=%d", len(ref))
			e, ok := q.Pop()
			if ok != (len(ref) > 0) {
				return fail("Pop ok=%v with %d elements held", ok, len(ref)), st
			}
			if ok {
				if x, held := ref[e.Tag]; !held || x != e {
					return fail("Pop returned %v which is not held", e), st
				}
				if opt.checkOrder {
					if x, isMin := minimal(e); !isMin {
						return fail("Pop returned %v but %v is held and orders before it (dir=%d)", e, x, dir), st
					}
				}
				drop(e.Tag)
			} else if e != (Elem{}) {
				return fail("Pop on an empty queue returned %v", e), st
			}
		case 'R':
			want, wok := accPeek(o.I)
			if wok && o.I > 0 && o.I < len(ref)-1 {
				st.interior++
			}
			c.Call("heapq.Remove(%d) len=%d", o.I, len(ref))
			got, ok := q.Remove(o.I)
			if ok != wok || got != want {
				return fail("Remove(%d)=(%v,%v) but Peek(%d) showed (%v,%v)", o.I, got, ok, o.I, want, wok), st
			}
			if ok != (o.I < len(ref)) {
				return fail("Remove(%d) ok=%v with %d elements held", o.I, ok, len(ref)), st
			}
			if ok {
				if x, held := ref[got.Tag]; !held || x != got {
					return fail("Remove(%d) returned %v which is not held", o.I, got), st
				}
				drop(got.Tag)
			}
		case 'T': // remove a specific held element through its reported position
			if len(order) == 0 {
				continue
			}
			t := order[o.I%len(order)]
			if !tracked[t] {
				continue
			}
			p, ok := pos[t]
			if !ok {
				return fail("no position was ever reported for held element %v", ref[t]), st
			}
			if p > 0 && p < len(ref)-1 {
				st.interior++
			}
			st.removeByPos++
			c.Call("heapq.Remove(%d) (reported position of %v) len=%d", p, ref[t], len(ref))
			got, gok := q.Remove(p)
			if !gok || got != ref[t] {
				return fail("Remove(%d), the reported position of %v, returned (%v,%v)", p, ref[t], got, gok), st
			}
			drop(t)
		case 'S':
			vs := make([]Elem, len(o.Keys))
			ref = map[int]Elem{}
			order = order[:0]
			for i, k := range o.Keys {
				tag++
				vs[i] = Elem{Key: k, Tag: tag}
				ref[tag] = vs[i]
				issued[tag] = vs[i]
				tracked[tag] = true
				order = append(order, tag)
			}
			keep := append([]Elem(nil), vs...)
			c.Call("heapq.Set(%d values)", len(vs))
			if got := q.Set(vs); got != q {
				return fail("Set did not return its receiver"), st
			}
			if !equalElems(vs, keep) {
				return fail("Set modified its argument: %s -> %s", elemsString(keep), elemsString(vs)), st
			}
			// the queue must not alias vs
			if len(vs) > 0 {
				vs[0] = Elem{Key: -999, Tag: -999}
			}
		case 'O':
			dir = o.Dir
			cmp = heapCmp(dir)
			st.reorders++
			c.Call("heapq.Reorder(dir=%d) len=%d", dir, len(ref))
			q.Reorder(cmp)
		case 'X':
			for _, f := range []func(){func() { accPeek(-1) }, func() { q.Remove(-1) }} {
				if p, _ := fw.Panics(f); !p {
					return fail("Peek(-1)/Remove(-1) did not panic as documented"), st
				}
			}
		case 'C':
			q.Clear()
			ref = map[int]Elem{}
			order = order[:0]
		case 'N':
			dir = o.Dir
			cmp = heapCmp(dir)
			data := make([]Elem, len(o.Keys), len(o.Keys)+o.I)
			ref = map[int]Elem{}
			order = order[:0]
			for i, k := range o.Keys {
				tag++
				data[i] = Elem{Key: k, Tag: tag}
				ref[tag] = data[i]
				issued[tag] = data[i]
				order = append(order, tag) // not tracked: did not enter through Add or Set
			}
			c.Call("heapq.NewWithData(%d values)", len(data))
			q = heapq.NewWithData(cmp, data)
			if opt.update {
				q.Update(update)
			}
			if opt.moved != 0 {
				cp := *q
				q = &cp
			}
			bind()
		}
		if len(ref) > st.maxLen {
			st.maxLen = len(ref)
		}
		if stray != nil {
			return fail("the comparison function or the update callback was called with %v, which was never handed to the queue", *stray), st
		}
		if d := check(); d != nil {
			return d, st
		}
	}
	// Final drain: non-decreasing under the current comparison, conserving contents.
	step = len(ops)
	st.drains++
	var prev Elem
	first := true
	for len(ref) > 0 {
		c.Step()
		e, ok := q.Pop()
		if !ok {
			return fail("drain: Pop reports empty with %d elements held", len(ref)), st
		}
		if x, held := ref[e.Tag]; !held || x != e {
			return fail("drain: Pop returned %v which is not held", e), st
		}
		if opt.checkOrder {
			if !first && cmp(prev, e) > 0 {
				return fail("drain: %v popped after %v (dir=%d): not non-decreasing", e, prev, dir), st
			}
			if x, isMin := minimal(e); !isMin {
				return fail("drain: Pop returned %v but %v is held and orders before it", e, x), st
			}
		}
		prev, first = e, false
		drop(e.Tag)
		if opt.checkPos {
			if d := check(); d != nil {
				return d, st
			}
		}
	}
	if _, ok := q.Pop(); ok || !accIsEmpty() {
		return fail("drain: queue not empty after popping every held element"), st
	}
	return nil, st
}

// heapGenOps generates a history. The size of the queue after every op is a
// function of the ops alone, so index arguments can be chosen in range.
func heapGenOps(r *rand.Rand, n int, keyRange int, byPos bool) []hop {
	var ops []hop
	size := 0
	// key value patterns: uniform, centred on zero (negative keys), ascending,
	// descending, periodic, and "previous key plus a constant"
	pattern := r.IntN(7)
	seq, last := 0, 0
	key := func() int {
		seq++
		switch pattern {
		case 1:
			return r.IntN(keyRange) - keyRange/2
		case 2:
			return seq
		case 3:
			return -seq
		case 4:
			return (seq * 7) % 5
		case 5:
			last += 3
			if r.IntN(8) == 0 {
				last = r.IntN(keyRange) - keyRange/2
			}
			return last
		}
		return r.IntN(keyRange)
	}
	if r.IntN(3) == 0 {
		m := r.IntN(40)
		ks := make([]int, m)
		for i := range ks {
			ks[i] = key()
		}
		ops = append(ops, hop{Op: 'N', Keys: ks, Dir: r.IntN(8), I: r.IntN(4)})
		size = m
	}
	for len(ops) < n {
		run := 1 + r.IntN(24)
		switch r.IntN(12) {
		case 0, 1, 2, 3: // grow
			for j := 0; j < run && len(ops) < n; j++ {
				ops = append(ops, hop{Op: 'A', Key: key()})
				size++
			}
		case 4: // pops
			for j := 0; j < run/2 && len(ops) < n; j++ {
				ops = append(ops, hop{Op: 'P'})
				if size > 0 {
					size--
				}
			}
		case 5, 6, 7: // removals at arbitrary offsets (interior, last, beyond the end)
			for j := 0; j < run/2 && len(ops) < n; j++ {
				if byPos && r.IntN(2) == 0 {
					ops = append(ops, hop{Op: 'T', I: r.IntN(1 << 20)})
					if size > 0 {
						size--
					}
					continue
				}
				i := r.IntN(size + 2)
				ops = append(ops, hop{Op: 'R', I: i})
				if i < size {
					size--
				}
			}
		case 8: // mixed add/remove keeping the size
			for j := 0; j < run && len(ops) < n; j++ {
				if r.IntN(2) == 0 {
					ops = append(ops, hop{Op: 'A', Key: key()})
					size++
				} else {
					i := r.IntN(size + 1)
					ops = append(ops, hop{Op: 'R', I: i})
					if i < size {
						size--
					}
				}
			}
		case 9:
			m := r.IntN(48)
			ks := make([]int, m)
			for i := range ks {
				ks[i] = key()
			}
			ops = append(ops, hop{Op: 'S', Keys: ks})
			size = m
		case 10:
			ops = append(ops, hop{Op: 'O', Dir: r.IntN(8)})
		case 11:
			if r.IntN(4) == 0 {
				ops = append(ops, hop{Op: 'C'})
				size = 0
			} else {
				ops = append(ops, hop{Op: 'X'}) // a documented panic (negative offset), recovered by the caller
			}
		}
	}
	return ops
}

// heapGenLarge generates a history on a large queue: a bulk load of n elements
// (Set, NewWithData or n Adds), then a few hundred mixed operations, so that
// size-dependent code paths (thresholds at 1024, 4096, ...) are exercised; the
// final drain of heapRun then empties the queue in order.
func heapGenLarge(r *rand.Rand, n, keyRange int, byPos bool) []hop {
	var ops []hop
	ks := make([]int, n)
	for i := range ks {
		ks[i] = r.IntN(keyRange)
	}
	switch r.IntN(3) {
	case 0:
		ops = append(ops, hop{Op: 'S', Keys: ks})
	case 1:
		ops = append(ops, hop{Op: 'N', Keys: ks, Dir: r.IntN(8), I: r.IntN(3)})
	default:
		for _, k := range ks {
			ops = append(ops, hop{Op: 'A', Key: k})
		}
	}
	size := n
	for j := 0; j < 300+r.IntN(500); j++ {
		switch x := r.IntN(10); {
		case x < 4:
			ops = append(ops, hop{Op: 'P'})
			if size > 0 {
				size--
			}
		case x < 6:
			ops = append(ops, hop{Op: 'A', Key: r.IntN(keyRange)})
			size++
		case x < 9:
			if byPos {
				ops = append(ops, hop{Op: 'T', I: r.IntN(1 << 20)})
				if size > 0 {
					size--
				}
			} else {
				i := r.IntN(size + 1)
				ops = append(ops, hop{Op: 'R', I: i})
				if i < size {
					size--
				}
			}
		default:
			if r.IntN(6) == 0 {
				ops = append(ops, hop{Op: 'O', Dir: r.IntN(8)})
			}
		}
	}
	return ops
}

func heapHash(ops []hop) uint64 {
	h := fw.NewH()
	for _, o := range ops {
		h.Int(int(o.Op))
		h.Int(o.Key)
		h.Int(o.I)
		h.Int(o.Dir)
		h.Ints(o.Keys)
	}
	return h.Sum()
}

// bigElem is an element type of more than 128 bytes (some implementations
// choose different code paths by element size).
type bigElem struct {
	Key, Tag int
	Pad      [25]int64
}

// heapBigRun drives a queue of bigElem with an update callback through a short
// random history and checks conservation, minimality of Front/Pop and the
// reported positions after every operation. It returns a problem or "".
func heapBigRun(r *rand.Rand, checkOrder bool, step func()) string {
	pos := map[int]int{}
	held := map[int]bigElem{}
	q := heapq.New(func(a, b bigElem) int { return 2 * (a.Key - b.Key) })
	q.Update(func(e bigElem, p int) { pos[e.Tag] = p })
	tag := 0
	mk := func() bigElem {
		tag++
		e := bigElem{Key: r.IntN(20), Tag: tag}
		e.Pad[3], e.Pad[24] = int64(tag), int64(-tag)
		return e
	}
	var log []string
	check := func() string {
		if q.Len() != len(held) {
			return fmt.Sprintf("Len=%d, %d held", q.Len(), len(held))
		}
		for t, e := range held {
			p, ok := pos[t]
			got, gok := q.Peek(p)
			if !ok || !gok || got != e {
				return fmt.Sprintf("element tag %d (key %d) was last reported at %d (reported=%v) but Peek there gives tag %d (ok=%v)", t, e.Key, p, ok, got.Tag, gok)
			}
		}
		if len(held) > 0 && checkOrder {
			f := q.Front()
			for _, e := range held {
				if e.Key < f.Key {
					return fmt.Sprintf("Front has key %d but key %d is held", f.Key, e.Key)
				}
			}
		}
		return ""
	}
	for i := 0; i < 120; i++ {
		step()
		switch x := r.IntN(10); {
		case x < 1:
			n := r.IntN(14)
			vs := make([]bigElem, n)
			held = map[int]bigElem{}
			for j := range vs {
				vs[j] = mk()
				held[vs[j].Tag] = vs[j]
			}
			log = append(log, fmt.Sprintf("Set(%d elements)", n))
			q.Set(vs)
		case x < 5:
			e := mk()
			held[e.Tag] = e
			log = append(log, fmt.Sprintf("Add(key %d tag %d)", e.Key, e.Tag))
			if p := q.Add(e); pos[e.Tag] != p {
				return fmt.Sprintf("%v: Add returned %d, last reported position %d", log, p, pos[e.Tag])
			}
		case x < 7:
			log = append(log, "Pop")
			e, ok := q.Pop()
			if ok != (len(held) > 0) {
				return fmt.Sprintf("%v: Pop ok=%v with %d held", log, ok, len(held))
			}
			if ok {
				if h, is := held[e.Tag]; !is || h != e {
					return fmt.Sprintf("%v: Pop returned an element that is not held (tag %d)", log, e.Tag)
				}
				for _, o := range held {
					if checkOrder && o.Key < e.Key {
						return fmt.Sprintf("%v: Pop returned key %d but key %d is held", log, e.Key, o.Key)
					}
				}
				delete(held, e.Tag)
			}
		case x < 9:
			if len(held) == 0 {
				continue
			}
			var t int
			k := r.IntN(len(held))
			for tt := range held {
				if k == 0 {
					t = tt
					break
				}
				k--
			}
			log = append(log, fmt.Sprintf("Remove(reported position of tag %d)", t))
			got, ok := q.Remove(pos[t])
			if !ok || got != held[t] {
				return fmt.Sprintf("%v: Remove(%d) returned tag %d (ok=%v), want tag %d", log, pos[t], got.Tag, ok, t)
			}
			delete(held, t)
		default:
			log = append(log, "Reorder(reversed)")
			q.Reorder(func(a, b bigElem) int { return 2 * (a.Key - b.Key) }) // same order again: a pure re-heapify
		}
		if pr := check(); pr != "" {
			return fmt.Sprintf("%v: %s", log, pr)
		}
	}
	return ""
}

// heapVeryLarge fills a queue with n elements (bulk Set for the first half,
// Add for the rest), removes a few thousand through reported positions when an
// update callback is installed, and drains it. It checks the count, the
// reported positions of a sample of elements at the peak, and that the drain
// is non-decreasing and returns exactly what was held. Order is checked only
// when checkOrder is set (callers set the F1 counterfactual switch for that).
func heapVeryLarge(r *rand.Rand, n int, update, checkOrder bool, step func()) string {
	pos := map[int]int{}
	q := heapq.New(cmpElem)
	if update {
		q.Update(func(e Elem, p int) { pos[e.Tag] = p })
	}
	held := make(map[int]int, n) // tag -> key
	half := make([]Elem, n/2)
	for i := range half {
		half[i] = Elem{Key: r.IntN(n), Tag: i + 1}
		held[i+1] = half[i].Key
	}
	q.Set(half)
	for i := n / 2; i < n; i++ {
		e := Elem{Key: r.IntN(n), Tag: i + 1}
		held[e.Tag] = e.Key
		p := q.Add(e)
		if update && pos[e.Tag] != p {
			return fmt.Sprintf("Add returned offset %d, last reported offset %d (element %d of %d)", p, pos[e.Tag], i, n)
		}
		if i%4096 == 0 {
			step()
		}
	}
	if q.Len() != n {
		return fmt.Sprintf("Len=%d after putting in %d elements", q.Len(), n)
	}
	if update {
		for k := 0; k < 4000; k++ {
			tag := 1 + r.IntN(n)
			key, ok := held[tag]
			if !ok {
				continue
			}
			p, rep := pos[tag]
			got, gok := q.Peek(p)
			if !rep || !gok || got.Tag != tag || got.Key != key {
				return fmt.Sprintf("element tag %d was last reported at offset %d (reported=%v) but Peek there gives tag %d (ok=%v), queue of %d", tag, p, rep, got.Tag, gok, q.Len())
			}
			if k%2 == 0 {
				if rem, rok := q.Remove(p); !rok || rem.Tag != tag {
					return fmt.Sprintf("Remove(reported offset %d of tag %d) removed tag %d (ok=%v)", p, tag, rem.Tag, rok)
				}
				delete(held, tag)
			}
		}
	}
	prev, first := 0, true
	for q.Len() > 0 {
		e, ok := q.Pop()
		if !ok {
			return "Pop failed on a non-empty queue"
		}
		key, h := held[e.Tag]
		if !h || key != e.Key {
			return fmt.Sprintf("Pop returned tag %d key %d, which is not held (held=%v)", e.Tag, e.Key, h)
		}
		delete(held, e.Tag)
		if checkOrder && !first && e.Key < prev {
			return fmt.Sprintf("drain not ordered: key %d popped after key %d, %d elements left", e.Key, prev, q.Len())
		}
		prev, first = e.Key, false
		if q.Len()%8192 == 0 {
			step()
		}
	}
	if len(held) != 0 {
		return fmt.Sprintf("%d elements were put in but never came out", len(held))
	}
	return ""
}

// heapLevelSwap: a queue of 2^(j+2)-1 elements is Set in index order (element
// k at offset k), then Reordered under a comparison that ranks elements by
// their tree level with levels j and j+1 exchanged. Rebuilding the heap then
// takes exactly 2^j exchanges (every node of level j with its left child), so
// anything the queue counts per exchange wraps if it is 8, 16 or 17 bits wide.
// Afterwards every element must be found at its last reported offset, the
// offsets must be a permutation, and removals through reported offsets must
// remove the right elements.
func heapLevelSwap(j int, step func()) string {
	n := 1<<(j+2) - 1
	level := func(k int) int { // tree level of heap offset k
		l := 0
		for k > 0 {
			k = (k - 1) / 2
			l++
		}
		return l
	}
	rank := func(e Elem) int {
		l := level(e.Key)
		switch l {
		case j:
			l = j + 1
		case j + 1:
			l = j
		}
		return l
	}
	pos := make([]int, n)
	reported := make([]bool, n)
	q := heapq.New(cmpElem)
	q.Update(func(e Elem, p int) { pos[e.Tag], reported[e.Tag] = p, true })
	vs := make([]Elem, n)
	for i := range vs {
		vs[i] = Elem{Key: i, Tag: i}
	}
	q.Set(vs)
	step()
	q.Reorder(func(a, b Elem) int {
		if ra, rb := rank(a), rank(b); ra != rb {
			return ra - rb
		}
		return a.Key - b.Key
	})
	step()
	seen := make([]bool, n)
	for t := 0; t < n; t++ {
		got, ok := q.Peek(pos[t])
		if !reported[t] || !ok || got.Tag != t {
			return fmt.Sprintf("after Reorder (exactly %d exchanges): element %d was last reported at offset %d, Peek there gives element %d (ok=%v)", 1<<j, t, pos[t], got.Tag, ok)
		}
		if seen[pos[t]] {
			return fmt.Sprintf("after Reorder: offset %d reported for two elements", pos[t])
		}
		seen[pos[t]] = true
	}
	for k := 0; k < 300; k++ {
		t := (k*7919 + 1<<j - 1) % n
		if !reported[t] {
			continue
		}
		got, ok := q.Remove(pos[t])
		if !ok || got.Tag != t {
			return fmt.Sprintf("after Reorder: Remove(reported offset %d of element %d) removed element %d (ok=%v)", pos[t], t, got.Tag, ok)
		}
		reported[t] = false
	}
	return ""
}

// heapReorderSmall: a queue of n elements holding a given arrangement (built
// with NewWithData from a slice that is a heap under order A) is Reordered to
// an order B given by rankB (an arbitrary ranking unrelated to A); afterwards
// the drain must be sorted under B. Returns a problem or "".
func heapReorderSmall(layout []int, rankB []int) string {
	n := len(layout)
	data := make([]Elem, n)
	for i, k := range layout {
		data[i] = Elem{Key: k, Tag: i}
	}
	q := heapq.NewWithData(cmpElem, data)
	q.Reorder(func(a, b Elem) int { return rankB[a.Key] - rankB[b.Key] })
	prev := -1
	for i := 0; i < n; i++ {
		f := q.Front()
		e, ok := q.Pop()
		if !ok || e != f {
			return fmt.Sprintf("Pop=(%v,%v) but Front was %v", e, ok, f)
		}
		if rankB[e.Key] < prev {
			return fmt.Sprintf("after Reorder of arrangement %v (a heap under the natural order) to the order given by ranks %v: element with rank %d popped after rank %d", layout, rankB, rankB[e.Key], prev)
		}
		prev = rankB[e.Key]
	}
	if q.Len() != 0 {
		return "queue not empty after n pops"
	}
	return ""
}

// permutations calls f with every permutation of 0..n-1 (Heap's algorithm);
// f must not keep the slice. It stops when f returns false.
func permutations(n int, f func([]int) bool) {
	p := make([]int, n)
	for i := range p {
		p[i] = i
	}
	cnt := make([]int, n)
	if !f(p) {
		return
	}
	for i := 0; i < n; {
		if cnt[i] < i {
			if i%2 == 0 {
				p[0], p[i] = p[i], p[0]
			} else {
				p[cnt[i]], p[i] = p[i], p[cnt[i]]
			}
			if !f(p) {
				return
			}
			cnt[i]++
			i = 0
		} else {
			cnt[i] = 0
			i++
		}
	}
}

func isHeapLayout(p []int) bool {
	for i := 1; i < len(p); i++ {
		if p[i] < p[(i-1)/2] {
			return false
		}
	}
	return true
}
