//go:build pC05 || pall

package props

import (
	"fmt"
	"slices"
	"sort"

	"github.com/creachadair/mds/heapq"
	"verif/harness/fw"
)

// C05 — heapq.Queue always yields a minimum element; contents are conserved;
// heapq.Sort sorts. Known finding F1 (pushUp's parent index) is attributed by
// the counterfactual protocol: see DESIGN.md §4.

func init() {
	fw.Register(&fw.Property{
		ID: "C05",
		Meta: func(tier string) fw.Meta {
			return fw.Meta{
				Flavours: []string{"plain", "cover", "386"},
				Blocks:   16,
				Procs:    16,
				Rule: "case = history of Add/Pop/Remove(i)/Set/Reorder/Clear/NewWithData (60-400 ops, keys with many duplicates, three comparison orders, sizes across >= 4 heap levels) followed by a full drain; every history is executed twice: as is, and with the verif hook substituting (i-1)/2 as the parent in pushUp (counterfactual). " +
					"After EVERY op: Len/IsEmpty, multiset through Each, Front held and minimal under the current comparison, Peek(0)==Front, Remove(i) returns what Peek(i) showed, Add's returned index holds the element, Set does not alias or modify its argument; the drain is non-decreasing. " +
					"A violation of the real run is attributed to known finding F1 iff it disappears in the counterfactual run and every parent index the hook saw was i/2 or (i-1)/2; any violation in a counterfactual run is a VIOLATION. " +
					"Reorder to an unrelated order: every heap arrangement of 7 (8 thorough) distinct keys x every ranking as the new order, random ones for 8..24 elements, drain checked under the new order (counterfactual switch on). Very large queues: 262143..1.2 M elements (4 M thorough) put in by Set and Add and drained (count, conservation, drain order with the counterfactual switch on). Long-lived queues: one instance carries 120 000 (500 000 thorough) operations under light observation. heapq.Sort: every input of length <= 7 over 4 values (exhaustive) and random inputs up to 2000. " +
					"heapq.Sort: every input of length <= 7 over 4 keys, random inputs to 20000, and inputs in order under the comparator in use except for one displaced element (smallest last, largest first, last two exchanged, middle to end, ...) for every length 0..300 and a few to 70001. " +
					"The comparison function notes its arguments: only elements that were handed to the queue may be passed to it. " +
					"distinct = hash of the op list; non-trivial = the queue reached >= 16 elements or an interior Remove(i) occurred",
				Required:     []string{"histories", "histories_size_ge16", "interior_removes", "pushup_even_index_calls", "reorders", "sort_inputs", "sort_inputs_one_element_out_of_place", "drains", "large_queue_histories", "big_element_histories", "sparse_observation_histories", "long_lived_queue_runs", "very_large_queues", "reorder_to_unrelated_order_cases", "histories_with_bound_method_values_or_moved_struct"},
				Exhaustive:   false,
				Assumptions:  []string{"reference: map of held {Key,Tag} elements; minimality is checked against all held elements under the comparison currently installed", "known finding F1 is excused only through the counterfactual switch in heapq/verif_on.go"},
				CoverPkgs:    []string{"github.com/creachadair/mds/heapq"},
				CoverAnchors: []string{"heapq/heapq.go"},
			}
		},
		Run: runC05,
	})
}

// c05attribute runs ops in both modes and reports. It returns true if the
// real run violated (for statistics).
func c05attribute(c *fw.Ctx, ops []hop, opt heapOpts, prop string) (realViolated bool, st heapStats) {
	opt.fixParent = false
	var div *heapDiv
	ok, pv, stack := fw.Try(func() { div, st = heapRun(c, ops, opt) })
	if !ok {
		div = &heapDiv{Step: -1, Detail: fmt.Sprintf("panic: %v\n%s", pv, stack)}
	}
	cfOpt := opt
	cfOpt.fixParent = true
	var cfDiv *heapDiv
	ok2, pv2, stack2 := fw.Try(func() { cfDiv, _ = heapRun(c, ops, cfOpt) })
	if !ok2 {
		cfDiv = &heapDiv{Step: -1, Detail: fmt.Sprintf("panic: %v\n%s", pv2, stack2)}
	}
	caseData := func(d *heapDiv) map[string]any {
		upto := len(ops)
		if d != nil && d.Step >= 0 && d.Step < len(ops) {
			upto = d.Step + 1
		}
		return map[string]any{"ops": hopStrings(ops[:upto]), "update_callback": opt.update}
	}
	switch {
	case cfDiv != nil:
		c.Fail(caseData(cfDiv), "with the known F1 parent index corrected (counterfactual run), at op %d: %s", cfDiv.Step, cfDiv.Detail)
	case div != nil && st.oddParents > 0:
		c.Fail(caseData(div), "at op %d: %s (and pushUp computed %d parent indices that are neither i/2 nor (i-1)/2)", div.Step, div.Detail, st.oddParents)
	case div != nil:
		c.Known("F1", caseData(div), "at op %d: %s; vanishes when pushUp uses (i-1)/2", div.Step, div.Detail)
	}
	return div != nil, st
}

func runC05(c *fw.Ctx) {
	opt := heapOpts{checkOrder: true}
	idx := 0
	// Known-finding witness (seed-independent), block 0.
	if c.Block == 0 {
		if c.Begin(idx) {
			ops := []hop{{Op: 'S', Keys: []int{1, 10, 2, 11}}, {Op: 'A', Key: 5}, {Op: 'A', Key: 12}, {Op: 'A', Key: 13}, {Op: 'P'}, {Op: 'P'}}
			viol, _ := c05attribute(c, ops, opt, "C05")
			if !viol {
				c.Note("the recorded F1 witness history no longer violates C05 on this tree")
				c.Add("f1_witness_no_longer_fails", 1)
			} else {
				c.Add("f1_witness_still_fails", 1)
			}
		}
		idx++
		// F2 regression witness family: interior removals on hand-laid heaps.
		if c.Begin(idx) {
			for n := 6; n <= 40; n++ {
				ks := make([]int, n)
				for i := range ks {
					// left subtree large values, right subtree small ones
					ks[i] = i
				}
				for i := 1; i < n-1; i++ {
					ops := []hop{{Op: 'N', Keys: c05layout(n)}, {Op: 'R', I: i}}
					c05attribute(c, ops, opt, "C05")
				}
			}
		}
		idx++
	} else {
		idx = 2
	}
	n := c.Pick(2500, 60000)
	for k := 0; k < n; k++ {
		if !c.Begin(idx + k) {
			continue
		}
		r := c.Rng()
		nops := 60 + r.IntN(341)
		keyRange := []int{4, 12, 50, 1000}[r.IntN(4)]
		o := opt
		o.update = r.IntN(3) == 0
		o.sparse = k%4 == 1
		if o.sparse {
			c.Add("sparse_observation_histories", 1)
		}
		o.bound = k%5 == 2                        // observe through method values bound at construction
		o.moved = []int{0, 0, 0, 1, 0, 2, 0}[k%7] // the Queue struct moved by value (fresh / after use)
		if o.bound || o.moved != 0 {
			c.Add("histories_with_bound_method_values_or_moved_struct", 1)
		}
		ops := heapGenOps(r, nops, keyRange, false)
		viol, st := c05attribute(c, ops, o, "C05")
		c.Add("histories", 1)
		if viol {
			c.Add("real_run_violations", 1)
		}
		if st.maxLen >= 16 {
			c.Add("histories_size_ge16", 1)
		}
		c.Add("interior_removes", int64(st.interior))
		c.Add("pushup_even_index_calls", st.evenPushUps)
		c.Add("pushup_calls", st.parentCalls)
		c.Add("reorders", int64(st.reorders))
		c.Add("drains", int64(st.drains))
		c.Max("max:queue_len", int64(st.maxLen))
		if st.maxLen >= 16 || st.interior > 0 {
			c.Seen(heapHash(ops))
		}
		if c.WantSample() && len(ops) < 80 {
			c.Sample(map[string]any{"ops": hopStrings(ops)})
		}
	}
	idx += n

	// large queues (thresholds in the thousands): light per-step checks, full order check on every Pop and in the drain
	nl := c.Pick(3, 24)
	for k := 0; k < nl; k++ {
		if !c.Begin(idx + k) {
			continue
		}
		r := c.Rng()
		size := []int{1023, 1024, 1025, 2047, 2048, 3000, 4095, 4096, 4097, 6000, 9000}[(k+c.Block)%11]
		o := opt
		o.light = true
		o.update = r.IntN(3) == 0
		ops := heapGenLarge(r, size, []int{8, 1000, 1 << 30}[r.IntN(3)], false)
		_, st := c05attribute(c, ops, o, "C05")
		c.Add("large_queue_histories", 1)
		c.Add("interior_removes", int64(st.interior))
		c.Max("max:queue_len", int64(st.maxLen))
		c.Seen(heapHash(ops))
	}
	idx += nl
	// long-lived queues: one instance carries 120 000 (500 000 thorough) operations
	// (light observation), so that anything accumulating per call can drift
	for k := 0; k < c.Pick(1, 3); k++ {
		if !c.Begin(idx + 5000 + k) {
			continue
		}
		r := c.Rng()
		o := opt
		o.light = true
		o.sparse = r.IntN(2) == 0
		o.update = r.IntN(2) == 0
		ops := heapGenOps(r, c.Pick(120000, 500000), []int{4, 1000, 1 << 30}[r.IntN(3)], false)
		_, st := c05attribute(c, ops, o, "C05")
		c.Add("long_lived_queue_runs", 1)
		c.Max("max:queue_len", int64(st.maxLen))
	}
	// very large queues (262143 .. 1.2 M elements, 4 M thorough), one per block;
	// order checked with the F1 counterfactual switch on
	if c.Begin(idx + 5100 + c.Block) {
		sizes := []int{262143, 262144, 262145, 300000, 524289, 600000, 1048577, 1200000}
		n := sizes[c.Block%len(sizes)]
		if c.Thorough() && c.Block%4 == 2 {
			n = 4000000
		}
		ok, pv, stack := fw.Try(func() {
			heapq.VerifFixParent.Store(true)
			defer heapq.VerifFixParent.Store(false)
			if pr := heapVeryLarge(c.Rng(), n, c.Block%2 == 0, true, c.Step); pr != "" {
				c.Fail(map[string]any{"elements": n, "update_callback": c.Block%2 == 0, "mode": "counterfactual (F1 parent index corrected)"}, "%s", pr)
			}
		})
		if !ok {
			c.FailKind("panic", map[string]any{"elements": n}, "panic: %v\n%s", pv, stack)
		}
		c.Add("very_large_queues", 1)
		c.Max("max:queue_len", int64(n))
	}
	// Reorder to an unrelated order, small queues: EVERY heap arrangement of 7
	// (8 thorough) distinct keys x EVERY ranking as the new order (seed-independent),
	// and random arrangements/rankings for 8..24 elements. Order is checked with
	// the F1 counterfactual switch on.
	if c.Begin(idx + 5300 + c.Block) {
		ok, pv, stack := fw.Try(func() {
			heapq.VerifFixParent.Store(true)
			defer heapq.VerifFixParent.Store(false)
			var cnt int64
			n := c.Pick(7, 8)
			var layouts [][]int
			permutations(n, func(p []int) bool {
				if isHeapLayout(p) {
					layouts = append(layouts, append([]int(nil), p...))
				}
				return true
			})
			bad := false
			li := 0
			permutations(n, func(rank []int) bool {
				li++
				if li%c.NBlocks != c.Block {
					return true
				}
				for _, lay := range layouts {
					cnt++
					if pr := heapReorderSmall(lay, rank); pr != "" {
						c.Fail(map[string]any{"arrangement": lay, "new_order_ranks": append([]int(nil), rank...), "mode": "counterfactual (F1 parent index corrected)"}, "%s", pr)
						bad = true
						return false
					}
				}
				if li%512 == 0 {
					c.Step()
				}
				return !c.Stopped()
			})
			r := c.Rng()
			for t := 0; t < c.Pick(20000, 300000) && !bad; t++ {
				m := 8 + r.IntN(17)
				lay := r.Perm(m)
				sort.Ints(lay[:1+r.IntN(m)]) // partly ordered arrangements pass more relations
				if !isHeapLayout(lay) {
					// make it a heap under the natural order, as NewWithData will
					q := heapq.NewWithData(func(a, b int) int { return a - b }, append([]int(nil), lay...))
					lay = lay[:0]
					q.Each(func(v int) bool { lay = append(lay, v); return true })
				}
				rank := r.Perm(m)
				if t%3 == 0 {
					// the new order agrees with the old one except for a few exchanged ranks
					for i := range rank {
						rank[i] = i
					}
					for x := 1 + r.IntN(3); x > 0; x-- {
						a, b := r.IntN(m), r.IntN(m)
						rank[a], rank[b] = rank[b], rank[a]
					}
				}
				cnt++
				if pr := heapReorderSmall(lay, rank); pr != "" {
					c.Fail(map[string]any{"arrangement": lay, "new_order_ranks": rank, "mode": "counterfactual (F1 parent index corrected)"}, "%s", pr)
					bad = true
				}
				if t%1024 == 0 {
					c.Step()
				}
			}
			c.Add("reorder_to_unrelated_order_cases", cnt)
			c.Evals(cnt)
			c.SeenEnum(cnt)
		})
		if !ok {
			c.FailKind("panic", map[string]any{"phase": "Reorder to an unrelated order"}, "panic: %v\n%s", pv, stack)
		}
	}
	// elements larger than 128 bytes, update callback installed
	for k := 0; k < c.Pick(40, 600); k++ {
		if !c.Begin(idx + k) {
			continue
		}
		ok, pv, stack := fw.Try(func() {
			// order is checked with the F1 counterfactual switch on (real-mode order
			// violations are attributed by the main workload; nothing is excused here)
			heapq.VerifFixParent.Store(true)
			defer heapq.VerifFixParent.Store(false)
			if pr := heapBigRun(c.Rng(), true, c.Step); pr != "" {
				c.Fail(map[string]any{"element_type": "216-byte struct", "update_callback": true, "mode": "counterfactual (F1 parent index corrected)"}, "%s", pr)
			}
		})
		if !ok {
			c.FailKind("panic", map[string]any{"element_type": "216-byte struct"}, "panic: %v\n%s", pv, stack)
		}
		c.Add("big_element_histories", 1)
	}
	idx += 600

	// heapq.Sort: exhaustive small inputs (partitioned over blocks), random large.
	code := 0
	for length := 0; length <= 7; length++ {
		total := 1
		for i := 0; i < length; i++ {
			total *= 4
		}
		for x := 0; x < total; x++ {
			code++
			if code%c.NBlocks != c.Block {
				continue
			}
			if !c.Begin(idx + code) {
				continue
			}
			vs := make([]Elem, length)
			y := x
			for i := range vs {
				vs[i] = Elem{Key: y % 4, Tag: i + 1}
				y /= 4
			}
			c05sort(c, vs, x%8)
			c.SeenEnum(1)
		}
	}
	idx += code + 1
	for k := 0; k < c.Pick(300, 3000); k++ {
		if !c.Begin(idx + k) {
			continue
		}
		r := c.Rng()
		m := r.IntN(2001)
		if k%10 == 0 {
			m = []int{4095, 4096, 4097, 5000, 8192, 10000, 20000, 6000}[(k/10+c.Block)%8] // beyond buffer-size thresholds
		}
		kr := []int{2, 5, 100, 1 << 30}[r.IntN(4)]
		vs := make([]Elem, m, m+[]int{0, 0, 5000}[r.IntN(3)])
		if k%20 == 10 {
			// a short slice inside a very large array
			big := make([]Elem, 9000)
			m = r.IntN(60)
			vs = big[100 : 100+m]
		}
		for i := range vs {
			vs[i] = Elem{Key: r.IntN(kr), Tag: i + 1}
		}
		c05sort(c, vs, r.IntN(8))
	}
	idx += 3000
	// inputs that are in order under the comparator in use except for one
	// displaced element (the shape left by appending to sorted data, or by
	// changing one priority), for every length 0..300 and a few long ones
	lens := make([]int, 0, 40)
	for n := c.Block; n <= 300; n += c.NBlocks {
		lens = append(lens, n)
	}
	lens = append(lens, []int{1000, 4097, 33000, 70001}[c.Block%4])
	for li, n := range lens {
		if !c.Begin(idx + li) {
			continue
		}
		r := c.Rng()
		dir := (n + li) % 8
		cmp := heapCmp(dir)
		base := make([]Elem, n)
		kr := []int{3, 50, 1 << 20}[n%3]
		for i := range base {
			base[i] = Elem{Key: r.IntN(kr) - kr/3, Tag: i + 1}
		}
		sort.SliceStable(base, func(i, j int) bool { return cmp(base[i], base[j]) < 0 })
		for shape := 0; shape < 9; shape++ {
			vs := append([]Elem(nil), base...)
			if n >= 2 {
				move := func(from, to int) { // take the element at from and put it at to
					e := vs[from]
					copy(vs[from:], vs[from+1:])
					copy(vs[to+1:], vs[to:n-1])
					vs[to] = e
				}
				switch shape {
				case 1: // the smallest element last
					move(0, n-1)
				case 2: // the largest element first
					move(n-1, 0)
				case 3: // the last two exchanged
					vs[n-1], vs[n-2] = vs[n-2], vs[n-1]
				case 4: // the first two exchanged
					vs[0], vs[1] = vs[1], vs[0]
				case 5: // one element from the middle moved to the end
					move(n/2, n-1)
				case 6: // the last element moved into the middle
					move(n-1, n/2)
				case 7: // two ascending runs
					slices.Reverse(vs)
					slices.Reverse(vs[:n/2])
					slices.Reverse(vs[n/2:])
				case 8: // descending
					slices.Reverse(vs)
				}
			}
			c05sort(c, vs, dir)
			c.Add("sort_inputs_one_element_out_of_place", 1)
		}
	}
}

// c05layout returns keys whose bottom-up heapification leaves small values in
// the last positions and large values in the left subtree, so that removing an
// interior element of the left subtree moves a small element under a large
// parent (the F2 shape).
func c05layout(n int) []int {
	ks := make([]int, n)
	for i := range ks {
		switch {
		case i == 0:
			ks[i] = 0
		default:
			// nodes whose path from the root starts with the left child get 100+, others 1+
			j := i
			for j > 2 {
				j = (j - 1) / 2
			}
			if j == 1 {
				ks[i] = 100 + i
			} else {
				ks[i] = 1 + i
			}
		}
	}
	return ks
}

func c05sort(c *fw.Ctx, vs []Elem, dir int) {
	c.Add("sort_inputs", 1)
	cmp := heapCmp(dir)
	in := append([]Elem(nil), vs...)
	ok, pv, stack := fw.Try(func() { heapq.Sort(cmp, vs) })
	show := func(es []Elem) any {
		if len(es) > 40 {
			return fmt.Sprintf("%d elements", len(es))
		}
		return elemsString(es)
	}
	c.Step()
	if !ok {
		c.FailKind("panic", map[string]any{"sort_input": show(in), "dir": dir}, "heapq.Sort panicked: %v\n%s", pv, stack)
		return
	}
	for i := 1; i < len(vs); i++ {
		if cmp(vs[i-1], vs[i]) > 0 {
			c.Fail(map[string]any{"sort_input": show(in), "dir": dir}, "heapq.Sort output not non-decreasing at index %d: %v before %v (output %v)", i, vs[i-1], vs[i], show(vs))
			return
		}
	}
	a := append([]Elem(nil), in...)
	b := append([]Elem(nil), vs...)
	sort.Slice(a, func(i, j int) bool { return a[i].Tag < a[j].Tag })
	sort.Slice(b, func(i, j int) bool { return b[i].Tag < b[j].Tag })
	if !equalElems(a, b) {
		c.Fail(map[string]any{"sort_input": show(in), "dir": dir}, "heapq.Sort output is not a permutation of its input: %v", show(vs))
	}
}
