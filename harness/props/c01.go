//go:build pC01 || pall

package props

import (
	"fmt"
	"iter"
	"math/rand/v2"

	"github.com/creachadair/mds/stree"
	"verif/harness/fw"
)

// C01 — stree.Tree is a sorted set. Reference: sorted slice of {Key,Tag} under
// the same comparator (Key/div, so that with div=2 distinct keys can be
// equivalent and the stored representative is observable). After every call
// the full observable state is compared.

func init() {
	fw.Register(&fw.Property{
		ID: "C01",
		Meta: func(tier string) fw.Meta {
			return fw.Meta{
				Flavours: []string{"plain", "race", "cover", "386"},
				Blocks:   32,
				Procs:    16,
				Rule: "(o) sparse-observation histories (trees of 64+ keys, operations chosen with locality, only the results of Get/Min/Max/Add/Replace/Remove themselves observed, on a tree and its clones), nested and interleaved scans (InorderAfter started inside a running scan; one sequence value ranged inside its own loop body and pulled by two iterators at once; pull iterators on a tree and its clone stepped alternately), 8 goroutines each working on its own Clone of one prototype, and 8 goroutines that only read one shared tree with no writer around (Get, Min, Max, Len, Inorder, InorderAfter, Cursor walks; both also under -race); (i') deep-then-shrunk trees: monotone insertions at 14 loose balance factors x 6 sizes, then removal of the far end key by key with InorderAfter from below the minimum, the minimum, the middle and the maximum checked after every removal; (i) rebuild sweep (seed-independent): the delete-side whole-tree rebuild is forced to run at exactly size s for every s <= 400 (2500 thorough) and for 2^k-3..2^k+3, k <= 13 (16), and the contents are compared afterwards; (ii) case = (beta, comparator granularity incl. comparators that return differences instead of -1/0/+1, bulk-New keys, phase-structured history of Add/Replace/Remove/Clear/Clone over up to 3 live trees). " +
					"Phases: ascending / descending / zig-zag / random inserts, mixed random ops, drains (to empty, to 1/8, to 1/2; ascending, descending, random order), forced two-child removals followed by Get of the promoted successor, Clear, Clone. " +
					"After EVERY call: Len, IsEmpty, Min, Max, (every fifth step first a scan abandoned half-way: its loop body panics and the caller recovers,) full Inorder (with stored tags), Inorder early stop, Get for all/sampled keys, InorderAfter for sampled keys with early stop; range functions returned by InorderAfter are put aside and ranged only after later Add/Remove/Clear calls (they must then describe the tree as it is at that moment). " +
					"beta: quick uses {0,1,2,50,100,250,500,750,999,1000}; thorough additionally sweeps every beta in 0..1000. " +
					"distinct = hash of (beta, div, every op with its key); non-trivial = the history contained a scapegoat rebuild on insert, a delete-side whole rebuild, or a two-child removal (detected from the tree shape read through Root/Left/Right)",
				Required:     []string{"insert_rebuilds", "delete_rebuilds", "two_child_removals", "new_with_duplicates", "clones", "replace_existing", "steps", "histories_with_wide_comparator", "rebuilds_at_exact_size", "clone_worker_rounds", "sparse_observation_histories", "nested_scan_cases", "sequence_values_ranged_inside_their_own_loop", "abandoned_scans", "kept_range_functions_ranged_later", "shared_reader_rounds", "deep_then_shrink_cases", "bulk_new_with_stateful_comparator"},
				Assumptions:  []string{"reference model: sorted slice with textbook set semantics", "tree shape for reach counters is read through stree.Cursor (checked separately by C03)"},
				CoverPkgs:    []string{"github.com/creachadair/mds/stree"},
				CoverAnchors: []string{"stree/stree.go", "stree/node.go"},
			}
		},
		Run: runC01,
	})
}

type c01tree struct {
	t   *stree.Tree[Elem]
	ref *refSet
	// range functions obtained from InorderAfter earlier and not yet (or not
	// only once) ranged: ranged later, they must describe the tree as it is then
	kept []c01kept
	// method values bound when the tree was created or cloned (every third tree
	// is observed through them)
	bLen     func() int
	bIsEmpty func() bool
	bMin     func() Elem
	bMax     func() Elem
	bGet     func(Elem) (Elem, bool)
}

// c01newTree wraps a tree; every fifth tree is first moved by value (the
// owner holds the Tree struct itself and uses only the copy), every third one
// gets method values bound now.
func (h *c01hist) c01newTree(t *stree.Tree[Elem], ref *refSet) *c01tree {
	h.made++
	if h.made%5 == 3 {
		cp := *t
		t = &cp
		h.c.Add("trees_moved_by_value", 1)
	}
	tr := &c01tree{t: t, ref: ref}
	if h.made%3 == 1 {
		tr.bLen, tr.bIsEmpty, tr.bMin, tr.bMax, tr.bGet = t.Len, t.IsEmpty, t.Min, t.Max, t.Get
		h.c.Add("trees_observed_through_bound_method_values", 1)
	}
	return tr
}

type c01kept struct {
	k   int
	seq iter.Seq[Elem]
}

type c01hist struct {
	c      *fw.Ctx
	r      *rand.Rand
	beta   int
	div    int
	trees  []*c01tree
	log    opLog
	tag    int
	h      *fw.H
	failed bool
	nontr  bool
	steps  int
	made   int // trees created so far (selects the variants in c01newTree)
}

func (h *c01hist) newTag() int { h.tag++; return h.tag }

func (h *c01hist) fail(format string, args ...any) {
	if h.failed {
		return
	}
	h.failed = true
	h.c.Fail(map[string]any{"beta": h.beta, "div": h.div, "ops": h.log.list()}, "after %d ops: %s", len(h.log.ops), fmt.Sprintf(format, args...))
}

// checkTree compares every observable of tr.t with tr.ref.
func (h *c01hist) checkTree(ti int, focus int) {
	tr := h.trees[ti]
	t, ref := tr.t, tr.ref
	n := len(ref.es)
	fLen, fIsEmpty, fMin, fMax := t.Len, t.IsEmpty, t.Min, t.Max
	via := ""
	if tr.bLen != nil {
		fLen, fIsEmpty, fMin, fMax = tr.bLen, tr.bIsEmpty, tr.bMin, tr.bMax
		via = " (called through a method value bound when the tree was created)"
		if n > 0 {
			if g, ok := tr.bGet(Elem{Key: ref.es[n/2].Key, Tag: -1}); !ok || g != ref.es[n/2] {
				h.fail("tree %d: Get(%d)%s = (%v,%v) want %v", ti, ref.es[n/2].Key, via, g, ok, ref.es[n/2])
				return
			}
		}
	}
	if got := fLen(); got != n {
		h.fail("tree %d: Len%s=%d want %d", ti, via, got, n)
		return
	}
	if got := fIsEmpty(); got != (n == 0) {
		h.fail("tree %d: IsEmpty%s=%v with %d keys", ti, via, got, n)
		return
	}
	var wmin, wmax Elem
	if n > 0 {
		wmin, wmax = ref.es[0], ref.es[n-1]
	}
	if got := fMin(); got != wmin {
		h.fail("tree %d: Min%s=%v want %v", ti, via, got, wmin)
		return
	}
	if got := fMax(); got != wmax {
		h.fail("tree %d: Max%s=%v want %v", ti, via, got, wmax)
		return
	}
	// A scan abandoned half-way: the loop body panics and the caller recovers.
	// The scans verified next must be unaffected.
	if n > 0 && h.steps%5 == 2 {
		at := h.steps % n
		fw.Panics(func() {
			calls := 0
			t.Inorder(func(Elem) bool {
				if calls++; calls > at {
					panic("scan abandoned by its loop body")
				}
				return true
			})
		})
		fw.Panics(func() {
			calls := 0
			for range t.InorderAfter(Elem{Key: ref.es[at/2].Key, Tag: -1}) {
				if calls++; calls > at/2 {
					panic("scan abandoned by its loop body")
				}
			}
		})
		h.c.Add("abandoned_scans", 2)
	}
	// Full Inorder.
	i := 0
	bad := false
	reads := n <= 40 && h.steps%3 == 1 // read-only calls from inside the loop body
	t.Inorder(func(e Elem) bool {
		if i >= n || e != ref.es[i] {
			bad = true
			return false
		}
		if reads {
			g, ok := t.Get(Elem{Key: e.Key, Tag: -1})
			cu := t.Cursor(Elem{Key: e.Key, Tag: -1})
			if !ok || g != e || t.Len() != n || t.Min() != wmin || t.Max() != wmax || !cu.Valid() || cu.Key() != e {
				bad = true
				return false
			}
			if i == n/2 {
				m := 0
				t.Inorder(func(Elem) bool { m++; return true })
				if m != n {
					bad = true
					return false
				}
			}
		}
		i++
		return true
	})
	if bad || i != n {
		var got []Elem
		t.Inorder(func(e Elem) bool { got = append(got, e); return len(got) < n+5 })
		h.fail("tree %d: Inorder=%s want %s", ti, elemsString(got), elemsString(ref.es))
		return
	}
	// Early stop: yield returns false at call stop+1; no further call allowed.
	if n > 0 {
		stop := h.steps % n
		calls := 0
		t.Inorder(func(e Elem) bool { calls++; return calls <= stop })
		if calls != stop+1 {
			h.fail("tree %d: Inorder called yield %d times after it returned false at call %d", ti, calls, stop+1)
			return
		}
	}
	// Get.
	checkGet := func(k int) bool {
		got, ok := t.Get(Elem{Key: k, Tag: -1})
		i, present := ref.find(k)
		var want Elem
		if present {
			want = ref.es[i]
		}
		if ok != present || got != want {
			h.fail("tree %d: Get(%d)=(%v,%v) want (%v,%v)", ti, k, got, ok, want, present)
			return false
		}
		return true
	}
	lo, hi := focus-2, focus+2
	if n > 0 {
		lo, hi = ref.es[0].Key-2*h.div, ref.es[n-1].Key+2*h.div
	}
	if hi-lo <= 80 {
		for k := lo; k <= hi; k++ {
			if !checkGet(k) {
				return
			}
		}
	} else {
		for _, k := range []int{focus - 1, focus, focus + 1, lo, lo + 2*h.div, hi, hi - 2*h.div} {
			if !checkGet(k) {
				return
			}
		}
		for j := 0; j < 8; j++ {
			if !checkGet(lo + h.r.IntN(hi-lo+1)) {
				return
			}
		}
	}
	// InorderAfter.
	var useSeq iter.Seq[Elem]
	after := func(k int, limit int) bool {
		i, _ := ref.find(k)
		want := ref.es[i:]
		j := 0
		bad := false
		calls := 0
		seq, what := t.InorderAfter(Elem{Key: k, Tag: -1}), "InorderAfter"
		if useSeq != nil {
			seq, what = useSeq, "the range function returned by an earlier InorderAfter call, ranged now,"
		}
		for e := range seq {
			calls++
			if j >= len(want) || e != want[j] {
				bad = true
				break
			}
			j++
			if limit >= 0 && j > limit {
				break
			}
		}
		if bad || (limit < 0 && j != len(want)) || (limit >= 0 && j != min(limit+1, len(want))) {
			var got []Elem
			for e := range t.InorderAfter(Elem{Key: k, Tag: -1}) {
				got = append(got, e)
				if len(got) > len(want)+3 {
					break
				}
			}
			if useSeq != nil {
				got = got[:0]
				for e := range useSeq {
					got = append(got, e)
					if len(got) > len(want)+3 {
						break
					}
				}
			}
			h.fail("tree %d: %s (%d) (stop after %d) yields %s want prefix of %s", ti, what, k, limit, elemsString(got), elemsString(want))
			return false
		}
		return true
	}
	ks := []int{focus, lo, hi, lo + 2*h.div}
	if hi > lo {
		ks = append(ks, lo+h.r.IntN(hi-lo+1), lo+h.r.IntN(hi-lo+1))
	}
	for j, k := range ks {
		limit := -1
		if j%2 == 1 {
			limit = h.r.IntN(4)
		}
		if !after(k, limit) {
			return
		}
	}
	// kept range functions: one taken earlier is ranged now (twice now and
	// then), and a new one is taken and put aside
	if len(tr.kept) > 0 && h.steps%2 == 0 {
		kp := tr.kept[h.steps/2%len(tr.kept)]
		useSeq = kp.seq
		ok := after(kp.k, -1) && (h.steps%6 != 0 || after(kp.k, 2))
		useSeq = nil
		h.c.Add("kept_range_functions_ranged_later", 1)
		if !ok {
			return
		}
	}
	if h.steps%4 == 1 {
		k := ks[h.steps/4%len(ks)]
		kp := c01kept{k: k, seq: t.InorderAfter(Elem{Key: k, Tag: -1})}
		if len(tr.kept) < 5 {
			tr.kept = append(tr.kept, kp)
		} else {
			tr.kept[h.steps/4%5] = kp
		}
	}
}

func (h *c01hist) shape(ti int) ([]shapeNode, int) {
	return treeShape(h.trees[ti].t, identElem)
}

// apply performs one mutation on tree ti and checks the result.
func (h *c01hist) apply(ti int, op byte, key int) {
	if h.failed {
		return
	}
	tr := h.trees[ti]
	h.steps++
	h.h.Int(int(op))
	h.h.Int(key)
	h.h.Int(ti)
	track := len(tr.ref.es) <= 600 || h.steps%8 == 0
	var before map[int]int
	if track && (op == 'A' || op == 'P' || op == 'R') {
		nodes, _ := h.shape(ti)
		before = parentMap(nodes, tr.ref.class)
		if op == 'R' {
			if i, ok := tr.ref.find(key); ok {
				_ = i
				for _, nd := range nodes {
					if tr.ref.class(nd.E.Key) == tr.ref.class(key) && nd.Kids == 2 {
						h.c.Add("two_child_removals", 1)
						h.nontr = true
					}
				}
			}
		}
	}
	switch op {
	case 'A':
		e := Elem{Key: key, Tag: h.newTag()}
		h.log.add("t%d.Add(%v)", ti, e)
		h.c.Call("stree.Add(%v) beta=%d size=%d", e, h.beta, len(tr.ref.es))
		got := tr.t.Add(e)
		want := tr.ref.add(e)
		if got != want {
			h.fail("Add(%v)=%v want %v", e, got, want)
			return
		}
		if !want {
			h.c.Add("add_existing", 1)
		}
	case 'P':
		e := Elem{Key: key, Tag: h.newTag()}
		h.log.add("t%d.Replace(%v)", ti, e)
		h.c.Call("stree.Replace(%v) beta=%d size=%d", e, h.beta, len(tr.ref.es))
		got := tr.t.Replace(e)
		want := tr.ref.replace(e)
		if got != want {
			h.fail("Replace(%v)=%v want %v", e, got, want)
			return
		}
		if !want {
			h.c.Add("replace_existing", 1)
		}
	case 'R':
		h.log.add("t%d.Remove(%d)", ti, key)
		h.c.Call("stree.Remove(%d) beta=%d size=%d", key, h.beta, len(tr.ref.es))
		got := tr.t.Remove(Elem{Key: key, Tag: -1})
		want := tr.ref.remove(key)
		if got != want {
			h.fail("Remove(%d)=%v want %v", key, got, want)
			return
		}
		if !want {
			h.c.Add("remove_absent", 1)
		}
	case 'C':
		h.log.add("t%d.Clear()", ti)
		tr.t.Clear()
		tr.ref.es = nil
		h.c.Add("clears", 1)
	case 'K':
		h.log.add("t%d := t%d.Clone()", len(h.trees), ti)
		cl := tr.t.Clone()
		h.trees = append(h.trees, h.c01newTree(cl, tr.ref.clone()))
		h.c.Add("clones", 1)
	}
	h.c.Step()
	h.c.Add("steps", 1)
	if before != nil {
		nodes, depth := h.shape(ti)
		after := parentMap(nodes, tr.ref.class)
		ch := parentChanges(before, after)
		switch op {
		case 'A', 'P':
			if ch > 0 {
				h.c.Add("insert_rebuilds", 1)
				h.nontr = true
			}
		case 'R':
			if ch > 4 && len(nodes) > 0 && depth == floorLog2(len(nodes)) {
				h.c.Add("delete_rebuilds", 1)
				h.nontr = true
			}
		}
		h.c.Max("max:depth", int64(depth))
		h.c.Max("max:size", int64(len(nodes)))
	}
	// Check every live tree: the one operated on in full, the others too so
	// that clone independence is seen at once.
	for j := range h.trees {
		h.checkTree(j, key)
		if h.failed {
			return
		}
	}
}

func (h *c01hist) rangeOf(ti int) (lo, hi int) {
	es := h.trees[ti].ref.es
	if len(es) == 0 {
		return 0, 0
	}
	return es[0].Key, es[len(es)-1].Key
}

// c01rebuildSweep: whole-tree rebuilds at exact sizes (every size up to a few
// hundred and a window around every power of two), contents compared after
// the rebuild and after a few further edits.
func c01rebuildSweep(c *fw.Ctx, base int) {
	sizes := rebuildSizes(c.Pick(400, 2500), c.Pick(13, 16))
	for si, s := range sizes {
		if si%c.NBlocks != c.Block {
			continue
		}
		if !c.Begin(base + si) {
			continue
		}
		for _, beta := range []int{1000, 500} {
			if beta == 500 && s > 2100 {
				continue
			}
			fromLow := (s+beta)%2 == 0
			data := map[string]any{"scenario": "bulk New, drain from one end until the delete-side rebuild runs", "rebuild_at_size": s, "beta": beta, "drain_from_low_end": fromLow}
			ok, pv, stack := fw.Try(func() {
				t, remaining, prob := rebuildAtSize(s, beta, fromLow, c.Step)
				if t == nil {
					return
				}
				if prob != "" {
					c.Fail(data, "%s", prob)
					return
				}
				c.Add("rebuilds_at_exact_size", 1)
				check := func(what string) bool {
					i := 0
					bad := false
					t.Inorder(func(e Elem) bool {
						if i >= len(remaining) || e.Key != remaining[i] {
							bad = true
							return false
						}
						i++
						return true
					})
					if bad || i != len(remaining) || t.Len() != len(remaining) {
						c.Fail(data, "%s: Inorder/Len disagree with the %d keys that remain (Len=%d, first mismatch at position %d)", what, len(remaining), t.Len(), i)
						return false
					}
					if len(remaining) > 0 && (t.Min().Key != remaining[0] || t.Max().Key != remaining[len(remaining)-1]) {
						c.Fail(data, "%s: Min/Max = %v/%v", what, t.Min(), t.Max())
						return false
					}
					return true
				}
				if !check("after the rebuild") {
					return
				}
				// a few further edits: an absent key in the middle, the extremes
				if len(remaining) > 0 {
					mid := remaining[len(remaining)/2] + 1
					if !t.Add(Elem{Key: mid, Tag: -1}) {
						c.Fail(data, "Add of an absent key after the rebuild reports false")
						return
					}
					if got, ok := t.Get(Elem{Key: mid}); !ok || got.Tag != -1 {
						c.Fail(data, "Get of the key just added after the rebuild fails")
						return
					}
					if !t.Remove(Elem{Key: mid}) || !check("after Add+Remove following the rebuild") {
						return
					}
				}
			})
			if !ok {
				c.FailKind("panic", data, "panic: %v\n%s", pv, stack)
			}
		}
		c.SeenEnum(1)
	}
}

// c01sparse: a tree of at least 64 keys, then operations chosen with locality
// whose own results are the only thing observed (Get, Min, Max, Add, Replace,
// Remove, on the tree and on a Clone taken in the middle); the full comparison
// runs every 400 operations and at the end. The dense histories read the whole
// tree after every call, which would reset anything the tree remembers from
// one call to the next.
func c01sparse(c *fw.Ctx, r *rand.Rand, beta int) {
	ref := &refSet{div: 1}
	if r.IntN(3) == 0 {
		ref.wide = 2
	}
	h := &c01hist{c: c, r: r, beta: beta, div: 1, h: fw.NewH()}
	n0 := 64 + r.IntN(300)
	var keys []Elem
	for i := 0; i < n0; i++ {
		e := Elem{Key: 2 * i, Tag: h.newTag()}
		keys = append(keys, e)
		ref.es = append(ref.es, e)
	}
	r.Shuffle(len(keys), func(i, j int) { keys[i], keys[j] = keys[j], keys[i] })
	t := stree.New(beta, ref.cmp, keys...)
	h.trees = []*c01tree{h.c01newTree(t, ref)}
	h.log.add("t0 := New(beta=%d, %d keys 0,2,4,...)  (sparse observation)", beta, n0)
	last := r.IntN(2 * n0)
	nops := 800 + r.IntN(c.Pick(1500, 6000))
	for i := 0; i < nops && !h.failed; i++ {
		ti := r.IntN(len(h.trees))
		tr := h.trees[ti]
		if r.IntN(3) != 0 {
			last += r.IntN(7) - 3
		} else {
			last = r.IntN(2*n0 + 20)
		}
		k := last
		h.steps++
		c.Step()
		c.Add("steps", 1)
		switch op := r.IntN(14); {
		case op < 4:
			got, ok := tr.t.Get(Elem{Key: k, Tag: -1})
			h.log.add("t%d.Get(%d)", ti, k)
			j, present := tr.ref.find(k)
			var want Elem
			if present {
				want = tr.ref.es[j]
			}
			if ok != present || got != want {
				h.fail("Get(%d)=(%v,%v) want (%v,%v)", k, got, ok, want, present)
			}
		case op < 6:
			e := Elem{Key: k, Tag: h.newTag()}
			h.log.add("t%d.Add(%v)", ti, e)
			if got, want := tr.t.Add(e), tr.ref.add(e); got != want {
				h.fail("Add(%v)=%v want %v", e, got, want)
			}
		case op < 8:
			e := Elem{Key: k, Tag: h.newTag()}
			h.log.add("t%d.Replace(%v)", ti, e)
			if got, want := tr.t.Replace(e), tr.ref.replace(e); got != want {
				h.fail("Replace(%v)=%v want %v", e, got, want)
			}
		case op < 11:
			h.log.add("t%d.Remove(%d)", ti, k)
			if got, want := tr.t.Remove(Elem{Key: k}), tr.ref.remove(k); got != want {
				h.fail("Remove(%d)=%v want %v", k, got, want)
			}
		case op < 12:
			h.log.add("t%d.Min()/Max()", ti)
			var wmin, wmax Elem
			if n := len(tr.ref.es); n > 0 {
				wmin, wmax = tr.ref.es[0], tr.ref.es[n-1]
			}
			if gmin, gmax := tr.t.Min(), tr.t.Max(); gmin != wmin || gmax != wmax {
				h.fail("Min/Max = %v/%v want %v/%v", gmin, gmax, wmin, wmax)
			}
			// the extremes are the next targets (in-place Replace of an extreme key after Min/Max)
			if r.IntN(2) == 0 && len(tr.ref.es) > 0 {
				last = wmin.Key
			} else if len(tr.ref.es) > 0 {
				last = wmax.Key
			}
		case op < 13:
			if len(h.trees) < 3 {
				h.log.add("t%d := t%d.Clone()", len(h.trees), ti)
				h.trees = append(h.trees, h.c01newTree(tr.t.Clone(), tr.ref.clone()))
				c.Add("clones", 1)
			}
		default:
			h.log.add("t%d.Len()", ti)
			if tr.t.Len() != len(tr.ref.es) {
				h.fail("Len=%d want %d", tr.t.Len(), len(tr.ref.es))
			}
		}
		if i%400 == 399 && !h.failed {
			for j := range h.trees {
				h.checkTree(j, k)
			}
		}
	}
	for j := range h.trees {
		if !h.failed {
			h.checkTree(j, last)
		}
	}
	c.Add("sparse_observation_histories", 1)
}

// c01nested: scans started while another scan is in progress, on the same tree
// and on a clone (nested range loops and iter.Pull iterators stepped alternately).
func c01nested(c *fw.Ctx, r *rand.Rand, beta int) {
	n := 8 + r.IntN(60)
	var keys []Elem
	for i := 0; i < n; i++ {
		keys = append(keys, Elem{Key: 3 * i, Tag: i + 1})
	}
	t := stree.New(beta, cmpElem, keys...)
	dup := t.Clone()
	data := map[string]any{"scenario": "nested and interleaved scans", "beta": beta, "keys": fmt.Sprintf("0,3,...,%d", 3*(n-1))}
	after := func(tr *stree.Tree[Elem], k int) []int {
		var out []int
		for e := range tr.InorderAfter(Elem{Key: k}) {
			out = append(out, e.Key)
		}
		return out
	}
	want := func(k int) []int {
		var out []int
		for _, e := range keys {
			if e.Key >= k {
				out = append(out, e.Key)
			}
		}
		return out
	}
	for trial := 0; trial < 6; trial++ {
		k1, k2 := r.IntN(3*n), r.IntN(3*n)
		var outer []int
		for e := range t.InorderAfter(Elem{Key: k1}) {
			outer = append(outer, e.Key)
			// an inner scan on the same tree, and one on the clone, in the middle of the outer one
			if len(outer)%3 == 1 {
				if in := after(t, k2); !equalInts(in, want(k2)) {
					c.Fail(data, "InorderAfter(%d) started inside a running InorderAfter(%d) loop yields %v", k2, k1, in)
					return
				}
				if in := after(dup, k2+1); !equalInts(in, want(k2+1)) {
					c.Fail(data, "clone.InorderAfter(%d) started inside a running scan of the original yields %v", k2+1, in)
					return
				}
				n2 := 0
				t.Inorder(func(Elem) bool { n2++; return n2 < 4 })
			}
		}
		if !equalInts(outer, want(k1)) {
			c.Fail(data, "InorderAfter(%d) with other scans started inside its loop body yields %v, want %v", k1, outer, want(k1))
			return
		}
		// one sequence value ranged from inside its own loop body (pairs a <= b
		// enumerated with a single sequence), completely and with an early stop,
		// and two pull iterators over that same value stepped alternately
		seq := t.InorderAfter(Elem{Key: k1})
		var self, inner []int
		for e := range seq {
			self = append(self, e.Key)
			if len(self)%4 == 2 {
				inner = inner[:0]
				for e2 := range seq {
					inner = append(inner, e2.Key)
					if len(self)%8 == 6 && len(inner) == 2 {
						break
					}
				}
				w := want(k1)
				if len(self)%8 == 6 && len(w) > 2 {
					w = w[:2]
				}
				if !equalInts(inner, w) {
					c.Fail(data, "seq := InorderAfter(%d): ranging seq inside a running range over the same seq yields %v, want %v", k1, inner, w)
					return
				}
			}
		}
		if !equalInts(self, want(k1)) {
			c.Fail(data, "seq := InorderAfter(%d): a range over seq whose loop body ranges over seq too yields %v, want %v", k1, self, want(k1))
			return
		}
		{
			p1, s1 := iter.Pull(seq)
			p2, s2 := iter.Pull(seq)
			var a, b []int
			for {
				e1, ok1 := p1()
				if ok1 {
					a = append(a, e1.Key)
				}
				var ok2 bool
				if len(a)%2 == 0 || !ok1 {
					var e2 Elem
					if e2, ok2 = p2(); ok2 {
						b = append(b, e2.Key)
					}
				}
				if !ok1 && !ok2 {
					break
				}
			}
			s1()
			s2()
			if !equalInts(a, want(k1)) || !equalInts(b, want(k1)) {
				c.Fail(data, "two pull iterators over one InorderAfter(%d) sequence value stepped alternately yield %v and %v", k1, a, b)
				return
			}
		}
		c.Add("sequence_values_ranged_inside_their_own_loop", 1)
		// two pull iterators stepped alternately
		nx1, st1 := iter.Pull(t.InorderAfter(Elem{Key: k1}))
		nx2, st2 := iter.Pull(dup.InorderAfter(Elem{Key: k2}))
		var a, b []int
		for {
			e1, ok1 := nx1()
			e2, ok2 := nx2()
			if ok1 {
				a = append(a, e1.Key)
			}
			if ok2 {
				b = append(b, e2.Key)
			}
			if !ok1 && !ok2 {
				break
			}
		}
		st1()
		st2()
		if !equalInts(a, want(k1)) || !equalInts(b, want(k2)) {
			c.Fail(data, "two InorderAfter iterators (tree from %d, clone from %d) stepped alternately yield %v and %v", k1, k2, a, b)
			return
		}
		c.Step()
	}
	c.Add("nested_scan_cases", 1)
}

func runC01(c *fw.Ctx) {
	// trees cloned from one prototype, each used by its own goroutine only
	for k := 0; k < c.Pick(2, 12); k++ {
		if !c.Begin(1<<22 + k) {
			continue
		}
		r := c.Rng()
		beta := []int{0, 100, 250, 500, 900}[r.IntN(5)]
		if msg := cloneWorkers(beta, r.Uint64(), []int{0, 0, 5, 40}[r.IntN(4)], false, c.Step); msg != "" {
			c.Fail(map[string]any{"phase": "8 goroutines, each working on its own Clone of one prototype tree", "beta": beta}, "%s", msg)
		}
		c.Add("clone_worker_rounds", 1)
	}
	// one shared tree, no writer, eight goroutines that only read it
	for k := 0; k < c.Pick(3, 20); k++ {
		if !c.Begin(1<<22 + 100 + k) {
			continue
		}
		r := c.Rng()
		beta := []int{0, 100, 250, 500, 900, 1000}[r.IntN(6)]
		if msg := sharedTreeReaders(beta, r.Uint64(), []int{5, 60, 400, 3000}[r.IntN(4)], c.Step); msg != "" {
			c.Fail(map[string]any{"phase": "one shared tree, no writer, 8 goroutines that only read it", "beta": beta}, "%s", msg)
		}
		c.Add("shared_reader_rounds", 1)
	}
	if c.Flavour == "race" {
		return
	}
	{
		betas := []int{600, 650, 700, 729, 750, 800, 825, 850, 871, 900, 950, 990, 500, 250}
		sizes := []int{130, 200, 386, 512, 1000, 2000}
		for k := 0; k < len(betas)*len(sizes); k++ {
			if k%c.NBlocks != c.Block || !c.Begin(1<<22+1000+k) {
				continue
			}
			b, n := betas[k%len(betas)], sizes[k/len(betas)]
			ok, pv, stack := fw.Try(func() { c01deepThenShrink(c, b, n, k%5 != 4) })
			if !ok {
				c.FailKind("panic", map[string]any{"phase": "deep one-sided tree, then shrunk", "beta": b, "keys_inserted": n}, "panic: %v\n%s", pv, stack)
			}
		}
	}
	if c.Block < 6 && c.Begin(1<<22+2000+c.Block) {
		// bulk New of 2^17-1 .. 300 000 keys with duplicates, under a comparator
		// that keeps working storage of its own: a correct total order as long as
		// it is called by one goroutine at a time (nothing says otherwise for a
		// Tree, which is not safe for concurrent use itself)
		n := []int{131071, 131072, 131073, 200000, 300000, 65537}[c.Block]
		var sa, sb [4]int
		entered, overlapped := false, false
		cmpScratch := func(a, b Elem) int {
			if entered {
				overlapped = true
			}
			entered = true
			sa[0], sa[1] = a.Key, a.Key>>3
			for i := 0; i < 40; i++ {
				sa[2] += i
			}
			sb[0], sb[1] = b.Key, b.Key>>3
			r := 0
			switch {
			case sa[0] < sb[0]:
				r = -1
			case sa[0] > sb[0]:
				r = 1
			}
			entered = false
			return r
		}
		r := c.Rng()
		keys := make([]Elem, 0, n+n/8)
		for _, p := range r.Perm(n) {
			keys = append(keys, Elem{Key: p * 2, Tag: p + 1})
			if p%8 == 0 {
				keys = append(keys, Elem{Key: p * 2, Tag: -p - 1})
			}
		}
		ok, pv, stack := fw.Try(func() {
			t := stree.New(250, cmpScratch, keys...)
			data := map[string]any{"keys_given": len(keys), "distinct": n, "comparator": "natural order computed in working storage owned by the comparator (not re-entrant)"}
			if t.Len() != n {
				c.Fail(data, "New: Len=%d want %d (comparator entered while already running: %v)", t.Len(), n, overlapped)
				return
			}
			i := 0
			good := true
			t.Inorder(func(e Elem) bool {
				if e.Key != 2*i || (e.Tag != i+1 && e.Tag != -i-1) {
					good = false
					return false
				}
				i++
				return true
			})
			if !good || i != n {
				c.Fail(data, "New: Inorder wrong at position %d of %d (comparator entered while already running: %v)", i, n, overlapped)
				return
			}
			for probe := 0; probe < 2000; probe++ {
				k := r.IntN(n) * 2
				if _, ok := t.Get(Elem{Key: k}); !ok {
					c.Fail(data, "New: Get(%d) misses a key that was given (comparator entered while already running: %v)", k, overlapped)
					return
				}
			}
		})
		if !ok {
			c.FailKind("panic", map[string]any{"phase": "bulk New with a non-re-entrant comparator", "keys": n}, "panic: %v\n%s", pv, stack)
		}
		c.Add("bulk_new_with_stateful_comparator", 1)
	}
	c01rebuildSweep(c, 1<<20)
	for k := 0; k < c.Pick(6, 60); k++ {
		if !c.Begin(1<<21 + k) {
			continue
		}
		r := c.Rng()
		beta := []int{0, 100, 250, 500, 1000}[r.IntN(5)]
		ok, pv, stack := fw.Try(func() {
			c01sparse(c, r, beta)
			c01nested(c, r, beta)
		})
		if !ok {
			c.FailKind("panic", map[string]any{"phase": "sparse-observation / nested-scan case", "beta": beta}, "panic: %v\n%s", pv, stack)
		}
	}
	betas := []int{0, 1, 2, 50, 100, 250, 500, 750, 999, 1000}
	ncases := c.Pick(110, 900)
	for i := 0; i < ncases; i++ {
		if !c.Begin(i) {
			continue
		}
		r := c.Rng()
		beta := betas[(i+c.Block)%len(betas)]
		if c.Thorough() && i >= len(betas)*4 {
			// sweep every beta: blocks x cases cover 0..1000 several times
			beta = (c.Block*ncases + i) % 1001
		}
		div := 1
		if r.IntN(4) == 0 {
			div = 2
		}
		h := &c01hist{c: c, r: r, beta: beta, div: div, h: fw.NewH()}
		h.h.Int(beta)
		h.h.Int(div)
		ok, pv, stack := fw.Try(func() { c01history(h, i) })
		if !ok {
			c.FailKind("panic", map[string]any{"beta": beta, "div": div, "ops": h.log.list()}, "panic: %v\n%s", pv, stack)
		}
		if h.nontr {
			c.Seen(h.h.Sum())
		}
		if c.WantSample() && h.nontr && len(h.log.ops) < 120 {
			c.Sample(map[string]any{"beta": beta, "div": div, "ops": h.log.list()})
		}
	}
}

func c01history(h *c01hist, caseIdx int) {
	r := h.r
	ref := &refSet{div: h.div}
	if r.IntN(3) == 0 {
		ref.wide = 1 + r.IntN(3) // a comparator that returns differences, not just -1/0/+1
		h.c.Add("histories_with_wide_comparator", 1)
	}
	cmp := ref.cmp
	// Bulk construction with unsorted, duplicated keys (or empty).
	var keys []Elem
	nk := 0
	switch r.IntN(4) {
	case 0:
		nk = 0
	case 1:
		nk = 1 + r.IntN(8)
	default:
		nk = r.IntN(300)
	}
	span := max(1, nk*(1+r.IntN(3))/2)
	allowed := map[int]map[Elem]bool{}
	dups := false
	for j := 0; j < nk; j++ {
		e := Elem{Key: r.IntN(span) * h.div, Tag: h.newTag()}
		if h.div > 1 {
			e.Key += r.IntN(h.div)
		}
		cl := ref.class(e.Key)
		if allowed[cl] == nil {
			allowed[cl] = map[Elem]bool{}
		} else {
			dups = true
		}
		allowed[cl][e] = true
		keys = append(keys, e)
	}
	h.log.add("t0 := New(beta=%d, cmp Key/%d, %s)", h.beta, h.div, elemsString(keys))
	h.h.Int(nk)
	for _, e := range keys {
		h.h.Int(e.Key)
	}
	t := stree.New(h.beta, cmp, keys...)
	// The tree may hold any one of the equivalent keys given to New.
	var got []Elem
	t.Inorder(func(e Elem) bool { got = append(got, e); return len(got) <= nk+2 })
	if len(got) != len(allowed) {
		h.trees = []*c01tree{h.c01newTree(t, ref)}
		h.fail("New with %d keys in %d classes holds %d keys: %s", nk, len(allowed), len(got), elemsString(got))
		return
	}
	for j, e := range got {
		if !allowed[ref.class(e.Key)][e] {
			h.trees = []*c01tree{h.c01newTree(t, ref)}
			h.fail("New holds %v which is not one of the keys given for its class", e)
			return
		}
		if j > 0 && ref.cmp(got[j-1], e) >= 0 {
			h.trees = []*c01tree{h.c01newTree(t, ref)}
			h.fail("New: Inorder not strictly ascending at %v, %v", got[j-1], e)
			return
		}
	}
	ref.es = got
	h.trees = []*c01tree{h.c01newTree(t, ref)}
	if dups {
		h.c.Add("new_with_duplicates", 1)
	}
	if nk > 0 {
		_, depth := h.shape(0)
		if depth != floorLog2(len(got)) {
			h.c.Add("new_not_minimum_height", 1) // reported by C02, counted here
		}
	}
	h.checkTree(0, 0)
	if h.failed {
		return
	}

	budget := 150 + r.IntN(h.c.Pick(700, 2200))
	if caseIdx%9 == 0 {
		budget = 40 + r.IntN(80) // some short histories for readable samples
	}
	for h.steps < budget && !h.failed {
		ti := r.IntN(len(h.trees))
		lo, hi := h.rangeOf(ti)
		n := len(h.trees[ti].ref.es)
		run := 5 + r.IntN(60)
		switch ph := r.IntN(14); ph {
		case 0: // ascending inserts beyond the maximum
			for j := 0; j < run && !h.failed; j++ {
				hi += 1 + r.IntN(2)*h.div
				h.apply(ti, 'A', hi)
			}
		case 1: // descending inserts below the minimum
			for j := 0; j < run && !h.failed; j++ {
				lo -= 1 + r.IntN(2)*h.div
				h.apply(ti, 'A', lo)
			}
		case 2: // zig-zag: alternately below min and above max, or inward
			a, b := lo-1, hi+1
			for j := 0; j < run && !h.failed; j++ {
				if j%2 == 0 {
					h.apply(ti, 'A', a)
					a -= h.div
				} else {
					h.apply(ti, 'A', b)
					b += h.div
				}
			}
		case 3: // inward zig-zag into a fresh gap above the maximum
			base := hi + 10
			a, b := base, base+2*run*h.div
			for j := 0; j < run && !h.failed; j++ {
				if j%2 == 0 {
					h.apply(ti, 'A', a)
					a += h.div
				} else {
					h.apply(ti, 'A', b)
					b -= h.div
				}
			}
		case 4, 5: // random inserts / replaces in and around the range
			for j := 0; j < run && !h.failed; j++ {
				k := lo - 3 + r.IntN(hi-lo+7+run)
				op := byte('A')
				if r.IntN(3) == 0 {
					op = 'P'
				}
				h.apply(ti, op, k)
			}
		case 6, 7: // mixed, sometimes the same call twice in a row
			for j := 0; j < run && !h.failed; j++ {
				k := lo - 2 + r.IntN(hi-lo+5)
				op := "APRR"[r.IntN(4)]
				h.apply(ti, op, k)
				if r.IntN(4) == 0 {
					h.apply(ti, op, k)
				}
			}
		case 8, 9: // drain
			target := 0
			switch r.IntN(4) {
			case 0:
				target = 0
			case 1:
				target = n / 8
			case 2:
				target = n / 2
			case 3:
				target = max(0, n-run)
			}
			order := r.IntN(3)
			for len(h.trees[ti].ref.es) > target && !h.failed && h.steps < budget+400 {
				es := h.trees[ti].ref.es
				var k int
				switch order {
				case 0:
					k = es[0].Key
				case 1:
					k = es[len(es)-1].Key
				default:
					k = es[r.IntN(len(es))].Key
				}
				h.apply(ti, 'R', k)
			}
			if target == 0 {
				h.c.Add("drained_to_empty", 1)
			}
		case 10: // forced two-child removals, then Get of the promoted successor (done by checkTree's focus keys)
			for j := 0; j < min(run, 12) && !h.failed; j++ {
				nodes, _ := h.shape(ti)
				var cands []int
				for _, nd := range nodes {
					if nd.Kids == 2 {
						cands = append(cands, nd.E.Key)
					}
				}
				if len(cands) == 0 {
					break
				}
				k := cands[r.IntN(len(cands))]
				// successor key for the focus of the follow-up Get
				h.apply(ti, 'R', k)
				if i, _ := h.trees[ti].ref.find(k); i < len(h.trees[ti].ref.es) && !h.failed {
					h.checkTree(ti, h.trees[ti].ref.es[i].Key)
				}
			}
		case 11: // Replace existing keys (stored representative must change)
			for j := 0; j < min(run, 15) && n > 0 && !h.failed; j++ {
				es := h.trees[ti].ref.es
				k := es[r.IntN(len(es))].Key
				if h.div > 1 {
					k = ref.class(k)*h.div + r.IntN(h.div)
				}
				h.apply(ti, "PA"[r.IntN(2)], k)
			}
		case 12:
			if r.IntN(5) == 0 {
				h.apply(ti, 'C', 0)
			}
		case 13:
			if len(h.trees) < 3 {
				h.apply(ti, 'K', 0)
			} else if r.IntN(3) == 0 {
				// drop a clone; keep exercising the others
				j := 1 + r.IntN(len(h.trees)-1)
				h.log.add("drop t%d", j)
				h.trees = append(h.trees[:j], h.trees[j+1:]...)
			}
		}
	}
}

// c01deepThenShrink: keys inserted in descending (or ascending) order at a
// loose balance factor give a one-sided path much deeper than a tree of the
// final size would have; then the keys at the far end are removed one by one,
// so that Len shrinks while the deep path stays. After every removal
// InorderAfter from below the minimum, from the minimum, from the middle and
// from the maximum, Inorder, Min, Max and Get are compared with the key set.
func c01deepThenShrink(c *fw.Ctx, beta, n int, descending bool) {
	t := stree.New(beta, cmpElem)
	keys := make([]int, n)
	for i := range keys {
		keys[i] = (i + 1) * 2
	}
	if descending {
		for i := n - 1; i >= 0; i-- {
			t.Add(Elem{Key: keys[i], Tag: i + 1})
		}
	} else {
		for i := 0; i < n; i++ {
			t.Add(Elem{Key: keys[i], Tag: i + 1})
		}
	}
	data := map[string]any{"beta": beta, "keys_inserted": n, "order": map[bool]string{true: "descending", false: "ascending"}[descending]}
	lo, hi := 0, n // live keys are keys[lo:hi]
	after := func(from int) bool {
		want := lo
		for want < hi && keys[want] < from {
			want++
		}
		j := want
		for e := range t.InorderAfter(Elem{Key: from}) {
			if j >= hi || e.Key != keys[j] || e.Tag != j+1 {
				c.Fail(data, "with %d keys left: InorderAfter(%d) yields %v at position %d, want key %d", hi-lo, from, e, j-want, keys[min(j, n-1)])
				return false
			}
			j++
		}
		if j != hi {
			c.Fail(data, "with %d keys left: InorderAfter(%d) stops after %d of %d keys", hi-lo, from, j-want, hi-want)
			return false
		}
		return true
	}
	for hi-lo > 2 {
		// remove at the end away from the deep path
		if descending {
			hi--
			t.Remove(Elem{Key: keys[hi]})
		} else {
			t.Remove(Elem{Key: keys[lo]})
			lo++
		}
		if t.Len() != hi-lo || t.Min().Key != keys[lo] || t.Max().Key != keys[hi-1] {
			c.Fail(data, "with %d keys left: Len=%d Min=%v Max=%v", hi-lo, t.Len(), t.Min(), t.Max())
			return
		}
		if !after(keys[lo]-1) || !after(keys[lo]) || !after(keys[(lo+hi)/2]+1) || !after(keys[hi-1]) || !after(keys[hi-1]+1) {
			return
		}
		if (hi-lo)%16 == 0 {
			j := lo
			t.Inorder(func(e Elem) bool {
				if j < hi && e.Key == keys[j] {
					j++
					return true
				}
				j = -1
				return false
			})
			if j != hi {
				c.Fail(data, "with %d keys left: Inorder differs from the key set", hi-lo)
				return
			}
			c.Step()
		}
	}
	c.Add("deep_then_shrink_cases", 1)
}
