//go:build pC04 || pall

package props

import (
	"cmp"
	"fmt"
	"math"
	"math/rand/v2"
	"sort"
	"strconv"
	"strings"

	"github.com/creachadair/mds/omap"
	"verif/harness/fw"
)

// C04 — omap.Map is an ordered map. Reference: a slice of (key, value) pairs
// kept sorted under the same comparator. After every mutation: Len, Get/GetOK,
// Keys, String, and iterator sweeps from First, Last and Seek(k) in both
// directions, re-Seek of live iterators, and the documented
// delete-while-iterating idiom.

func init() {
	fw.Register(&fw.Property{
		ID: "C04",
		Meta: func(tier string) fw.Meta {
			return fw.Meta{
				Flavours: []string{"plain", "cover", "386"},
				Blocks:   32,
				Procs:    16,
				Rule: "case = (key type and comparator: int natural, int reversed via NewFunc, string natural, string case-folding via NewFunc; universe size; history of Set/Delete/Clear through the map and through a copy of it). " +
					"After EVERY mutation: Len, Get/GetOK (all keys of small universes, sampled otherwise), Keys, String (exact comparators), First->Next sweep to the end, Last->Prev sweep to the start, Seek(k) for every k in [min-2,max+2] (sampled for large universes) followed by Next-steps and Prev-steps, re-Seek of an already positioned iterator to each kind of target, re-Seek of iterators that ran off either end by Next/Prev or were sought past the end, Key/Value of invalid iterators; periodically the delete-while-iterating idiom with re-Seek after each Delete; histories drain below 1/8 of their peak to reach the delete-side rebuild. Sparse-observation histories: maps of 100..1000 keys, operations chosen with locality (neighbouring keys), only the results of Set/Delete/GetOK themselves checked and nothing read in between (state carried from call to call is not disturbed by the monitor), full comparison every 400 operations. Very large maps: 262 145..400 000 keys (3.6 M thorough, where a one-sided path at the fixed balance factor passes 32 levels) inserted in descending, ascending and shuffled order, read back completely, half deleted, read again. One shared map with no writer read by 8 goroutines at once (GetOK, Len, Seek with Next/Prev steps, First, Last). Zero Map: every documented read-only method. String-valued maps whose keys and values are awkward strings (blanks at either end, the separators String writes, format verbs, empty), String/Keys/iterators/GetOK compared after every operation. " +
					"distinct = hash(comparator, universe, ops); non-trivial = the history performed seeks to all four target kinds (present, absent inside, below minimum, above maximum) and at least one Delete of a present key",
				Required:     []string{"steps", "seek_present", "seek_absent_inside", "seek_below_min", "seek_above_max", "reseek_past_end", "iter_edit_idiom_runs", "deep_drains", "zero_map_checks", "copy_shares_checks", "prev_from_seek", "kept_iterator_reseeks", "reseeks_of_exhausted_iterators", "float_key_maps", "sparse_observation_histories", "string_value_steps", "very_large_maps", "shared_reader_rounds"},
				Assumptions:  []string{"reference model: sorted slice of pairs; keys are compared with the map's own comparator (stored key spelling under a case-folding comparator is not constrained)"},
				CoverPkgs:    []string{"github.com/creachadair/mds/omap", "github.com/creachadair/mds/stree"},
				CoverAnchors: []string{"omap/omap.go", "stree/stree.go:InorderAfter", "stree/node.go:inorderAfter", "stree/stree.go:Cursor", "stree/stree.go:Replace", "stree/stree.go:Remove", "stree/cursor.go:Next", "stree/cursor.go:Prev", "stree/cursor.go:findNext", "stree/cursor.go:findPrev"},
			}
		},
		Run: runC04,
	})
}

type c04kv[K any] struct {
	k K
	v int
}

type c04run[K any] struct {
	c      *fw.Ctx
	r      *rand.Rand
	m      omap.Map[K, int]
	m2     omap.Map[K, int] // a copy of m: must share contents
	cmp    func(a, b K) int
	exact  bool          // comparator distinguishes all spellings (String/Keys comparable literally)
	gen    func(i int) K // key number i of the universe, in comparator order for int-like universes
	uni    int
	ref    []c04kv[K]
	log    opLog
	h      *fw.H
	failed bool
	steps  int
	kinds  [4]bool
	didDel bool
	name   string
	sparse bool // sparse-observation history: only the results of the operations themselves are checked, nothing is read in between
}

func (x *c04run[K]) fail(format string, args ...any) {
	if x.failed {
		return
	}
	x.failed = true
	x.c.Fail(map[string]any{"map": x.name, "universe": x.uni, "ops": x.log.list()}, "after %d ops: %s", len(x.log.ops), fmt.Sprintf(format, args...))
}

func (x *c04run[K]) find(k K) (int, bool) {
	i := sort.Search(len(x.ref), func(i int) bool { return x.cmp(x.ref[i].k, k) >= 0 })
	return i, i < len(x.ref) && x.cmp(x.ref[i].k, k) == 0
}

func (x *c04run[K]) sameKey(a, b K) bool { return x.cmp(a, b) == 0 }

// iterAt checks that it is positioned at reference index i (or invalid if i is out of range).
func (x *c04run[K]) iterAt(it *omap.Iter[K, int], i int, what string) bool {
	if i < 0 || i >= len(x.ref) {
		if it.IsValid() {
			x.fail("%s: iterator valid at %v, want invalid", what, it.Key())
			return false
		}
		var zk K
		if !x.sameKey(it.Key(), zk) && x.exact || it.Value() != 0 {
			x.fail("%s: invalid iterator has Key=%v Value=%v, want zero values", what, it.Key(), it.Value())
			return false
		}
		return true
	}
	if !it.IsValid() {
		x.fail("%s: iterator invalid, want at %v", what, x.ref[i].k)
		return false
	}
	if !x.sameKey(it.Key(), x.ref[i].k) || it.Value() != x.ref[i].v {
		x.fail("%s: iterator at %v:%v, want %v:%v", what, it.Key(), it.Value(), x.ref[i].k, x.ref[i].v)
		return false
	}
	return true
}

func (x *c04run[K]) seekKind(i int, present bool) int {
	switch {
	case present:
		return 0
	case i == 0:
		return 2
	case i == len(x.ref):
		return 3
	}
	return 1
}

var c04kindNames = [4]string{"seek_present", "seek_absent_inside", "seek_below_min", "seek_above_max"}

func (x *c04run[K]) checkSeek(m omap.Map[K, int], k K) bool {
	i, present := x.find(k)
	if len(x.ref) > 0 {
		kd := x.seekKind(i, present)
		x.kinds[kd] = true
		x.c.Add(c04kindNames[kd], 1)
	}
	it := m.Seek(k)
	if !x.iterAt(it, i, fmt.Sprintf("Seek(%v)", k)) {
		return false
	}
	// forward a few steps (all of them for small maps)
	lim := 6
	if len(x.ref) <= 24 {
		lim = len(x.ref) + 2
	}
	j := i
	for s := 0; s < lim && j < len(x.ref); s++ {
		j++
		if got := it.Next(); got != it {
			x.fail("Next did not return its receiver")
			return false
		}
		if !x.iterAt(it, j, fmt.Sprintf("Seek(%v) then %d x Next", k, s+1)) {
			return false
		}
	}
	if j >= len(x.ref) {
		it.Next() // stays invalid
		if !x.iterAt(it, len(x.ref), fmt.Sprintf("Seek(%v) then Next beyond the end", k)) {
			return false
		}
	}
	// backward from the seek position
	it = m.Seek(k)
	if i < len(x.ref) {
		x.c.Add("prev_from_seek", 1)
		j = i
		for s := 0; s < lim && j >= 0; s++ {
			j--
			it.Prev()
			if !x.iterAt(it, j, fmt.Sprintf("Seek(%v) then %d x Prev", k, s+1)) {
				return false
			}
		}
	}
	return true
}

func (x *c04run[K]) checkAll(focus K) {
	for mi, m := range []omap.Map[K, int]{x.m, x.m2} {
		who := "map"
		if mi == 1 {
			who = "copy of the map"
			x.c.Add("copy_shares_checks", 1)
		}
		n := len(x.ref)
		if got := m.Len(); got != n {
			x.fail("%s: Len=%d want %d", who, got, n)
			return
		}
		keys := m.Keys()
		if len(keys) != n {
			x.fail("%s: Keys has %d entries want %d: %v", who, len(keys), n, keys)
			return
		}
		if n == 0 && keys != nil && false {
			// Keys of an empty map may be nil or empty; not constrained.
		}
		for i := range keys {
			if !x.sameKey(keys[i], x.ref[i].k) {
				x.fail("%s: Keys[%d]=%v want %v (Keys=%v)", who, i, keys[i], x.ref[i].k, keys)
				return
			}
		}
		// the caller owns what Keys returned: scribbling over it must not reach the map
		if len(keys) > 1 {
			keys[0], keys[len(keys)-1] = keys[len(keys)-1], keys[0]
			var zero K
			keys = append(keys[:1], zero)
			_ = keys
		}
		if x.exact {
			var sb strings.Builder
			sb.WriteString("omap[")
			for i, e := range x.ref {
				if i > 0 {
					sb.WriteByte(' ')
				}
				fmt.Fprintf(&sb, "%v:%v", e.k, e.v)
			}
			sb.WriteString("]")
			if got := m.String(); got != sb.String() {
				x.fail("%s: String=%q want %q", who, got, sb.String())
				return
			}
		}
		// Get / GetOK
		getCheck := func(k K) bool {
			i, present := x.find(k)
			want := 0
			if present {
				want = x.ref[i].v
			}
			v, ok := m.GetOK(k)
			if ok != present || v != want || m.Get(k) != want {
				x.fail("%s: GetOK(%v)=(%v,%v) Get=%v want (%v,%v)", who, k, v, ok, m.Get(k), want, present)
				return false
			}
			return true
		}
		if x.uni <= 48 {
			for u := -2; u < x.uni+2; u++ {
				if !getCheck(x.gen(u)) {
					return
				}
			}
		} else {
			if !getCheck(focus) {
				return
			}
			for s := 0; s < 6; s++ {
				if !getCheck(x.gen(x.r.IntN(x.uni+4) - 2)) {
					return
				}
			}
		}
		// First -> end, Last -> start
		it := m.First()
		for i := 0; i <= n; i++ {
			if !x.iterAt(it, i, fmt.Sprintf("%s: First then %d x Next", who, i)) {
				return
			}
			it.Next()
		}
		it = m.Last()
		for i := n - 1; i >= -1; i-- {
			if !x.iterAt(it, i, fmt.Sprintf("%s: Last then %d x Prev", who, n-1-i)) {
				return
			}
			it.Prev()
		}
		// Seek
		if x.uni <= 48 {
			for u := -2; u < x.uni+2; u++ {
				if !x.checkSeek(m, x.gen(u)) {
					return
				}
			}
		} else {
			ks := []K{focus, x.gen(-1), x.gen(x.uni + 1)}
			if n > 0 {
				ks = append(ks, x.ref[0].k, x.ref[n-1].k)
			}
			for s := 0; s < 5; s++ {
				ks = append(ks, x.gen(x.r.IntN(x.uni+4)-2))
			}
			for _, k := range ks {
				if !x.checkSeek(m, k) {
					return
				}
			}
		}
		// Re-Seek of a live iterator to every kind of target.
		if n > 0 {
			targets := []K{x.ref[x.r.IntN(n)].k, x.gen(-2), x.gen(x.uni + 2), x.gen(x.r.IntN(x.uni))}
			for _, k := range targets {
				it := m.Seek(x.ref[x.r.IntN(n)].k) // positioned and valid
				if got := it.Seek(k); got != it {
					x.fail("Iter.Seek did not return its receiver")
					return
				}
				i, _ := x.find(k)
				if i >= n {
					x.c.Add("reseek_past_end", 1)
				}
				if !x.iterAt(it, i, fmt.Sprintf("%s: re-Seek(%v) of a positioned iterator", who, k)) {
					return
				}
			}
			// Re-Seek of iterators that have run off either end (or were sought past
			// the end): Seek is the documented way to use them again.
			for wi, k := range targets {
				var it *omap.Iter[K, int]
				var how string
				mode := (wi + x.steps) % 4
				if pi, _ := x.find(x.gen(x.uni + 2)); mode == 2 && pi < n {
					mode = 0 // the generator's largest key is in the map (or not the largest in this key order)
				}
				switch mode {
				case 0:
					it, how = m.Last(), "Last().Next()"
					it.Next()
				case 1:
					it, how = m.First(), "First().Prev()"
					it.Prev()
				case 2:
					it, how = m.Seek(x.gen(x.uni+2)), "Seek(past the largest key)"
				default:
					it, how = m.Seek(x.ref[n-1].k), "Seek(largest key).Next().Next()"
					it.Next()
					it.Next()
				}
				if it.IsValid() {
					x.fail("%s: %s is valid at %v", who, how, it.Key())
					return
				}
				it.Seek(k)
				i, _ := x.find(k)
				x.c.Add("reseeks_of_exhausted_iterators", 1)
				if !x.iterAt(it, i, fmt.Sprintf("%s: %s, then Seek(%v) on the same iterator", who, how, k)) {
					return
				}
				if i < n && i+1 < n {
					it.Next()
					if !x.iterAt(it, i+1, fmt.Sprintf("%s: %s, then Seek(%v).Next() on the same iterator", who, how, k)) {
						return
					}
				}
			}
		}
	}
}

func (x *c04run[K]) set(k K, v int, viaCopy bool) {
	if x.failed {
		return
	}
	x.steps++
	m := x.m
	if viaCopy {
		m = x.m2
	}
	x.log.add("Set(%v,%d)%s", k, v, map[bool]string{true: " via copy"}[viaCopy])
	i, present := x.find(k)
	x.c.Call("omap.Set(%v) len=%d", k, len(x.ref))
	got := m.Set(k, v)
	if got == present {
		x.fail("Set(%v)=%v but key present=%v", k, got, present)
		return
	}
	if present {
		x.ref[i] = c04kv[K]{k, v}
	} else {
		x.ref = append(x.ref, c04kv[K]{})
		copy(x.ref[i+1:], x.ref[i:])
		x.ref[i] = c04kv[K]{k, v}
	}
	x.c.Step()
	x.c.Add("steps", 1)
	if !x.sparse {
		x.checkAll(k)
	}
}

// get is an operation of sparse-observation histories: a lookup whose result is checked.
func (x *c04run[K]) get(k K) {
	if x.failed {
		return
	}
	x.steps++
	x.log.add("GetOK(%v)", k)
	i, present := x.find(k)
	want := 0
	if present {
		want = x.ref[i].v
	}
	v, ok := x.m.GetOK(k)
	x.c.Step()
	x.c.Add("steps", 1)
	if ok != present || v != want {
		x.fail("GetOK(%v)=(%v,%v) want (%v,%v)", k, v, ok, want, present)
	}
}

// sparseHistory: a map of at least 64 entries (size-gated fast paths), then
// operations chosen with locality (the next key is usually a neighbour of the
// previous one) and nothing observed except the operations' own results, so
// that state remembered from one call to the next is not disturbed by the
// monitor's own reads. The full comparison runs every 400 operations and at the end.
func (x *c04run[K]) sparseHistory() {
	r := x.r
	x.sparse = true
	val := 0
	for u := 0; u < x.uni && !x.failed; u++ {
		if r.IntN(8) != 0 {
			val++
			x.set(x.gen(u), val, false)
		}
	}
	n := 600 + r.IntN(x.c.Pick(1500, 6000))
	last := r.IntN(x.uni)
	for i := 0; i < n && !x.failed; i++ {
		if r.IntN(3) != 0 {
			last += r.IntN(5) - 2
		} else {
			last = r.IntN(x.uni)
		}
		last = max(0, min(x.uni-1, last))
		k := x.gen(last)
		switch r.IntN(10) {
		case 0, 1, 2, 3:
			x.get(k)
		case 4, 5, 6:
			val++
			x.set(k, val, false)
		default:
			x.del(k, false)
		}
		if i%400 == 399 {
			x.checkAll(k)
		}
	}
	var zk K
	x.checkAll(zk)
	x.c.Add("sparse_observation_histories", 1)
}

func (x *c04run[K]) del(k K, viaCopy bool) {
	if x.failed {
		return
	}
	x.steps++
	m := x.m
	if viaCopy {
		m = x.m2
	}
	x.log.add("Delete(%v)%s", k, map[bool]string{true: " via copy"}[viaCopy])
	i, present := x.find(k)
	x.c.Call("omap.Delete(%v) len=%d", k, len(x.ref))
	got := m.Delete(k)
	if got != present {
		x.fail("Delete(%v)=%v but key present=%v", k, got, present)
		return
	}
	if present {
		x.ref = append(x.ref[:i], x.ref[i+1:]...)
		x.didDel = true
	}
	x.c.Step()
	x.c.Add("steps", 1)
	if !x.sparse {
		x.checkAll(k)
	}
}

// iterEdit runs the documented delete-while-iterating idiom.
func (x *c04run[K]) iterEdit() {
	if x.failed {
		return
	}
	x.c.Add("iter_edit_idiom_runs", 1)
	mod := 2 + x.r.IntN(3)
	x.log.add("iterate from First, deleting every key whose value %% %d == 0 and re-Seeking", mod)
	var visited, wantVisited []K
	for _, e := range x.ref {
		wantVisited = append(wantVisited, e.k)
	}
	guard := 0
	for it := x.m.First(); it.IsValid(); {
		guard++
		if guard > 10*len(wantVisited)+100 {
			x.fail("delete-while-iterating idiom does not terminate (visited %v)", visited)
			return
		}
		k := it.Key()
		visited = append(visited, k)
		if it.Value()%mod == 0 {
			if !x.m.Delete(k) {
				x.fail("idiom: Delete(%v) of the key under the iterator reports false", k)
				return
			}
			i, _ := x.find(k)
			x.ref = append(x.ref[:i], x.ref[i+1:]...)
			x.didDel = true
			it.Seek(k)
			if !x.iterAt(it, i, fmt.Sprintf("idiom: Seek(%v) after deleting it", k)) {
				return
			}
		} else {
			it.Next()
		}
	}
	if len(visited) != len(wantVisited) {
		x.fail("idiom visited %v, want %v", visited, wantVisited)
		return
	}
	for i := range visited {
		if !x.sameKey(visited[i], wantVisited[i]) {
			x.fail("idiom visited %v, want %v", visited, wantVisited)
			return
		}
	}
	var zk K
	x.checkAll(zk)
}

// keptIters are iterators obtained while the map was empty (or at any other
// time) and kept across edits; the documented way to use them again is to
// re-Seek, after which they must be positioned like a fresh Seek.
func (x *c04run[K]) reseekKept(kept []*omap.Iter[K, int]) {
	if x.failed || len(x.ref) == 0 {
		return
	}
	for j, it := range kept {
		k := x.ref[x.r.IntN(len(x.ref))].k
		if j%2 == 1 {
			k = x.gen(x.r.IntN(x.uni+4) - 2)
		}
		i, _ := x.find(k)
		it.Seek(k)
		x.c.Add("kept_iterator_reseeks", 1)
		if !x.iterAt(it, i, fmt.Sprintf("re-Seek(%v) of iterator #%d kept across edits since the map was empty", k, j)) {
			return
		}
	}
}

func (x *c04run[K]) history(caseIdx int) {
	r := x.r
	var zk0 K
	kept := []*omap.Iter[K, int]{x.m.First(), x.m.Last(), x.m.Seek(zk0), x.m2.First()}
	defer func() {
		if !x.failed {
			x.reseekKept(kept)
		}
	}()
	budget := 60 + r.IntN(x.c.Pick(240, 700))
	if x.uni > 48 {
		budget = 300 + r.IntN(x.c.Pick(900, 3000))
	}
	peak := 0
	val := 0
	for x.steps < budget && !x.failed {
		run := 4 + r.IntN(40)
		switch r.IntN(9) {
		case 0, 1, 2: // mostly sets
			for j := 0; j < run && !x.failed; j++ {
				val++
				x.set(x.gen(r.IntN(x.uni)), val, r.IntN(5) == 0)
			}
		case 3, 4: // mixed
			for j := 0; j < run && !x.failed; j++ {
				if r.IntN(2) == 0 {
					val++
					x.set(x.gen(r.IntN(x.uni)), val, r.IntN(5) == 0)
				} else {
					x.del(x.gen(r.IntN(x.uni)), r.IntN(5) == 0)
				}
			}
		case 5: // ascending fill of the whole universe (sorted insertion)
			for u := 0; u < x.uni && !x.failed && x.steps < budget+x.uni; u++ {
				val++
				x.set(x.gen(u), val, false)
			}
		case 6: // deep drain: below 1/8 of the peak
			if len(x.ref) > peak {
				peak = len(x.ref)
			}
			target := peak / 9
			order := r.IntN(3)
			for len(x.ref) > target && !x.failed {
				var k K
				switch order {
				case 0:
					k = x.ref[0].k
				case 1:
					k = x.ref[len(x.ref)-1].k
				default:
					k = x.ref[r.IntN(len(x.ref))].k
				}
				x.del(k, false)
			}
			if peak >= 24 && !x.failed {
				x.c.Add("deep_drains", 1)
			}
			peak = len(x.ref)
		case 7:
			x.iterEdit()
		case 8:
			if r.IntN(4) == 0 {
				x.log.add("Clear()")
				if r.IntN(2) == 0 {
					x.m.Clear()
				} else {
					x.m2.Clear()
				}
				x.ref = nil
				peak = 0
				var zk K
				x.checkAll(zk)
			}
		}
		if len(x.ref) > peak {
			peak = len(x.ref)
		}
		x.reseekKept(kept)
	}
	if !x.failed && x.kinds[0] && x.kinds[1] && x.kinds[2] && x.kinds[3] && x.didDel {
		x.c.Seen(x.h.Sum() ^ uint64(len(x.log.ops)))
	}
}

func c04start[K any](c *fw.Ctx, name string, m omap.Map[K, int], cmpf func(a, b K) int, exact bool, gen func(int) K, uni, caseIdx int) {
	x := &c04run[K]{c: c, r: c.Rng(), m: m, m2: m, cmp: cmpf, exact: exact, gen: gen, uni: uni, h: fw.NewH(), name: name}
	x.h.Str(name)
	x.h.Int(uni)
	x.h.U64(x.r.Uint64())
	ok, pv, stack := fw.Try(func() {
		if uni >= 100 && caseIdx%2 == 0 {
			x.sparseHistory()
		} else {
			x.history(caseIdx)
		}
	})
	if !ok {
		c.FailKind("panic", map[string]any{"map": name, "universe": uni, "ops": x.log.list()}, "panic: %v\n%s", pv, stack)
	}
	if c.WantSample() && len(x.log.ops) < 90 && x.didDel {
		c.Sample(map[string]any{"map": name, "universe": uni, "ops": x.log.list()})
	}
}

func c04zero(c *fw.Ctx) {
	var z omap.Map[string, int]
	c.Add("zero_map_checks", 1)
	ok, pv, stack := fw.Try(func() {
		bad := func(format string, args ...any) {
			c.Fail(map[string]any{"map": "zero omap.Map[string,int]"}, format, args...)
		}
		if z.Len() != 0 {
			bad("zero Map: Len=%d", z.Len())
		}
		if v, ok := z.GetOK("a"); ok || v != 0 || z.Get("a") != 0 {
			bad("zero Map: GetOK=(%v,%v)", v, ok)
		}
		if z.Delete("a") {
			bad("zero Map: Delete reports true")
		}
		z.Clear()
		if ks := z.Keys(); len(ks) != 0 {
			bad("zero Map: Keys=%v", ks)
		}
		if s := z.String(); s != "omap[]" {
			bad("zero Map: String=%q", s)
		}
		for name, it := range map[string]*omap.Iter[string, int]{"First": z.First(), "Last": z.Last(), "Seek": z.Seek("a")} {
			if it.IsValid() || it.Key() != "" || it.Value() != 0 {
				bad("zero Map: %s iterator valid=%v key=%q value=%d", name, it.IsValid(), it.Key(), it.Value())
			}
			it.Next()
			it.Prev()
			it.Seek("b")
			if it.IsValid() {
				bad("zero Map: %s iterator became valid", name)
			}
		}
		z2 := z
		if z2.Len() != 0 {
			bad("copy of zero Map: Len=%d", z2.Len())
		}
	})
	if !ok {
		c.FailKind("panic", map[string]any{"map": "zero omap.Map[string,int]"}, "read-only method of the zero Map panicked: %v\n%s", pv, stack)
	}
}

// c04veryLarge: a map of n keys inserted in descending, ascending or shuffled
// order (deep one-sided paths at omap's fixed balance factor), read back with
// Keys, Len, First/Next and Last/Prev sweeps, Seek at sampled keys, then half
// deleted and read again.
func c04veryLarge(c *fw.Ctx, n, order int) {
	m := omap.New[int, int]()
	data := map[string]any{"map": "omap.New[int,int]", "keys": n, "insertion_order": []string{"descending", "ascending", "shuffled"}[order]}
	r := c.Rng()
	perm := r.Perm(n)
	for i := 0; i < n; i++ {
		k := i
		switch order {
		case 0:
			k = n - 1 - i
		case 2:
			k = perm[i]
		}
		if !m.Set(3*k, k) {
			c.Fail(data, "Set(%d) of a new key reports false", 3*k)
			return
		}
		if i&(1<<16-1) == 0 {
			c.Step()
		}
	}
	check := func(stride int, what string) bool {
		cnt := (n + stride - 1) / stride
		keys := m.Keys()
		if m.Len() != cnt || len(keys) != cnt {
			c.Fail(data, "%s: Len=%d, Keys has %d entries, want %d", what, m.Len(), len(keys), cnt)
			return false
		}
		for i, k := range keys {
			if k != 3*i*stride {
				c.Fail(data, "%s: Keys[%d]=%d want %d", what, i, k, 3*i*stride)
				return false
			}
		}
		c.Step()
		i := 0
		for it := m.First(); it.IsValid(); it.Next() {
			if it.Key() != 3*i*stride || it.Value() != i*stride {
				c.Fail(data, "%s: First/Next entry %d is %d:%d", what, i, it.Key(), it.Value())
				return false
			}
			i++
		}
		j := cnt - 1
		for it := m.Last(); it.IsValid(); it.Prev() {
			if it.Key() != 3*j*stride {
				c.Fail(data, "%s: Last/Prev entry %d is %d", what, j, it.Key())
				return false
			}
			j--
		}
		if i != cnt || j != -1 {
			c.Fail(data, "%s: sweeps visited %d forward, %d backward of %d", what, i, cnt-1-j, cnt)
			return false
		}
		c.Step()
		for s := 0; s < 2000; s++ {
			k := r.IntN(3*n+6) - 3
			it := m.Seek(k)
			want := (k + 3*stride - 1) / (3 * stride) * 3 * stride // first key >= k
			if k < 0 {
				want = 0
			}
			if want > 3*(cnt-1)*stride {
				if it.IsValid() {
					c.Fail(data, "%s: Seek(%d) beyond the largest key is valid at %d", what, k, it.Key())
					return false
				}
			} else if !it.IsValid() || it.Key() != want {
				c.Fail(data, "%s: Seek(%d) is at %d (valid=%v), want %d", what, k, it.Key(), it.IsValid(), want)
				return false
			}
			if v, ok := m.GetOK(want); want <= 3*(cnt-1)*stride && (!ok || v != want/3) {
				c.Fail(data, "%s: GetOK(%d)=(%d,%v)", what, want, v, ok)
				return false
			}
		}
		return true
	}
	if !check(1, "after the insertions") {
		return
	}
	for k := 0; k < n; k++ {
		if k%2 == 1 && !m.Delete(3*k) {
			c.Fail(data, "Delete(%d) of a present key reports false", 3*k)
			return
		}
	}
	check(2, "after deleting every second key")
	c.Add("very_large_maps", 1)
	c.Max("max:map_keys", int64(n))
}

func runC04(c *fw.Ctx) {
	if c.Block < 6 && c.Begin(1<<22+c.Block) {
		n := []int{c.Pick(300000, 3600000), 262145, c.Pick(400000, 1500000)}[c.Block%3]
		ok, pv, stack := fw.Try(func() { c04veryLarge(c, n, c.Block%3) })
		if !ok {
			c.FailKind("panic", map[string]any{"map": "omap.New[int,int]", "keys": n}, "panic: %v\n%s", pv, stack)
		}
	}
	if c.Thorough() && c.Flavour == "plain" && c.Block == 0 && strconv.IntSize == 64 && c.Begin(1<<23+5000) {
		// thorough only (about a minute): iterators stay positioned while the map
		// goes through 2^32 edits (no-op Deletes after one real one); each of them
		// is re-sought at an edit count within 4 of 2^32 - a 32-bit edit counter
		// or version stamp meets its old value again exactly there
		m := omap.New[int, string]()
		m.Set(30, "c")
		m.Set(10, "a")
		m.Set(20, "b")
		its := make([]*omap.Iter[int, string], 9)
		for i := range its {
			its[i] = m.Seek(20)
		}
		m.Delete(20) // edit 1: the entry the iterators stand on is gone
		const target = 1 << 32
		for e := uint64(2); e <= target-5; e++ {
			m.Delete(99)
			if e&(1<<26-1) == 0 {
				c.Step()
			}
		}
		for i, it := range its {
			// now target-5+i edits have been made
			it.Seek(20)
			if !it.IsValid() || it.Key() != 30 || it.Value() != "c" {
				c.Fail(map[string]any{"edits_since_the_iterator_was_positioned": uint64(target-5) + uint64(i)}, "an iterator positioned at key 20 before 20 was deleted, re-sought to 20 after %d edits: valid=%v key=%d value=%q, want the entry 30:c", uint64(target-5)+uint64(i), it.IsValid(), it.Key(), it.Value())
				break
			}
			m.Delete(99)
		}
		c.Add("edit_counter_wraparound_runs", 1)
	}
	for k := 0; k < c.Pick(4, 40); k++ {
		if !c.Begin(1<<23 + k) {
			continue
		}
		r := c.Rng()
		ok, pv, stack := fw.Try(func() { c04sharedReaders(c, r) })
		if !ok {
			c.FailKind("panic", map[string]any{"phase": "shared readers"}, "panic: %v\n%s", pv, stack)
		}
	}
	ncases := c.Pick(15, 300)
	for i := 0; i < ncases; i++ {
		if !c.Begin(i) {
			continue
		}
		if i == 0 {
			c04zero(c)
		}
		r := c.Rng()
		for rep := 0; rep < 4; rep++ {
			ok, pv, stack := fw.Try(func() { c04values(c, r) })
			if !ok {
				c.FailKind("panic", map[string]any{"map": "omap.New[string,string]"}, "panic: %v\n%s", pv, stack)
			}
		}
		uni := []int{6, 10, 16, 24, 40, 48, 100, 200, 300, 1000}[r.IntN(10)]
		if i%5 == 4 {
			uni = 2 + r.IntN(6)
		}
		if (i+c.Block)%11 == 10 {
			// float keys in their natural order (cmp.Compare): NaN sorts first and equals itself, -0 == +0
			fl := []float64{math.NaN(), math.Inf(-1), -2.5, math.Copysign(0, -1), 0, 1, 1.5, 7, math.MaxFloat64, math.Inf(1)}
			gen := func(u int) float64 {
				if u < 0 {
					return math.NaN() // below every other key
				}
				if u >= len(fl) {
					return math.Inf(1)
				}
				return fl[u]
			}
			c04start(c, "omap.New[float64,int] (NaN, infinities, signed zero)", omap.New[float64, int](), cmp.Compare[float64], false, gen, len(fl), i)
			c.Add("float_key_maps", 1)
			continue
		}
		switch (i + c.Block) % 5 {
		case 4:
			wide := func(a, b int) int { return clipInt(2 * (int64(a) - int64(b))) }
			c04start(c, "omap.NewFunc[int,int](difference comparator)", omap.NewFunc[int, int](wide), wide, true, func(u int) int { return 3 * u }, uni, i)
		case 0:
			off := []int{0, uni / 2, uni}[r.IntN(3)] // keys all positive, centred on zero, or all negative
			c04start(c, "omap.New[int,int]", omap.New[int, int](), cmp.Compare[int], true, func(u int) int { return 3 * (u - off) }, uni, i)
		case 1:
			rev := func(a, b int) int { return cmp.Compare(b, a) }
			// gen must enumerate the universe in comparator order
			c04start(c, "omap.NewFunc[int,int](reversed)", omap.NewFunc[int, int](rev), rev, true, func(u int) int { return -3 * u }, uni, i)
		case 2:
			gen := func(u int) string { return fmt.Sprintf("k%05d", u+10) }
			c04start(c, "omap.New[string,int]", omap.New[string, int](), cmp.Compare[string], true, gen, uni, i)
		case 3:
			fold := func(a, b string) int { return cmp.Compare(strings.ToLower(a), strings.ToLower(b)) }
			rr := rand.New(rand.NewPCG(r.Uint64(), 5))
			gen := func(u int) string {
				s := fmt.Sprintf("k%05d", u+10)
				if rr.IntN(2) == 0 {
					s = strings.ToUpper(s)
				}
				return s
			}
			c04start(c, "omap.NewFunc[string,int](case-folding)", omap.NewFunc[string, int](fold), fold, false, gen, uni, i)
		}
	}
}

// c04values: maps whose keys and values are awkward strings (blanks at either
// end, the separators String itself writes, format verbs, empty). Get, Keys,
// the iterators' Value and String are compared with a reference after every
// operation; String is "omap[" + "k:v" joined by single blanks + "]".
func c04values(c *fw.Ctx, r *rand.Rand) {
	words := []string{"", " ", "  ", "x ", " x", "x  ", "a:b", ":", "]", "[", "omap[", "omap[]", "%v", "%!v(MISSING)", "%d", "\n", "x\n", "\t", "x\t ", "é ", "a b", "0", "nil", "<nil>"}
	m := omap.New[string, string]()
	ref := map[string]string{}
	var log opLog
	fail := func(format string, args ...any) {
		c.Fail(map[string]any{"map": "omap.New[string,string]", "ops": log.list()}, format, args...)
	}
	steps := 40 + r.IntN(160)
	for s := 0; s < steps; s++ {
		k, v := words[r.IntN(len(words))], words[r.IntN(len(words))]
		switch x := r.IntN(10); {
		case x < 6:
			log.add("Set(%q,%q)", k, v)
			_, had := ref[k]
			if got := m.Set(k, v); got == had {
				fail("Set(%q) = %v, key present before = %v", k, got, had)
				return
			}
			ref[k] = v
		case x < 9:
			log.add("Delete(%q)", k)
			_, had := ref[k]
			if got := m.Delete(k); got != had {
				fail("Delete(%q) = %v, key present = %v", k, got, had)
				return
			}
			delete(ref, k)
		default:
			log.add("Clear()")
			m.Clear()
			ref = map[string]string{}
		}
		c.Step()
		keys := make([]string, 0, len(ref))
		for k := range ref {
			keys = append(keys, k)
		}
		sort.Strings(keys)
		var sb strings.Builder
		sb.WriteString("omap[")
		for i, k := range keys {
			if i > 0 {
				sb.WriteByte(' ')
			}
			sb.WriteString(fmt.Sprint(k) + ":" + fmt.Sprint(ref[k]))
		}
		sb.WriteString("]")
		if got := m.String(); got != sb.String() {
			fail("String = %q, want %q", got, sb.String())
			return
		}
		if got := m.Keys(); len(got) != len(keys) || (len(keys) > 0 && !equalStrings(got, keys)) {
			fail("Keys = %q, want %q", got, keys)
			return
		}
		i := 0
		for it := m.First(); it.IsValid(); it.Next() {
			if i >= len(keys) || it.Key() != keys[i] || it.Value() != ref[keys[i]] {
				fail("First/Next entry %d is %q:%q, reference %q", i, it.Key(), it.Value(), keys)
				return
			}
			i++
		}
		if i != len(keys) || m.Len() != len(keys) {
			fail("iteration visited %d entries, Len=%d, reference has %d", i, m.Len(), len(keys))
			return
		}
		for _, k := range words {
			want, had := ref[k]
			if got, ok := m.GetOK(k); ok != had || got != want || m.Get(k) != want {
				fail("GetOK(%q) = (%q,%v), want (%q,%v)", k, got, ok, want, had)
				return
			}
		}
		c.Add("string_value_steps", 1)
	}
}

// c04sharedReaders: one map, no writer, eight goroutines that only read it
// (Get, GetOK, Len, Seek followed by Next/Prev steps, First, Last) and verify
// every answer against the key set.
func c04sharedReaders(c *fw.Ctx, r *rand.Rand) {
	n := []int{3, 40, 700, 20000}[r.IntN(4)]
	m := omap.New[int, int]()
	for _, k := range r.Perm(n) {
		m.Set(3*k, k)
	}
	for k := 0; k < n; k += 7 {
		m.Delete(3 * k)
	}
	var keys []int
	for k := 0; k < n; k++ {
		if k%7 != 0 {
			keys = append(keys, 3*k)
		}
	}
	if len(keys) == 0 {
		return
	}
	msg := concurrently(8, r.Uint64(), func(g int, lr *rand.Rand) string {
		for it := 0; it < 400; it++ {
			i := lr.IntN(len(keys))
			k := keys[i]
			switch lr.IntN(4) {
			case 0:
				if v, ok := m.GetOK(k); !ok || v != k/3 || m.Get(k+1) != 0 || m.Len() != len(keys) {
					return fmt.Sprintf("goroutine %d (readers only): GetOK(%d)=(%d,%v) Len=%d", g, k, v, ok, m.Len())
				}
			case 1:
				it := m.Seek(k - 1) // first key >= k-1 is k
				for d := 0; d < 6 && i+d < len(keys); d++ {
					if !it.IsValid() || it.Key() != keys[i+d] || it.Value() != keys[i+d]/3 {
						return fmt.Sprintf("goroutine %d (readers only): Seek(%d) then %d x Next is at %d (valid=%v), want %d", g, k-1, d, it.Key(), it.IsValid(), keys[i+d])
					}
					it.Next()
				}
			case 2:
				it := m.Seek(k)
				for d := 0; d < 6 && i-d >= 0; d++ {
					if !it.IsValid() || it.Key() != keys[i-d] {
						return fmt.Sprintf("goroutine %d (readers only): Seek(%d) then %d x Prev is at %d (valid=%v), want %d", g, k, d, it.Key(), it.IsValid(), keys[i-d])
					}
					it.Prev()
				}
			default:
				if f, l := m.First(), m.Last(); !f.IsValid() || f.Key() != keys[0] || !l.IsValid() || l.Key() != keys[len(keys)-1] {
					return fmt.Sprintf("goroutine %d (readers only): First/Last at %d/%d, want %d/%d", g, f.Key(), l.Key(), keys[0], keys[len(keys)-1])
				}
				if it := m.Seek(keys[len(keys)-1] + 1); it.IsValid() {
					return fmt.Sprintf("goroutine %d (readers only): Seek beyond the largest key is valid at %d", g, it.Key())
				}
			}
			c.Step()
		}
		return ""
	})
	if msg != "" {
		c.Fail(map[string]any{"map": "omap.New[int,int]", "keys": len(keys), "phase": "one shared map, no writer, 8 goroutines that only read it"}, "%s", msg)
	}
	c.Add("shared_reader_rounds", 1)
}
