//go:build pC20 || pall

package props

import (
	"bytes"
	"fmt"
	"math/big"
	"math/rand/v2"
	"runtime"
	"strconv"
	"strings"
	"sync"
	"sync/atomic"
	"unicode/utf8"
	"unsafe"

	"github.com/creachadair/mds/mbits"
	"github.com/creachadair/mds/mstr"
	"verif/harness/fw"
)

// C20 — byte and string helpers agree with their naive definitions.
// mbits: byte-loop oracles on slices at every alignment, cut out of guarded
// buffers (writes/reads outside change a guard byte or the answer) and ending
// exactly at the end of their allocation (an over-read leaves the allocation:
// checkptr under -race, AddressSanitizer under -asan). mstr: definitional
// oracles, exhaustive over short strings.

func init() {
	fw.Register(&fw.Property{
		ID: "C20",
		Meta: func(tier string) fw.Meta {
			fl := []string{"plain", "race", "cover", "386"}
			if tier == "thorough" {
				fl = []string{"plain", "race", "asan", "cover", "386"}
			}
			return fw.Meta{
				Flavours: fl,
				Blocks:   16,
				Procs:    16,
				Rule: "mbits: every length 0..16 x every alignment 0..7 x every zero/non-zero pattern (exhaustive), lengths 17..40 (64 thorough) x alignments x structured and random patterns; lengths 16..136 with pairs/triples of 64-bit words that cancel under +, xor and or/and-not (for implementations that combine words before testing), at both possible word phases; a few buffers of 4095..65536 bytes; each in two layouts: a window inside a guard-filled buffer, and a slice that ends exactly at the end of its allocation; LeadingZeroes/TrailingZeroes vs byte loops, Zero clears exactly the slice and returns its length, guard bytes intact; run plain, under -race (checkptr) and, in thorough, under -asan; one goroutine works on a slice while another writes the 8 bytes on either side of it (lost neighbour updates checked, and any access outside the slice is a data race for the race detector). " +
					"mstr.Trunc: every string of <= 5 runes over 1-, 2-, 3- and 4-byte runes x every n in 0..len+2 (prefix, len <= n, identity when n >= len, valid UTF-8, len >= n-4 when cut), random invalid byte strings for the unconditional clauses. " +
					"mstr.CompareNatural: all 259 strings of length <= 3 over {0,1,9,/,:,a}: result in {-1,0,1}, antisymmetry on all pairs, transitivity on all 17.4 M triples (counted: those whose premises a<=b<=c hold), zero iff equal after stripping leading zeros of digit runs; every byte value and every rune U+0080..U+FFFF (stride beyond) placed after, before and between digit runs; numeric order of embedded digit runs of up to 18 digits, including pairs of runs that differ only in their low-order digits at every magnitude (around powers of ten and of two) with following text that would decide the other way. " +
					"CompareNatural on strings that share storage (every pair of prefixes, of suffixes, and window against whole, of zero-rich strings), checked against the reference and against unrelated copies of the same contents. " +
					"distinct = enumerated inputs; non-trivial = mbits length >= 8 (word loop engaged) / Trunc cuts inside a multi-byte rune / CompareNatural pair with a digit run on both sides",
				Required:     []string{"mbits_cases", "mbits_unaligned_word_cases", "mbits_exact_end_cases", "mbits_cancelling_word_cases", "trunc_cases", "trunc_cuts_inside_rune", "natural_pairs", "natural_triples", "natural_numeric_pairs", "natural_prefix_pairs", "natural_close_value_pairs", "natural_rune_next_to_digits_pairs", "mbits_concurrent_neighbour_cases", "natural_huge_strings", "natural_pairs_sharing_storage"},
				Exhaustive:   true,
				Assumptions:  []string{"an over-read that stays inside one allocation and does not change the result is invisible to this monitor", "digit runs are kept to <= 18 digits so that int does not overflow"},
				CoverPkgs:    []string{"github.com/creachadair/mds/mbits", "github.com/creachadair/mds/mstr"},
				CoverAnchors: []string{"mbits/mbits.go", "mstr/mstr.go:Trunc", "mstr/mstr.go:CompareNatural", "mstr/mstr.go:parseInt", "mstr/mstr.go:parseStr", "mstr/mstr.go:isDigit"},
			}
		},
		Run: runC20,
	})
}

// ------------------------------------------------------------------ mbits

// mkWindow returns a slice of n bytes whose address is congruent to align mod
// 8, inside a larger buffer filled with guard bytes (layout 0), or ending
// exactly at the end of its allocation (layout 1).
func mkWindow(n, align, layout int) (buf, w []byte, off int) {
	if layout == 1 {
		// allocation of exactly align' + n bytes; the window is its tail
		for pad := 0; pad < 16; pad++ {
			b := make([]byte, pad+n)
			if len(b) == 0 {
				return b, b, 0
			}
			if (int(uintptr(unsafe.Pointer(&b[0])))+pad)%8 == align {
				for i := range b {
					b[i] = 0xA5
				}
				return b, b[pad:], pad
			}
		}
	}
	b := make([]byte, n+48)
	for i := range b {
		b[i] = 0xA5
	}
	base := int(uintptr(unsafe.Pointer(&b[0])))
	off = 16
	for (base+off)%8 != align {
		off++
	}
	return b, b[off : off+n : off+n], off
}

func naiveLeading(d []byte) int {
	n := 0
	for n < len(d) && d[n] == 0 {
		n++
	}
	return n
}

func naiveTrailing(d []byte) int {
	n := 0
	for n < len(d) && d[len(d)-1-n] == 0 {
		n++
	}
	return n
}

// c20mbits checks one (length, alignment, pattern, layout). pattern bit i set
// means byte i is non-zero.
func c20mbits(c *fw.Ctx, n, align int, pattern uint64, layout int) {
	vals := make([]byte, n)
	for i := 0; i < n; i++ {
		if pattern>>uint(i)&1 == 1 {
			vals[i] = []byte{0x01, 0x80, 0xff, 0x10}[i%4]
		}
	}
	c20mbitsVals(c, vals, align, layout, fmt.Sprintf("nonzero mask %b", pattern))
}

// c20mbitsVals checks the three functions on a slice holding exactly vals.
func c20mbitsVals(c *fw.Ctx, vals []byte, align, layout int, desc string) {
	n := len(vals)
	pattern := desc
	buf, w, off := mkWindow(n, align, layout)
	copy(w, vals)
	data := map[string]any{"len": n, "alignment": align, "contents": pattern, "layout": []string{"window in guarded buffer", "slice ending at the end of its allocation"}[layout]}
	if n <= 160 {
		data["bytes_hex"] = fmt.Sprintf("%x", vals)
	}
	keep := append([]byte(nil), buf...)
	wantL, wantT := naiveLeading(w), naiveTrailing(w)
	c.Call("mbits.LeadingZeroes len=%d align=%d layout=%d %s", n, align, layout, pattern)
	if got := mbits.LeadingZeroes(w); got != wantL {
		c.Fail(data, "LeadingZeroes = %d, byte loop says %d", got, wantL)
		return
	}
	c.Call("mbits.TrailingZeroes len=%d align=%d layout=%d %s", n, align, layout, pattern)
	if got := mbits.TrailingZeroes(w); got != wantT {
		c.Fail(data, "TrailingZeroes = %d, byte loop says %d", got, wantT)
		return
	}
	for i := range buf {
		if buf[i] != keep[i] {
			c.Fail(data, "LeadingZeroes/TrailingZeroes modified memory at buffer offset %d", i)
			return
		}
	}
	c.Call("mbits.Zero len=%d align=%d layout=%d", n, align, layout)
	if got := mbits.Zero(w); got != n {
		c.Fail(data, "Zero returned %d, want len = %d", got, n)
		return
	}
	for i := range buf {
		in := i >= off && i < off+n
		if in && buf[i] != 0 {
			c.Fail(data, "Zero left byte %d of the slice non-zero", i-off)
			return
		}
		if !in && buf[i] != 0xA5 {
			c.Fail(data, "Zero wrote outside the slice: guard byte at slice index %d changed to %#x", i-off, buf[i])
			return
		}
	}
	c.Step()
}

// ------------------------------------------------------------------ mstr.Trunc

func c20trunc(c *fw.Ctx, s string, valid bool) (cutsInside int64, cases int64) {
	if len(s)%3 == 1 {
		// n far beyond len(s), with low bits that look like a small n
		for _, n := range truncInts(len(s)) {
			if n > 0 {
				if got := mstr.Trunc(s, n); got != s {
					c.Fail(map[string]any{"s": fw.Q(s), "n": n, "result": fw.Q(got)}, "Trunc(s, n) with n >= len(s) does not return s")
					return
				}
				cases++
			}
		}
	}
	for n := 0; n <= len(s)+2; n++ {
		got := mstr.Trunc(s, n)
		cases++
		data := map[string]any{"s": fw.Q(s), "n": n, "result": fw.Q(got)}
		if !strings.HasPrefix(s, got) {
			c.Fail(data, "Trunc result is not a prefix of s")
			return
		}
		if len(got) > n {
			c.Fail(data, "Trunc result has %d bytes, more than n", len(got))
			return
		}
		if n >= len(s) && got != s {
			c.Fail(data, "n >= len(s) but the result is not s itself")
			return
		}
		if valid {
			if !utf8.ValidString(got) {
				c.Fail(data, "s is valid UTF-8 but the result is not")
				return
			}
			if n < len(s) && len(got) < n-4 {
				c.Fail(data, "result is %d bytes, more than one encoded character shorter than n", len(got))
				return
			}
			if n < len(s) && !utf8.RuneStart(s[n]) {
				cutsInside++
			}
		}
	}
	c.Step()
	return
}

// ------------------------------------------------------------------ mstr.CompareNatural

func canonDigits(s string) string {
	var sb strings.Builder
	i := 0
	for i < len(s) {
		if s[i] >= '0' && s[i] <= '9' {
			j := i
			for j < len(s) && s[j] >= '0' && s[j] <= '9' {
				j++
			}
			run := strings.TrimLeft(s[i:j], "0")
			if run == "" {
				run = "0"
			}
			sb.WriteString(run)
			i = j
		} else {
			sb.WriteByte(s[i])
			i++
		}
	}
	return sb.String()
}

// refNatural is an independent implementation of the documented comparison:
// runs of digits compare by value, runs of non-digits lexicographically, and
// when exactly one side starts with a digit the remainders compare
// lexicographically. Digit runs are compared as digit strings (no overflow).
func refNatural(a, b string) int { r, _ := refNaturalK(a, b); return r }

// refNaturalK also reports how the comparison was decided: 0 = the strings are
// equal up to leading zeros, 1 = by the numeric values of two digit runs,
// 2 = otherwise (text runs, a digit against a non-digit, one string a prefix
// of the other). Only kinds 0 and 1 are fixed by the property statement.
func refNaturalK(a, b string) (int, int) {
	sign := func(x int) int {
		switch {
		case x < 0:
			return -1
		case x > 0:
			return 1
		}
		return 0
	}
	isD := func(c byte) bool { return c >= '0' && c <= '9' }
	for a != "" && b != "" {
		da, db := isD(a[0]), isD(b[0])
		switch {
		case da && db:
			i, j := 0, 0
			for i < len(a) && isD(a[i]) {
				i++
			}
			for j < len(b) && isD(b[j]) {
				j++
			}
			x, y := strings.TrimLeft(a[:i], "0"), strings.TrimLeft(b[:j], "0")
			if len(x) != len(y) {
				return sign(len(x) - len(y)), 1
			}
			if x != y {
				return sign(strings.Compare(x, y)), 1
			}
			a, b = a[i:], b[j:]
		case da != db:
			return sign(strings.Compare(a, b)), 2
		default:
			i, j := 0, 0
			for i < len(a) && !isD(a[i]) {
				i++
			}
			for j < len(b) && !isD(b[j]) {
				j++
			}
			if a[:i] != b[:j] {
				return sign(strings.Compare(a[:i], b[:j])), 2
			}
			a, b = a[i:], b[j:]
		}
	}
	if a == b {
		return 0, 0
	}
	return sign(strings.Compare(a, b)), 2
}

// c20pair checks one pair against everything the statement fixes: result in
// {-1,0,1}, antisymmetry, zero iff equal up to leading zeros of digit runs,
// and the order when it is decided by two digit runs.
func c20pair(c *fw.Ctx, a, b string) bool {
	got, rev := mstr.CompareNatural(a, b), mstr.CompareNatural(b, a)
	want, kind := refNaturalK(a, b)
	data := map[string]any{"a": fw.Q(a), "b": fw.Q(b)}
	switch {
	case got < -1 || got > 1 || got != -rev:
		c.Fail(data, "CompareNatural(a,b)=%d, CompareNatural(b,a)=%d: not antisymmetric in {-1,0,1}", got, rev)
	case (got == 0) != (canonDigits(a) == canonDigits(b)):
		c.Fail(data, "CompareNatural = %d but the strings are %s up to leading zeros of digit runs", got, map[bool]string{true: "equal", false: "different"}[canonDigits(a) == canonDigits(b)])
	case kind <= 1 && got != want:
		c.Fail(data, "CompareNatural = %d, but the digit runs compare by value as %d", got, want)
	default:
		return true
	}
	return false
}

func hasDigit(s string) bool { return strings.ContainsAny(s, "0123456789") }

func c20natural(c *fw.Ctx, strs []string, lo, hi int) {
	n := len(strs)
	M := make([][]int8, n)
	for i := range M {
		M[i] = make([]int8, n)
		for j := range M[i] {
			M[i][j] = int8(mstr.CompareNatural(strs[i], strs[j]))
		}
	}
	// pairs (rows lo..hi belong to this block)
	var pairs, ntp int64
	for i := lo; i < hi; i++ {
		for j := 0; j < n; j++ {
			v := mstr.CompareNatural(strs[i], strs[j])
			pairs++
			data := map[string]any{"a": fw.Q(strs[i]), "b": fw.Q(strs[j])}
			if v != -1 && v != 0 && v != 1 {
				c.Fail(data, "CompareNatural = %d, not in {-1,0,1}", v)
				return
			}
			if int(M[j][i]) != -v {
				c.Fail(data, "CompareNatural(a,b) = %d but CompareNatural(b,a) = %d: not antisymmetric", v, M[j][i])
				return
			}
			if want, kind := refNaturalK(strs[i], strs[j]); kind <= 1 && v != want {
				c.Fail(data, "CompareNatural = %d, but comparing digit runs by value gives %d", v, want)
				return
			}
			if (v == 0) != (canonDigits(strs[i]) == canonDigits(strs[j])) {
				c.Fail(data, "CompareNatural = %d but the strings are %s up to leading zeros of digit runs", v, map[bool]string{true: "equal", false: "different"}[canonDigits(strs[i]) == canonDigits(strs[j])])
				return
			}
			if hasDigit(strs[i]) && hasDigit(strs[j]) {
				ntp++
			}
		}
		c.Step()
	}
	c.Add("natural_pairs", pairs)
	c.Evals(pairs)
	c.SeenEnum(ntp)
	// triples: i in [lo,hi)
	var triples int64
	for i := lo; i < hi; i++ {
		for j := 0; j < n; j++ {
			ij := M[i][j]
			if ij > 0 {
				continue
			}
			for k := 0; k < n; k++ {
				jk := M[j][k]
				if jk > 0 {
					continue
				}
				triples++
				ik := M[i][k]
				// a <= b and b <= c imply a <= c; strict if either is strict
				if ik > 0 || (ik == 0 && (ij < 0 || jk < 0)) {
					c.Fail(map[string]any{"a": fw.Q(strs[i]), "b": fw.Q(strs[j]), "c": fw.Q(strs[k])}, "not transitive: cmp(a,b)=%d cmp(b,c)=%d but cmp(a,c)=%d", ij, jk, ik)
					return
				}
			}
		}
		c.Step()
	}
	c.Add("natural_triples", triples)
}

// c20maxDigits: digit runs are kept short enough for the platform's int (the
// statement's domain; see Assumptions): 18 digits with 64-bit ints, 9 with 32.
var c20maxDigits = map[int]int{64: 18, 32: 9}[strconv.IntSize]

// capDigitRuns shortens every digit run of s to at most max digits.
func capDigitRuns(s string, max int) string {
	var sb strings.Builder
	run := 0
	for i := 0; i < len(s); i++ {
		if s[i] >= '0' && s[i] <= '9' {
			if run++; run > max {
				continue
			}
		} else {
			run = 0
		}
		sb.WriteByte(s[i])
	}
	return sb.String()
}

func c20numeric(c *fw.Ctx, r *rand.Rand) {
	digits := func() string {
		n := 1 + r.IntN(c20maxDigits)
		b := make([]byte, n)
		for i := range b {
			b[i] = byte('0' + r.IntN(10))
		}
		if r.IntN(3) == 0 {
			for i := 0; i < r.IntN(n); i++ {
				b[i] = '0'
			}
		}
		return string(b)
	}
	seps := []string{"", "a", "/", ":", "x-", " ", "é"}
	pre, suf := seps[r.IntN(len(seps))], seps[r.IntN(len(seps))]
	if suf != "" && suf[0] >= '0' && suf[0] <= '9' {
		suf = "a"
	}
	d1, d2 := digits(), digits()
	if r.IntN(4) == 0 {
		d2 = strings.Repeat("0", r.IntN(3)) + strings.TrimLeft(d1, "0")
		if len(d2) > c20maxDigits || d2 == "" {
			d2 = d1
		}
	}
	suf2 := suf
	if r.IntN(3) == 0 {
		// close values: the runs differ only in their low-order digits (every
		// magnitude up to 18 digits, powers of ten and of two nearby), and the
		// texts after them would decide the other way if the runs tied
		base := new(big.Int)
		switch r.IntN(4) {
		case 0:
			base.Exp(big.NewInt(10), big.NewInt(int64(1+r.IntN(c20maxDigits-1))), nil)
		case 1:
			base.Lsh(big.NewInt(1), uint(20+r.IntN(strconv.IntSize-25)))
		default:
			base.SetString(strings.TrimLeft(d1, "0")+"0", 10)
		}
		delta := big.NewInt(int64(r.IntN(401) - 200))
		other := new(big.Int).Add(base, delta)
		step := big.NewInt(int64(1 + r.IntN(3)*r.IntN(60)))
		third := new(big.Int).Add(other, step)
		if other.Sign() > 0 && len(third.String()) <= c20maxDigits {
			d1 = strings.Repeat("0", r.IntN(3)) + other.String()
			d2 = third.String()
			suf, suf2 = "z", "a"
			if r.IntN(2) == 0 {
				d1, d2, suf, suf2 = d2, d1, suf2, suf
			}
			if len(d1) > c20maxDigits {
				d1 = strings.TrimLeft(d1, "0")
			}
			c.Add("natural_close_value_pairs", 1)
		}
	}
	a, b := pre+d1+suf, pre+d2+suf2
	x, _ := new(big.Int).SetString(d1, 10)
	y, _ := new(big.Int).SetString(d2, 10)
	want := x.Cmp(y)
	if want == 0 {
		want = refNatural(a, b)
	}
	got := mstr.CompareNatural(a, b)
	c.Add("natural_numeric_pairs", 1)
	c.Step()
	if got != want {
		c.Fail(map[string]any{"a": fw.Q(a), "b": fw.Q(b)}, "CompareNatural = %d, but the digit runs compare numerically as %d", got, want)
	}
}

// ------------------------------------------------------------------ driver

// c20neighbours: one goroutine works on a slice (Zero, LeadingZeroes,
// TrailingZeroes) while another one writes the bytes right before and after
// that slice - memory the functions must neither read nor write. A write that
// puts back what it read is invisible to guard bytes, but it undoes the
// neighbour's update (checked here) and is a data race (reported by the race
// detector in the race flavour; the harness itself touches disjoint bytes only).
func c20neighbours(c *fw.Ctx) {
	words := make([]uint64, 16)
	buf := unsafe.Slice((*byte)(unsafe.Pointer(&words[0])), 128)
	var lost atomic.Int64
	cases := 0
	for off := 8; off < 24; off++ {
		for _, n := range []int{1, 3, 5, 8, 9, 13, 16, 17, 23, 31} {
			if (off+n+c.Block)%2 == 0 {
				continue
			}
			cases++
			w := buf[off : off+n : off+n]
			var nb []int // neighbour offsets: up to 8 bytes on either side
			for j := off - 8; j < off; j++ {
				nb = append(nb, j)
			}
			for j := off + n; j < off+n+8; j++ {
				nb = append(nb, j)
			}
			var wg sync.WaitGroup
			stop := make(chan struct{})
			wg.Add(2)
			go func() {
				defer wg.Done()
				for i := 0; ; i++ {
					select {
					case <-stop:
						return
					default:
					}
					w[i%n] = 0xff
					mbits.Zero(w)
					mbits.LeadingZeroes(w)
					w[n-1-i%n] = 1
					mbits.TrailingZeroes(w)
					if i%8 == 7 {
						runtime.Gosched() // with a single P the other goroutine must get its turn without waiting for preemption
					}
				}
			}()
			go func() {
				defer wg.Done()
				defer close(stop)
				for i := 1; i <= 400; i++ {
					v := byte(i%250 + 1)
					for _, j := range nb {
						buf[j] = v
					}
					runtime.Gosched()
					for _, j := range nb {
						if buf[j] != v {
							lost.Add(1)
						}
					}
				}
			}()
			wg.Wait()
			if lost.Load() > 0 {
				c.Fail(map[string]any{"slice": fmt.Sprintf("buf[%d:%d] of a 128-byte word-aligned buffer", off, off+n)}, "%d updates that another goroutine made to bytes just outside the slice were undone while Zero/LeadingZeroes/TrailingZeroes worked on the slice", lost.Load())
				return
			}
			c.Step()
		}
	}
	c.Add("mbits_concurrent_neighbour_cases", int64(cases))
	// several goroutines count zeroes in the same slice at the same time; nobody
	// writes it: every count must be right and the slice untouched (a function
	// that scribbles into its argument and repairs it afterwards is a data race
	// here, and its callers read each other's scribbles)
	for _, n := range []int{1, 7, 8, 9, 16, 23, 64, 100, 4096 + 5, 1<<20 + 5} {
		buf2 := make([]byte, n+16)
		w := buf2[8 : 8+n : 8+n]
		nz := n - 1 - c.Block%min(n, 7) // zeroes in front, one non-zero byte, zeroes behind
		if nz < 0 {
			nz = 0
		}
		w[nz] = 0x5a
		wantL, wantT := naiveLeading(w), naiveTrailing(w)
		keep := append([]byte(nil), buf2...)
		var wg sync.WaitGroup
		var wrong atomic.Int64
		for g := 0; g < 6; g++ {
			wg.Add(1)
			go func() {
				defer wg.Done()
				for i := 0; i < 300; i++ {
					if mbits.LeadingZeroes(w) != wantL || mbits.TrailingZeroes(w) != wantT {
						wrong.Add(1)
					}
					if n > 100000 && i > 20 {
						break
					}
				}
			}()
		}
		wg.Wait()
		if wrong.Load() > 0 || !bytes.Equal(keep, buf2) {
			c.Fail(map[string]any{"length": n, "first_nonzero_at": nz}, "6 goroutines counting zeroes in the same unwritten slice: %d wrong counts (want leading %d, trailing %d); slice and surroundings unchanged afterwards: %v", wrong.Load(), wantL, wantT, bytes.Equal(keep, buf2))
			return
		}
		c.Step()
	}
	c.Add("mbits_concurrent_same_slice_cases", 10)
}

// c20shared: CompareNatural on two strings that share storage: prefixes of one
// string (same first byte in memory), suffixes (same last byte), a string and
// a window of it, and a string with itself; each pair also as unrelated copies.
func c20shared(c *fw.Ctx) {
	r := c.Rng()
	fixed := []string{"v1.000", "0000", "a00b000", "x0", "10.00.000", "file-00", "007a007", "1000000", "a1b01c001", "0a0", "99990000", "\xff00", "é00", "00.00"}
	var n int64
	for k := 0; k < 60+len(fixed); k++ {
		var s string
		if k < len(fixed) {
			s = strings.Clone(fixed[k])
		} else {
			b := make([]byte, 2+r.IntN(11))
			for i := range b {
				b[i] = "000019a."[r.IntN(8)]
			}
			s = capDigitRuns(string(b), c20maxDigits) // digit runs stay within the platform's int
		}
		L := len(s)
		for i := 0; i <= L; i++ {
			for j := 0; j <= L; j++ {
				pairs := [][2]string{{s[:i], s[:j]}, {s[i:], s[j:]}}
				if i <= j {
					pairs = append(pairs, [2]string{s[i:j], s}, [2]string{s[i:j], s[i:]}, [2]string{s[i:j], s[:j]})
				}
				for _, p := range pairs {
					n++
					if !c20pair(c, p[0], p[1]) {
						return
					}
					// the same contents in storage of their own must give the same answer
					if got, want := mstr.CompareNatural(p[0], p[1]), mstr.CompareNatural(strings.Clone(p[0]), strings.Clone(p[1])); got != want {
						c.Fail(map[string]any{"a": fw.Q(p[0]), "b": fw.Q(p[1]), "both_are_windows_of": fw.Q(s)}, "CompareNatural = %d on two windows of one string, %d on copies of them", got, want)
						return
					}
				}
			}
		}
		c.Step()
	}
	c.Add("natural_pairs_sharing_storage", n)
}

func runC20(c *fw.Ctx) {
	if c.Begin(1<<22 + 64 + c.Block) {
		ok, pv, stack := fw.Try(func() { c20shared(c) })
		if !ok {
			c.FailKind("panic", map[string]any{"phase": "strings sharing storage"}, "panic: %v\n%s", pv, stack)
		}
	}
	if (c.Flavour == "race" || c.Flavour == "plain") && c.Begin(1<<22+c.Block) {
		ok, pv, stack := fw.Try(func() { c20neighbours(c) })
		if !ok {
			c.FailKind("panic", map[string]any{"phase": "concurrent neighbours"}, "panic: %v\n%s", pv, stack)
		}
	}
	idx := 0
	sanit := c.Flavour == "race" || c.Flavour == "asan"
	// mbits exhaustive: lengths 0..16
	maxExh := c.Pick(16, 20)
	if sanit {
		maxExh = c.Pick(12, 16)
	}
	for n := 0; n <= maxExh; n++ {
		if !c.Begin(idx + n) {
			continue
		}
		var cnt, nt, un, ex int64
		for pat := uint64(c.Block); pat < 1<<uint(n); pat += uint64(c.NBlocks) {
			for align := 0; align < 8; align++ {
				for layout := 0; layout < 2; layout++ {
					c20mbits(c, n, align, pat, layout)
					cnt++
					if n >= 8 {
						nt++
						if align != 0 {
							un++
						}
					}
					if layout == 1 {
						ex++
					}
				}
			}
			if c.Stopped() {
				return
			}
		}
		c.Evals(cnt)
		c.Add("mbits_cases", cnt)
		c.Add("mbits_unaligned_word_cases", un)
		c.Add("mbits_exact_end_cases", ex)
		c.SeenEnum(nt)
	}
	idx += 100
	// mbits longer: structured + random patterns
	maxLen := c.Pick(40, 64)
	for n := 17; n <= maxLen; n++ {
		if (n-17)%c.NBlocks != c.Block {
			continue
		}
		if !c.Begin(idx + n) {
			continue
		}
		r := c.Rng()
		var pats []uint64
		full := uint64(1)<<uint(n) - 1
		pats = append(pats, 0, full, 1, 1<<uint(n-1), full&^1, full>>1)
		for i := 0; i < n; i++ {
			pats = append(pats, 1<<uint(i))         // single non-zero byte
			pats = append(pats, full&^(1<<uint(i))) // single zero byte
			pats = append(pats, full<<uint(i)&full) // zeros then non-zeros
			pats = append(pats, full>>uint(i))      // non-zeros then zeros
		}
		for i := 0; i < c.Pick(60, 400); i++ {
			pats = append(pats, r.Uint64()&r.Uint64()&full)
		}
		var cnt, un, ex int64
		for _, p := range pats {
			for align := 0; align < 8; align++ {
				for layout := 0; layout < 2; layout++ {
					c20mbits(c, n, align, p, layout)
					cnt++
					if align != 0 {
						un++
					}
					if layout == 1 {
						ex++
					}
				}
			}
		}
		c.Evals(cnt)
		c.Add("mbits_cases", cnt)
		c.Add("mbits_unaligned_word_cases", un)
		c.Add("mbits_exact_end_cases", ex)
		c.SeenEnum(cnt)
	}
	idx += 100
	// words that cancel: if the implementation combines several 64-bit words
	// before testing for zero (sum, xor, and/or trees in an unrolled loop), a
	// block can look all-zero although it is not. For every length 16..136,
	// every alignment and every pair/triple of word positions the words are
	// set to (x, -x), (x, x), (x, ^x+1...) and triples (x, y, -(x+y)).
	if c.Begin(idx + c.Block) {
		r := c.Rng()
		var cnt int64
		xs := []uint64{1, 0x80, 1 << 63, 0xff, ^uint64(0), 0x0100000000000000, 0x8000000000000080, 0x00ff00ff00ff00ff}
		put := func(v []byte, at int, x uint64) {
			for i := 0; i < 8 && at+i < len(v); i++ {
				if at+i >= 0 {
					v[at+i] = byte(x >> (8 * uint(i)))
				}
			}
		}
		for n := 16; n <= c.Pick(136, 264); n += 8 {
			if (n/8)%c.NBlocks != c.Block%min(c.NBlocks, 16) {
				continue
			}
			for align := 0; align < 8; align++ {
				// word boundaries as the implementation may see them: relative to the slice start, and relative to the 8-byte address grid
				for _, phase := range []int{0, (8 - align) % 8} {
					words := (n - phase) / 8
					for a := 0; a < words; a++ {
						for b := a + 1; b < words && b < a+9; b++ {
							x := xs[(a+b+n)%len(xs)]
							if r.IntN(3) == 0 {
								x = r.Uint64() | 1
							}
							for _, combo := range [][2]uint64{{x, -x}, {x, x}, {x, ^x}} {
								vals := make([]byte, n)
								put(vals, phase+8*a, combo[0])
								put(vals, phase+8*b, combo[1])
								c20mbitsVals(c, vals, align, int(cnt)%2, fmt.Sprintf("words %d and %d (from byte %d) hold %#x and %#x", a, b, phase, combo[0], combo[1]))
								cnt++
							}
							if b+1 < words {
								y := xs[(a+n)%len(xs)]
								vals := make([]byte, n)
								put(vals, phase+8*a, x)
								put(vals, phase+8*b, y)
								put(vals, phase+8*(b+1), -(x + y))
								c20mbitsVals(c, vals, align, int(cnt)%2, fmt.Sprintf("words %d, %d, %d hold x, y, -(x+y)", a, b, b+1))
								cnt++
							}
						}
					}
				}
			}
			if c.Stopped() {
				return
			}
		}
		c.Evals(cnt)
		c.Add("mbits_cases", cnt)
		c.Add("mbits_cancelling_word_cases", cnt)
		c.SeenEnum(cnt)
	}
	idx += 100
	// large buffers (thresholds in the thousands)
	if c.Begin(idx + c.Block) {
		r := c.Rng()
		var cnt int64
		for _, n := range []int{4095, 4096, 4097, 8191, 8200, 65536 + c.Block} {
			for k := 0; k < 3; k++ {
				vals := make([]byte, n)
				switch k {
				case 1:
					vals[r.IntN(n)] = byte(1 + r.IntN(255))
				case 2:
					for j := 0; j < 5; j++ {
						vals[r.IntN(n)] = byte(1 + r.IntN(255))
					}
				}
				c20mbitsVals(c, vals, (c.Block+k)%8, k%2, fmt.Sprintf("%d bytes, %d non-zero at random positions", n, []int{0, 1, 5}[k]))
				cnt++
			}
		}
		c.Evals(cnt)
		c.Add("mbits_cases", cnt)
		c.SeenEnum(cnt)
	}
	idx += 100
	if sanit {
		return // the sanitizer flavours are about mbits only
	}
	// Trunc: all strings of <= 5 runes over four rune widths
	runes := []string{"a", "é", "€", "😀"}
	if c.Begin(idx + c.Block) {
		var cases, inside int64
		code := 0
		for length := 0; length <= 5; length++ {
			total := 1
			for i := 0; i < length; i++ {
				total *= 4
			}
			for x := 0; x < total; x++ {
				code++
				if code%c.NBlocks != c.Block {
					continue
				}
				var sb strings.Builder
				y := x
				for i := 0; i < length; i++ {
					sb.WriteString(runes[y%4])
					y /= 4
				}
				in, cs := c20trunc(c, sb.String(), true)
				inside += in
				cases += cs
			}
		}
		// invalid byte strings: unconditional clauses only
		r := c.Rng()
		for i := 0; i < c.Pick(2000, 20000); i++ {
			b := make([]byte, r.IntN(12))
			for j := range b {
				b[j] = []byte{0x80, 0xbf, 0xc3, 0xe2, 0xf0, 0xff, 'a', 0x00}[r.IntN(8)]
			}
			_, cs := c20trunc(c, string(b), false)
			cases += cs
		}
		c.Evals(cases)
		c.Add("trunc_cases", cases)
		c.Add("trunc_cuts_inside_rune", inside)
		c.SeenEnum(inside)
		if c.WantSample() {
			c.Sample(map[string]any{"call": "Trunc(\"a€😀\", 5)", "result": fw.Q(mstr.Trunc("a€😀", 5))})
		}
	}
	idx += 100
	// CompareNatural: all strings of length <= 3 over 6 characters
	alpha := []string{"0", "1", "9", "/", ":", "a"}
	maxL := 3
	var strs []string
	var gen func(cur string)
	gen = func(cur string) {
		strs = append(strs, cur)
		if len(cur) == maxL {
			return
		}
		for _, a := range alpha {
			gen(cur + a)
		}
	}
	gen("")
	if c.Begin(idx + c.Block) {
		per := (len(strs) + c.NBlocks - 1) / c.NBlocks
		lo, hi := c.Block*per, min(len(strs), (c.Block+1)*per)
		if lo < hi {
			c20natural(c, strs, lo, hi)
		}
	}
	idx += 100
	if c.Thorough() {
		// length <= 4 over 5 characters (781 strings, 476 M triples)
		alpha = []string{"0", "1", "9", ":", "a"}
		maxL = 4
		strs = nil
		gen("")
		if c.Begin(idx + c.Block) {
			per := (len(strs) + c.NBlocks - 1) / c.NBlocks
			lo, hi := c.Block*per, min(len(strs), (c.Block+1)*per)
			if lo < hi {
				c20natural(c, strs, lo, hi)
			}
		}
	}
	idx += 100
	// shared prefixes of every length 0..40 (mixing digits, letters and
	// separators) followed by every pair of short tails: comparison against the
	// reference implementation, and antisymmetry
	if c.Begin(idx + 500000 + c.Block) {
		r := c.Rng()
		tails := []string{"", "0", "1", "2", "9", "00", "01", "10", "12", "x", "1x", "x1", "a", "/", ":", "0a", "a0", "19", "2a", "007"}
		var cnt int64
		for plen := c.Block; plen <= 40; plen += c.NBlocks {
			for rep := 0; rep < 12; rep++ {
				pb := make([]byte, plen)
				for i := range pb {
					pb[i] = "0123456789abcdefgh_-./:"[r.IntN(23)]
				}
				if rep%3 == 0 {
					for i := plen / 2; i < plen; i++ {
						pb[i] = byte('0' + r.IntN(10)) // the prefix ends inside a digit run
					}
				}
				P := string(pb)
				P = capDigitRuns(P, min(12, c20maxDigits-3)) // keep digit runs (with up to 3 more digits from the tails) short enough for int
				for _, t1 := range tails {
					for _, t2 := range tails {
						a, b := P+t1, P+t2
						got, rev := mstr.CompareNatural(a, b), mstr.CompareNatural(b, a)
						want, kind := refNaturalK(a, b)
						cnt++
						// antisymmetry always; the value itself where the statement fixes it
						// (equal up to leading zeros, or decided by two digit runs)
						if rev != -got || (kind <= 1 && got != want) {
							c.Fail(map[string]any{"a": fw.Q(a), "b": fw.Q(b)}, "CompareNatural(a,b)=%d, CompareNatural(b,a)=%d; digit runs compared by value give %d (decided by kind %d)", got, rev, want, kind)
							plen = 1000
							break
						}
					}
				}
				c.Step()
			}
		}
		c.Evals(cnt)
		c.Add("natural_prefix_pairs", cnt)
		c.SeenEnum(cnt)
	}
	nn := c.Pick(4000, 60000)
	for k := 0; k < nn; k++ {
		if !c.Begin(idx + k) {
			continue
		}
		c20numeric(c, c.Rng())
	}
	// huge strings with millions of alternating digit and text runs (16 MB; 4 MB
	// in the 32-bit build), equal up to leading zeros or differing only at the
	// very end: whatever CompareNatural does per run is multiplied by millions
	if (c.Flavour == "plain" || c.Flavour == "386") && c.Block < 3 && c.Begin(idx+nn+50+c.Block) {
		reps := 4 << 20
		if strconv.IntSize == 32 {
			reps = 1 << 20
		}
		unit := []string{"a1", "x07/", "9:"}[c.Block]
		base := strings.Repeat(unit, reps)
		zeroed := strings.Repeat(strings.Replace(unit, "1", "01", 1), reps)
		c.Call("mstr.CompareNatural on strings of %d bytes made of %q repeated", len(base), unit)
		ok, pv, stack := fw.Try(func() {
			for _, pr := range [][2]string{{base, base}, {base + "5", base + "6"}, {base + "10", base + "9"}, {base, zeroed}, {base + "b", base + "a"}, {base, base[:len(base)-len(unit)]}} {
				got, rev := mstr.CompareNatural(pr[0], pr[1]), mstr.CompareNatural(pr[1], pr[0])
				want, kind := refNaturalK(pr[0], pr[1])
				if got != -rev || got < -1 || got > 1 || (kind <= 1 && got != want) || ((got == 0) != (canonDigits(pr[0]) == canonDigits(pr[1]))) {
					c.Fail(map[string]any{"a": fmt.Sprintf("%q x %d + %q", unit, reps, pr[0][min(len(pr[0]), len(base)):]), "b": fmt.Sprintf("%d bytes, tail %q", len(pr[1]), pr[1][max(0, len(pr[1])-6):])}, "CompareNatural(a,b)=%d, CompareNatural(b,a)=%d, the reference gives %d (kind %d)", got, rev, want, kind)
					return
				}
			}
		})
		if !ok {
			c.FailKind("panic", map[string]any{"bytes": len(base), "unit": unit}, "panic: %v\n%s", pv, stack)
		}
		c.Add("natural_huge_strings", 1)
	}
	// every rune of the Basic Multilingual Plane (and a stride beyond) next to
	// digit runs: after a run, before a run, between two runs, and as the whole
	// text part; also every single byte value in the same places
	if c.Flavour != "race" && c.Begin(idx+nn+100+c.Block) {
		var cnt int64
		try := func(u string) bool {
			for _, pr := range [][2]string{
				{"5" + u, "6"}, {"5" + u, "1075"}, {"5" + u, "05" + u}, {u + "5", u + "6"}, {u + "10", u + "9"}, {u + "007", u + "7"},
				{"a" + u + "12", "a" + u + "3"}, {"3" + u + "12", "3" + u + "3"}, {"12" + u, "12" + u + "0"}, {u, u + "0"}, {u + "1", u + "01"}, {"9" + u + "9", "9" + u + "10"},
			} {
				cnt++
				if !c20pair(c, pr[0], pr[1]) {
					return false
				}
			}
			return true
		}
		for b := c.Block; b < 256; b += c.NBlocks {
			if (b < '0' || b > '9') && !try(string([]byte{byte(b)})) {
				return
			}
		}
		for cp := 0x80 + c.Block; cp <= 0x10FFFF; cp += c.NBlocks {
			if cp >= 0xD800 && cp <= 0xDFFF || (cp > 0xFFFF && (cp/c.NBlocks)%97 != 0) {
				continue
			}
			if !try(string(rune(cp))) {
				return
			}
		}
		c.Add("natural_rune_next_to_digits_pairs", cnt)
		c.Evals(cnt)
		c.SeenEnum(cnt)
	}
}
