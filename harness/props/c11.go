//go:build pC11 || pall

package props

import (
	"fmt"
	"math/rand/v2"

	"github.com/creachadair/mds/slice"
	"verif/harness/fw"
)

// C11 — slice.EditScript is a valid, minimal, canonical edit script.
// Oracles: (a) an interpreter that executes the edits against lhs and rhs by
// offset and by address, (b) an independent quadratic LCS table for
// minimality, (c) canonical-form checks, (d) inputs unmodified.

func init() {
	fw.Register(&fw.Property{
		ID: "C11",
		Meta: func(tier string) fw.Meta {
			return fw.Meta{
				Flavours: []string{"plain", "cover"},
				Blocks:   16,
				Procs:    16,
				Rule: "case = pair (lhs, rhs) of int sequences. Exhaustive: every pair over alphabet 3 x length <= 7 (10,758,400 pairs), alphabet 2 x length <= 9 (1,046,529 pairs) and alphabet 4 x length <= 5 (1,863,225 pairs) in quick; additionally alphabet 2 x length <= 11, alphabet 3 x length <= 8 (96.8 M pairs) and alphabet 5 x length <= 5 in thorough; every pair of windows (prefix/prefix, window/prefix, suffix/prefix) of one shared backing array of up to 9 binary elements (inputs that alias each other); random pairs of length up to 400 made of long common runs with point mutations, insertions, deletions and block moves over alphabets of 2..50 symbols. " +
					"Per pair: interpreter (each edit's X and Y are the spans of lhs and rhs at the current offsets, by value and by address; lhs consumed and rhs produced exactly), emitted element count == LCS length from an independent O(mn) table, canonical form (no empty edit, adjacent edits differ in kind, no Drop next to Copy, only the four opcodes, empty iff equal), inputs unmodified. " +
					"distinct = the pair itself (enumerated without repetition; random pairs by hash); non-trivial = the pair has more than one optimal alignment (counted by a separate DP)",
				Required:     []string{"pairs", "ambiguous_pairs", "replace_edits", "equal_pairs", "random_pairs", "aliased_pairs"},
				Exhaustive:   true,
				Assumptions:  []string{"the O(mn) LCS table is the reference for minimality"},
				CoverPkgs:    []string{"github.com/creachadair/mds/slice"},
				CoverAnchors: []string{"slice/edit.go:EditScript", "slice/edit.go:editScriptFunc", "slice/edit.go:LCSFunc", "slice/edit.go:equal"},
			}
		},
		Run: runC11,
	})
}

// lcsTable returns the LCS length of a and b and (saturating) the number of
// optimal alignments.
func lcsTable(a, b []int) (length int, ways int64) {
	m, n := len(a), len(b)
	L := make([][]int32, m+1)
	W := make([][]int64, m+1)
	for i := range L {
		L[i] = make([]int32, n+1)
		W[i] = make([]int64, n+1)
		W[i][0] = 1
	}
	for j := range W[0] {
		W[0][j] = 1
	}
	const sat = int64(1) << 40
	for i := 1; i <= m; i++ {
		for j := 1; j <= n; j++ {
			best := L[i-1][j]
			if L[i][j-1] > best {
				best = L[i][j-1]
			}
			match := a[i-1] == b[j-1]
			if match && L[i-1][j-1]+1 > best {
				best = L[i-1][j-1] + 1
			}
			L[i][j] = best
			var w int64
			if match && L[i-1][j-1]+1 == best {
				w += W[i-1][j-1]
			}
			if L[i-1][j] == best {
				w += W[i-1][j]
			}
			if L[i][j-1] == best {
				w += W[i][j-1]
			}
			if L[i-1][j] == best && L[i][j-1] == best && L[i-1][j-1] == best {
				w -= W[i-1][j-1]
			}
			if w > sat {
				w = sat
			}
			W[i][j] = w
		}
	}
	return int(L[m][n]), W[m][n]
}

func editsString(es []slice.Edit[int]) string {
	return fmt.Sprint(es)
}

// c11check runs every oracle on one pair and returns (ambiguous, replaceCount).
func c11check(c *fw.Ctx, lhs, rhs []int) (bool, int) {
	l0 := append([]int(nil), lhs...)
	r0 := append([]int(nil), rhs...)
	var es []slice.Edit[int]
	caseData := func() map[string]any { return map[string]any{"lhs": l0, "rhs": r0, "script": editsString(es)} }
	ok, pv, stack := fw.Try(func() { es = slice.EditScript(lhs, rhs) })
	c.Step()
	if !ok {
		c.FailKind("panic", caseData(), "EditScript panicked: %v\n%s", pv, stack)
		return false, 0
	}
	if !equalInts(lhs, l0) || !equalInts(rhs, r0) {
		c.Fail(caseData(), "EditScript modified its inputs: lhs=%v rhs=%v", lhs, rhs)
		return false, 0
	}
	want, ways := lcsTable(lhs, rhs)
	equal := equalInts(lhs, rhs)
	if equal != (len(es) == 0) {
		c.Fail(caseData(), "script empty=%v but inputs equal=%v", len(es) == 0, equal)
		return ways > 1, 0
	}
	if len(es) == 0 {
		return ways > 1, 0
	}
	lpos, rpos, kept, nrep := 0, 0, 0, 0
	span := func(x []int, base []int, pos int, what string, i int) bool {
		if pos+len(x) > len(base) {
			c.Fail(caseData(), "edit %d: %s has %d elements but only %d remain at offset %d", i, what, len(x), len(base)-pos, pos)
			return false
		}
		if !equalInts(x, base[pos:pos+len(x)]) {
			c.Fail(caseData(), "edit %d: %s=%v is not the span %v at offset %d", i, what, x, base[pos:pos+len(x)], pos)
			return false
		}
		if len(x) > 0 && &x[0] != &base[pos] {
			c.Fail(caseData(), "edit %d: %s does not share storage with the input at offset %d", i, what, pos)
			return false
		}
		return true
	}
	for i, e := range es {
		if i > 0 && es[i-1].Op == e.Op {
			c.Fail(caseData(), "edits %d and %d have the same kind %c", i-1, i, e.Op)
			return ways > 1, nrep
		}
		if i > 0 {
			p, q := es[i-1].Op, e.Op
			if p != slice.OpEmit && q != slice.OpEmit {
				c.Fail(caseData(), "edits %d (%c) and %d (%c) are adjacent without being fused", i-1, p, i, q)
				return ways > 1, nrep
			}
		}
		switch e.Op {
		case slice.OpEmit:
			if len(e.X) == 0 || len(e.Y) != 0 {
				c.Fail(caseData(), "edit %d: Emit with %d X and %d Y elements", i, len(e.X), len(e.Y))
				return ways > 1, nrep
			}
			if !span(e.X, lhs, lpos, "Emit.X", i) {
				return ways > 1, nrep
			}
			if rpos+len(e.X) > len(rhs) || !equalInts(e.X, rhs[rpos:rpos+len(e.X)]) {
				c.Fail(caseData(), "edit %d: Emit %v does not produce the next elements of rhs at offset %d", i, e.X, rpos)
				return ways > 1, nrep
			}
			lpos += len(e.X)
			rpos += len(e.X)
			kept += len(e.X)
		case slice.OpDrop:
			if len(e.X) == 0 || len(e.Y) != 0 {
				c.Fail(caseData(), "edit %d: Drop with %d X and %d Y elements", i, len(e.X), len(e.Y))
				return ways > 1, nrep
			}
			if !span(e.X, lhs, lpos, "Drop.X", i) {
				return ways > 1, nrep
			}
			lpos += len(e.X)
		case slice.OpCopy:
			if len(e.Y) == 0 || len(e.X) != 0 {
				c.Fail(caseData(), "edit %d: Copy with %d X and %d Y elements", i, len(e.X), len(e.Y))
				return ways > 1, nrep
			}
			if !span(e.Y, rhs, rpos, "Copy.Y", i) {
				return ways > 1, nrep
			}
			rpos += len(e.Y)
		case slice.OpReplace:
			nrep++
			if len(e.X) == 0 || len(e.Y) == 0 {
				c.Fail(caseData(), "edit %d: Replace with %d X and %d Y elements", i, len(e.X), len(e.Y))
				return ways > 1, nrep
			}
			if !span(e.X, lhs, lpos, "Replace.X", i) || !span(e.Y, rhs, rpos, "Replace.Y", i) {
				return ways > 1, nrep
			}
			lpos += len(e.X)
			rpos += len(e.Y)
		default:
			c.Fail(caseData(), "edit %d has unknown opcode %q", i, e.Op)
			return ways > 1, nrep
		}
	}
	if lpos != len(lhs) || rpos != len(rhs) {
		c.Fail(caseData(), "script consumes %d of %d lhs elements and produces %d of %d rhs elements", lpos, len(lhs), rpos, len(rhs))
		return ways > 1, nrep
	}
	if kept != want {
		c.Fail(caseData(), "script keeps %d elements but a longest common subsequence has %d: not minimal", kept, want)
	}
	return ways > 1, nrep
}

// seqOf decodes the idx-th sequence (in length-then-lexicographic order) over
// an alphabet of size a.
func seqOf(idx, a int) []int {
	l := 0
	block := 1
	for idx >= block {
		idx -= block
		block *= a
		l++
	}
	s := make([]int, l)
	for i := l - 1; i >= 0; i-- {
		s[i] = idx % a
		idx /= a
	}
	return s
}

func countSeqs(a, maxLen int) int {
	n, p := 0, 1
	for l := 0; l <= maxLen; l++ {
		n += p
		p *= a
	}
	return n
}

func runC11(c *fw.Ctx) {
	idx := 0
	type space struct{ a, maxLen int }
	spaces := []space{{3, 7}, {2, 9}, {4, 5}}
	if c.Thorough() {
		spaces = append(spaces, space{2, 11}, space{3, 8}, space{5, 5})
	}
	for _, sp := range spaces {
		n := countSeqs(sp.a, sp.maxLen)
		for li := c.Block; li < n; li += c.NBlocks {
			if !c.Begin(idx + li) {
				continue
			}
			lhsProto := seqOf(li, sp.a)
			var amb, pairs, reps, eq int64
			for ri := 0; ri < n; ri++ {
				lhs := append(make([]int, 0, len(lhsProto)+2), lhsProto...)
				rhs := seqOf(ri, sp.a)
				a, nrep := c11check(c, lhs, rhs)
				pairs++
				if a {
					amb++
				}
				reps += int64(nrep)
				if li == ri {
					eq++
				}
				if c.WantSample() && a && len(lhs) >= 4 && len(rhs) >= 4 && (li+ri)%977 == 0 {
					es := slice.EditScript(lhs, rhs)
					c.Sample(map[string]any{"lhs": lhs, "rhs": rhs, "script": editsString(es)})
				}
			}
			c.Evals(pairs - 1)
			c.Add("pairs", pairs)
			c.Add("ambiguous_pairs", amb)
			c.Add("replace_edits", reps)
			c.Add("equal_pairs", eq)
			c.SeenEnum(amb)
			if c.Stopped() {
				return
			}
		}
		idx += n
	}
	// inputs that share storage: prefixes, suffixes and overlapping windows of one backing array
	if c.Begin(idx + 900000 + c.Block) {
		var n int64
		for total := 1; total <= 9; total++ {
			buf := make([]int, total)
			for code := c.Block; code < 1<<uint(total); code += c.NBlocks {
				for i := range buf {
					buf[i] = code >> uint(i) & 1
				}
				for a := 0; a <= total; a++ {
					for b := a; b <= total; b++ {
						// windows [0:b) vs [0:a) (same start), [a:b) vs [0:b), [a:total) vs [0:b)
						for _, pr := range [][2][]int{{buf[:b], buf[:a]}, {buf[:a], buf[:b]}, {buf[a:b], buf[:b]}, {buf[a:], buf[:b]}, {buf[:b:b], buf[a:]}} {
							am, _ := c11check(c, pr[0], pr[1])
							n++
							_ = am
						}
					}
				}
			}
		}
		c.Evals(n)
		c.Add("pairs", n)
		c.Add("aliased_pairs", n)
		c.SeenEnum(n)
	}
	// random long pairs
	nr := c.Pick(150, 3000)
	for k := 0; k < nr; k++ {
		if !c.Begin(idx + k) {
			continue
		}
		r := c.Rng()
		lhs, rhs := c11randomPair(r)
		a, nrep := c11check(c, lhs, rhs)
		c.Add("pairs", 1)
		c.Add("random_pairs", 1)
		c.Add("replace_edits", int64(nrep))
		if a {
			c.Add("ambiguous_pairs", 1)
			h := fw.NewH()
			h.Ints(lhs)
			h.Ints(rhs)
			c.Seen(h.Sum())
		}
	}
}

func c11randomPair(r *rand.Rand) (lhs, rhs []int) {
	alpha := []int{2, 3, 5, 12, 50}[r.IntN(5)]
	n := 1 + r.IntN(400)
	lhs = make([]int, n)
	for i := range lhs {
		if i > 0 && r.IntN(3) == 0 {
			lhs[i] = lhs[i-1] // runs of repeats
		} else {
			lhs[i] = r.IntN(alpha)
		}
	}
	rhs = append([]int(nil), lhs...)
	muts := r.IntN(12)
	for m := 0; m < muts && len(rhs) > 0; m++ {
		p := r.IntN(len(rhs))
		switch r.IntN(5) {
		case 0: // point mutation
			rhs[p] = r.IntN(alpha)
		case 1: // insertion of a short run
			ins := make([]int, 1+r.IntN(5))
			for i := range ins {
				ins[i] = r.IntN(alpha)
			}
			rhs = append(rhs[:p:p], append(ins, rhs[p:]...)...)
		case 2: // deletion
			q := min(len(rhs), p+1+r.IntN(6))
			rhs = append(rhs[:p:p], rhs[q:]...)
		case 3: // block move
			q := min(len(rhs), p+1+r.IntN(10))
			blk := append([]int(nil), rhs[p:q]...)
			rest := append(rhs[:p:p], rhs[q:]...)
			at := 0
			if len(rest) > 0 {
				at = r.IntN(len(rest) + 1)
			}
			rhs = append(rest[:at:at], append(blk, rest[at:]...)...)
		case 4: // duplicate a block in place
			q := min(len(rhs), p+1+r.IntN(6))
			blk := append([]int(nil), rhs[p:q]...)
			rhs = append(rhs[:q:q], append(blk, rhs[q:]...)...)
		}
	}
	if r.IntN(2) == 0 {
		lhs, rhs = rhs, lhs
	}
	return lhs, rhs
}
