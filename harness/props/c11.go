//go:build pC11 || pall

package props

import (
	"fmt"
	"math/rand/v2"
	"runtime"
	"slices"

	"github.com/creachadair/mds/slice"
	"verif/harness/fw"
)

// C11 — slice.EditScript is a valid, minimal, canonical edit script.
// Oracles: (a) an interpreter that executes the edits against lhs and rhs by
// offset and by address, (b) an independent quadratic LCS table for
// minimality, (c) canonical-form checks, (d) inputs unmodified.

func init() {
	fw.Register(&fw.Property{
		ID: "C11",
		Meta: func(tier string) fw.Meta {
			return fw.Meta{
				Flavours: []string{"plain", "race", "cover", "386"},
				Blocks:   16,
				Procs:    16,
				Rule: "case = pair (lhs, rhs) of int sequences. Exhaustive: every pair over alphabet 3 x length <= 7 (10,758,400 pairs), alphabet 2 x length <= 9 (1,046,529 pairs) and alphabet 4 x length <= 5 (1,863,225 pairs) in quick; additionally alphabet 2 x length <= 11, alphabet 3 x length <= 8 (96.8 M pairs) and alphabet 5 x length <= 5 in thorough; every pair of windows (prefix/prefix, window/prefix, suffix/prefix) of one shared backing array of up to 9 binary elements (inputs that alias each other); pairs of 4100..11700 elements (length products past 2^24..2^27: a repeated block removed, scattered edits); two pairs of 65545 and 66000 pairwise different elements with fresh values substituted at 8 and 66 positions (common subsequence longer than 2^16, optimum known by construction); wrap-around schedules (a larger call, exactly N one-element calls for N around 2^8, 2^9, 2^16, 2^17, then a larger call on unrelated content, all on one P); random pairs of length up to 400 made of long common runs with point mutations, insertions, deletions and block moves over alphabets of 2..50 symbols. " +
					"Per pair: interpreter (each edit's X and Y are the spans of lhs and rhs at the current offsets, by value and by address; lhs consumed and rhs produced exactly), emitted element count == LCS length from an independent O(mn) table, canonical form (no empty edit, adjacent edits differ in kind, no Drop next to Copy, only the four opcodes, empty iff equal), inputs unmodified; a sample of returned scripts is kept and verified again after later calls; 8 goroutines call EditScript concurrently on unshared inputs (plain and under -race); interleaved with all of it, calls that fail half-way and are recovered by the caller (uncomparable interface elements compared with ==, a panicking equality function), so that every verified call also runs right after a failed one. " +
					"Element types whose == is not reflexive (floats holding NaN, structs and arrays of them; +0 and -0): two unrelated slices, the same slice as both arguments, windows of one backing array; the result must be the one the int instantiation gives on codes that are equal exactly where the elements are ==. " +
					"Pairs that differ by exactly one substitution, insertion or deletion at the first, second, middle, last-but-one and last position, for 39 lengths from 1 to 5000. " +
					"distinct = the pair itself (enumerated without repetition; random pairs by hash); non-trivial = the pair has more than one optimal alignment (counted by a separate DP)",
				Required:     []string{"pairs", "ambiguous_pairs", "replace_edits", "equal_pairs", "random_pairs", "aliased_pairs", "concurrent_calls", "kept_results_rechecked", "interface_element_cases", "non_reflexive_element_cases", "single_point_edit_pairs", "abandoned_calls", "very_large_pairs", "wraparound_schedules", "subsequence_boundary_pairs", "common_subsequence_beyond_2_to_the_16_pairs"},
				Exhaustive:   true,
				Assumptions:  []string{"the O(mn) LCS table is the reference for minimality"},
				CoverPkgs:    []string{"github.com/creachadair/mds/slice"},
				CoverAnchors: []string{"slice/edit.go:EditScript", "slice/edit.go:editScriptFunc", "slice/edit.go:LCSFunc", "slice/edit.go:equal"},
			}
		},
		Run: runC11,
	})
}

// lcsTable returns the LCS length of a and b and (saturating) the number of
// optimal alignments.
func lcsTable(a, b []int) (length int, ways int64) {
	m, n := len(a), len(b)
	// two rolling rows of the table (the full table of an 11 700 x 11 700 pair would take 1.6 GB)
	Lp, Lc := make([]int32, n+1), make([]int32, n+1)
	Wp, Wc := make([]int64, n+1), make([]int64, n+1)
	for j := range Wp {
		Wp[j] = 1
	}
	const sat = int64(1) << 40
	for i := 1; i <= m; i++ {
		Lc[0], Wc[0] = 0, 1
		for j := 1; j <= n; j++ {
			best := Lp[j]
			if Lc[j-1] > best {
				best = Lc[j-1]
			}
			match := a[i-1] == b[j-1]
			if match && Lp[j-1]+1 > best {
				best = Lp[j-1] + 1
			}
			Lc[j] = best
			var w int64
			if match && Lp[j-1]+1 == best {
				w += Wp[j-1]
			}
			if Lp[j] == best {
				w += Wp[j]
			}
			if Lc[j-1] == best {
				w += Wc[j-1]
			}
			if Lp[j] == best && Lc[j-1] == best && Lp[j-1] == best {
				w -= Wp[j-1]
			}
			if w > sat {
				w = sat
			}
			Wc[j] = w
		}
		Lp, Lc = Lc, Lp
		Wp, Wc = Wc, Wp
	}
	return int(Lp[n]), Wp[n]
}

func editsString(es []slice.Edit[int]) string {
	return fmt.Sprint(es)
}

// c11verify decides whether es is a valid, minimal, canonical script from lhs
// to rhs; it returns "" or a description of the first problem, and the number
// of Replace edits. It touches nothing but its arguments, so it can be used
// from several goroutines.
func c11verify(lhs, rhs []int, es []slice.Edit[int]) (problem string, nrep int) {
	problem, nrep, _ = c11verifyW(lhs, rhs, es)
	return
}

func c11verifyW(lhs, rhs []int, es []slice.Edit[int]) (problem string, nrep int, ways int64) {
	want, ways := lcsTable(lhs, rhs)
	return c11verifyCore(lhs, rhs, es, want, ways)
}

// c11verifyCore checks a script against the inputs and a known length of a
// longest common subsequence (from lcsTable, or known by construction).
func c11verifyCore(lhs, rhs []int, es []slice.Edit[int], want int, ways int64) (problem string, nrep int, _ int64) {
	equal := equalInts(lhs, rhs)
	if equal != (len(es) == 0) {
		return fmt.Sprintf("script empty=%v but inputs equal=%v", len(es) == 0, equal), 0, ways
	}
	if len(es) == 0 {
		return "", 0, ways
	}
	lpos, rpos, kept := 0, 0, 0
	span := func(x []int, base []int, pos int, what string, i int) string {
		if pos+len(x) > len(base) {
			return fmt.Sprintf("edit %d: %s has %d elements but only %d remain at offset %d", i, what, len(x), len(base)-pos, pos)
		}
		if !equalInts(x, base[pos:pos+len(x)]) {
			return fmt.Sprintf("edit %d: %s=%v is not the span %v at offset %d", i, what, x, base[pos:pos+len(x)], pos)
		}
		if len(x) > 0 && &x[0] != &base[pos] {
			return fmt.Sprintf("edit %d: %s does not share storage with the input at offset %d", i, what, pos)
		}
		return ""
	}
	for i, e := range es {
		if i > 0 && es[i-1].Op == e.Op {
			return fmt.Sprintf("edits %d and %d have the same kind %c", i-1, i, e.Op), nrep, ways
		}
		if i > 0 {
			if p, q := es[i-1].Op, e.Op; p != slice.OpEmit && q != slice.OpEmit {
				return fmt.Sprintf("edits %d (%c) and %d (%c) are adjacent without being fused", i-1, p, i, q), nrep, ways
			}
		}
		switch e.Op {
		case slice.OpEmit:
			if len(e.X) == 0 || len(e.Y) != 0 {
				return fmt.Sprintf("edit %d: Emit with %d X and %d Y elements", i, len(e.X), len(e.Y)), nrep, ways
			}
			if pr := span(e.X, lhs, lpos, "Emit.X", i); pr != "" {
				return pr, nrep, ways
			}
			if rpos+len(e.X) > len(rhs) || !equalInts(e.X, rhs[rpos:rpos+len(e.X)]) {
				return fmt.Sprintf("edit %d: Emit %v does not produce the next elements of rhs at offset %d", i, e.X, rpos), nrep, ways
			}
			lpos += len(e.X)
			rpos += len(e.X)
			kept += len(e.X)
		case slice.OpDrop:
			if len(e.X) == 0 || len(e.Y) != 0 {
				return fmt.Sprintf("edit %d: Drop with %d X and %d Y elements", i, len(e.X), len(e.Y)), nrep, ways
			}
			if pr := span(e.X, lhs, lpos, "Drop.X", i); pr != "" {
				return pr, nrep, ways
			}
			lpos += len(e.X)
		case slice.OpCopy:
			if len(e.Y) == 0 || len(e.X) != 0 {
				return fmt.Sprintf("edit %d: Copy with %d X and %d Y elements", i, len(e.X), len(e.Y)), nrep, ways
			}
			if pr := span(e.Y, rhs, rpos, "Copy.Y", i); pr != "" {
				return pr, nrep, ways
			}
			rpos += len(e.Y)
		case slice.OpReplace:
			nrep++
			if len(e.X) == 0 || len(e.Y) == 0 {
				return fmt.Sprintf("edit %d: Replace with %d X and %d Y elements", i, len(e.X), len(e.Y)), nrep, ways
			}
			if pr := span(e.X, lhs, lpos, "Replace.X", i); pr != "" {
				return pr, nrep, ways
			}
			if pr := span(e.Y, rhs, rpos, "Replace.Y", i); pr != "" {
				return pr, nrep, ways
			}
			lpos += len(e.X)
			rpos += len(e.Y)
		default:
			return fmt.Sprintf("edit %d has unknown opcode %q", i, e.Op), nrep, ways
		}
	}
	if lpos != len(lhs) || rpos != len(rhs) {
		return fmt.Sprintf("script consumes %d of %d lhs elements and produces %d of %d rhs elements", lpos, len(lhs), rpos, len(rhs)), nrep, ways
	}
	if kept != want {
		return fmt.Sprintf("script keeps %d elements but a longest common subsequence has %d: not minimal", kept, want), nrep, ways
	}
	return "", nrep, ways
}

// c11kept remembers a few earlier results so that they can be verified again
// after later calls (a result must not change once it has been returned).
type c11keptT struct {
	lhs, rhs []int
	es       []slice.Edit[int]
}

var c11kept []c11keptT

// c11keepOK is false while the inputs are windows of a buffer that the
// harness itself rewrites for the next case (such results cannot be kept).
var c11keepOK = true

func c11recheckKept(c *fw.Ctx) {
	for _, k := range c11kept {
		c.Add("kept_results_rechecked", 1)
		if pr, _ := c11verify(k.lhs, k.rhs, k.es); pr != "" {
			c.Fail(map[string]any{"lhs": k.lhs, "rhs": k.rhs, "script_now": editsString(k.es)}, "a script returned earlier is no longer valid after later calls to EditScript: %s", pr)
			break
		}
	}
	c11kept = c11kept[:0]
}

// c11check runs every oracle on one pair and returns (ambiguous, replaceCount).
func c11check(c *fw.Ctx, lhs, rhs []int) (bool, int) {
	l0 := append([]int(nil), lhs...)
	r0 := append([]int(nil), rhs...)
	var es []slice.Edit[int]
	caseData := func() map[string]any { return map[string]any{"lhs": l0, "rhs": r0, "script": editsString(es)} }
	ok, pv, stack := fw.Try(func() { es = slice.EditScript(lhs, rhs) })
	c.Step()
	if !ok {
		c.FailKind("panic", caseData(), "EditScript panicked: %v\n%s", pv, stack)
		return false, 0
	}
	if !equalInts(lhs, l0) || !equalInts(rhs, r0) {
		c.Fail(caseData(), "EditScript modified its inputs: lhs=%v rhs=%v", lhs, rhs)
		return false, 0
	}
	pr, nrep, ways := c11verifyW(lhs, rhs, es)
	if pr != "" {
		c.Fail(caseData(), "%s", pr)
		return ways > 1, nrep
	}
	if c11keepOK && len(es) > 0 && (len(c11kept) < 64) && (len(lhs)+len(rhs))%5 == 0 {
		c11kept = append(c11kept, c11keptT{lhs, rhs, es})
	}
	if len(c11kept) >= 64 {
		c11recheckKept(c)
	}
	return ways > 1, nrep
}

// seqOf decodes the idx-th sequence (in length-then-lexicographic order) over
// an alphabet of size a.
func seqOf(idx, a int) []int {
	l := 0
	block := 1
	for idx >= block {
		idx -= block
		block *= a
		l++
	}
	s := make([]int, l)
	for i := l - 1; i >= 0; i-- {
		s[i] = idx % a
		idx /= a
	}
	return s
}

func countSeqs(a, maxLen int) int {
	n, p := 0, 1
	for l := 0; l <= maxLen; l++ {
		n += p
		p *= a
	}
	return n
}

// c11concurrent: EditScript is a pure function, so goroutines calling it on
// unshared inputs must each get a correct script (also run under -race).
func c11concurrent(c *fw.Ctx, base int) {
	rounds := c.Pick(4, 40)
	for k := 0; k < rounds; k++ {
		if !c.Begin(base + k) {
			continue
		}
		seed := c.Rng().Uint64()
		msg := concurrently(8, seed, func(g int, r *rand.Rand) string {
			for i := 0; i < 300; i++ {
				var lhs, rhs []int
				if i%3 == 0 {
					lhs, rhs = c11randomPair(r)
					if len(lhs) > 120 {
						lhs = lhs[:120]
					}
					if len(rhs) > 120 {
						rhs = rhs[:120]
					}
				} else {
					lhs, rhs = seqOf(r.IntN(1000), 3), seqOf(r.IntN(1000), 3)
				}
				es := slice.EditScript(lhs, rhs)
				if pr, _ := c11verify(lhs, rhs, es); pr != "" {
					return fmt.Sprintf("goroutine %d: EditScript(%v, %v) = %v: %s", g, lhs, rhs, es, pr)
				}
				c.Step()
			}
			return ""
		})
		c.Add("concurrent_calls", 8*300)
		if msg != "" {
			c.Fail(map[string]any{"phase": "8 goroutines calling EditScript on unshared inputs"}, "%s", msg)
		}
	}
}

// c11anyElems: EditScript instantiated with interface-typed elements, one of
// which holds a value (a slice) that is comparable with values of other types
// but cannot be hashed; the script must have the same shape as the script of
// the int instantiation on the corresponding codes.
func c11anyElems(c *fw.Ctx) {
	vals := []any{"a", "b", 7, 2.5, []int{1}, struct{ X int }{3}}
	r := c.Rng()
	for k := 0; k < 300; k++ {
		mk := func(allowSlice bool) ([]int, []any) {
			n := r.IntN(7)
			codes := make([]int, n)
			out := make([]any, n)
			for i := range codes {
				codes[i] = r.IntN(len(vals))
				if codes[i] == 4 && !allowSlice {
					codes[i] = 0
				}
				out[i] = vals[codes[i]]
			}
			return codes, out
		}
		ca, a := mk(true)
		cb, b := mk(false) // the unhashable value occurs in one input only, so it is never compared with itself
		want := slice.EditScript(ca, cb)
		var got []slice.Edit[any]
		ok, pv, stack := fw.Try(func() { got = slice.EditScript(a, b) })
		c.Add("interface_element_cases", 1)
		data := map[string]any{"lhs_codes": ca, "rhs_codes": cb, "values": fmt.Sprint(vals)}
		if !ok {
			c.FailKind("panic", data, "EditScript on interface-typed elements (one holds a slice) panicked: %v\n%s", pv, stack)
			return
		}
		same := len(got) == len(want)
		for i := 0; same && i < len(got); i++ {
			same = got[i].Op == want[i].Op && len(got[i].X) == len(want[i].X) && len(got[i].Y) == len(want[i].Y)
		}
		if !same {
			c.Fail(data, "EditScript on interface-typed elements gives %v, the int instantiation on the same codes gives %v", got, want)
			return
		}
	}
}

// c11floatElems: EditScript on element types whose == is not reflexive (NaN),
// given as unrelated slices, as the same slice twice and as windows of one
// array; the script must have the shape of the int instantiation on codes that
// are equal exactly where the elements are ==.
func c11floatElems(c *fw.Ctx) {
	r := c.Rng()
	for k := 0; k < 240; k++ {
		p := nrPairOf(r, k)
		want := slice.EditScript(p.CA, p.CB)
		data := map[string]any{"lhs": nrShow(p.A), "rhs": nrShow(p.B), "arguments": p.How}
		c.Add("non_reflexive_element_cases", 1)
		var got []slice.Edit[float64]
		ok, pv, stack := fw.Try(func() { got = slice.EditScript(p.A, p.B) })
		c.Step()
		if !ok {
			c.FailKind("panic", data, "EditScript on float elements panicked: %v\n%s", pv, stack)
			return
		}
		same := len(got) == len(want)
		for i := 0; same && i < len(got); i++ {
			same = got[i].Op == want[i].Op && len(got[i].X) == len(want[i].X) && len(got[i].Y) == len(want[i].Y)
		}
		if !same {
			c.Fail(data, "EditScript on []float64 gives %v; the int instantiation on codes that are equal exactly where the floats are == (NaN equals nothing) gives %v", got, want)
			return
		}
	}
}

// c11pointEdits: pairs that differ by exactly one substitution, insertion or
// deletion at the first, second, middle, last-but-one or last position, for a
// spread of lengths up to several thousand.
func c11pointEdits(c *fw.Ctx, base int) {
	lens := []int{1, 2, 3, 7, 8, 31, 32, 33, 63, 64, 65, 100, 127, 128, 129, 255, 256, 257, 300, 500, 511, 512, 513, 999, 1000, 1001, 1023, 1024, 1025, 1500, 2000, 2047, 2048, 2049, 3000, 4095, 4096, 4097, 5000}
	for li, n := range lens {
		if li%c.NBlocks != c.Block {
			continue
		}
		if !c.Begin(base + li) {
			continue
		}
		r := c.Rng()
		lhs := make([]int, n)
		alpha := []int{2, 10, 1 << 20}[li%3]
		for i := range lhs {
			lhs[i] = r.IntN(alpha)
		}
		for _, p := range []int{0, 1, n / 2, n - 2, n - 1} {
			if p < 0 || p >= n {
				continue
			}
			for kind := 0; kind < 3; kind++ {
				var rhs []int
				switch kind {
				case 0: // substitution
					rhs = append([]int(nil), lhs...)
					rhs[p] = alpha + 5
				case 1: // deletion
					rhs = append(append([]int(nil), lhs[:p]...), lhs[p+1:]...)
				case 2: // insertion (after position p)
					rhs = append(append(append([]int(nil), lhs[:p+1]...), alpha+5), lhs[p+1:]...)
				}
				c11check(c, lhs, rhs)
				c11check(c, rhs, lhs)
				c.Add("single_point_edit_pairs", 2)
			}
		}
	}
}

func runC11(c *fw.Ctx) {
	defer c11recheckKept(c)
	if c.Flavour == "race" {
		c11concurrent(c, 1<<22)
		return
	}
	c11concurrent(c, 1<<22)
	if c.Block == 0 && c.Begin(1<<23) {
		c11anyElems(c)
		c11floatElems(c)
	}
	c11pointEdits(c, 1<<23+4096)
	idx := 0
	type space struct{ a, maxLen int }
	spaces := []space{{3, 7}, {2, 9}, {4, 5}}
	if c.Thorough() {
		spaces = append(spaces, space{2, 11}, space{3, 8}, space{5, 5})
	}
	for _, sp := range spaces {
		n := countSeqs(sp.a, sp.maxLen)
		for li := c.Block; li < n; li += c.NBlocks {
			if !c.Begin(idx + li) {
				continue
			}
			lhsProto := seqOf(li, sp.a)
			var amb, pairs, reps, eq int64
			for ri := 0; ri < n; ri++ {
				if ri%97 == 0 {
					c11abandon(c, li+ri/97)
				}
				lhs := append(make([]int, 0, len(lhsProto)+2), lhsProto...)
				rhs := seqOf(ri, sp.a)
				a, nrep := c11check(c, lhs, rhs)
				pairs++
				if a {
					amb++
				}
				reps += int64(nrep)
				if li == ri {
					eq++
				}
				if c.WantSample() && a && len(lhs) >= 4 && len(rhs) >= 4 && (li+ri)%977 == 0 {
					es := slice.EditScript(lhs, rhs)
					c.Sample(map[string]any{"lhs": lhs, "rhs": rhs, "script": editsString(es)})
				}
			}
			c.Evals(pairs - 1)
			c.Add("pairs", pairs)
			c.Add("ambiguous_pairs", amb)
			c.Add("replace_edits", reps)
			c.Add("equal_pairs", eq)
			c.SeenEnum(amb)
			if c.Stopped() {
				return
			}
		}
		idx += n
	}
	// inputs that share storage: prefixes, suffixes and overlapping windows of one backing array
	if c.Begin(idx + 900000 + c.Block) {
		var n int64
		c11recheckKept(c)
		c11keepOK = false
		for total := 1; total <= 9; total++ {
			buf := make([]int, total)
			for code := c.Block; code < 1<<uint(total); code += c.NBlocks {
				for i := range buf {
					buf[i] = code >> uint(i) & 1
				}
				for a := 0; a <= total; a++ {
					for b := a; b <= total; b++ {
						// windows [0:b) vs [0:a) (same start), [a:b) vs [0:b), [a:total) vs [0:b)
						for _, pr := range [][2][]int{{buf[:b], buf[:a]}, {buf[:a], buf[:b]}, {buf[a:b], buf[:b]}, {buf[a:], buf[:b]}, {buf[:b:b], buf[a:]}} {
							am, _ := c11check(c, pr[0], pr[1])
							n++
							_ = am
						}
					}
				}
			}
		}
		c11keepOK = true
		c.Evals(n)
		c.Add("pairs", n)
		c.Add("aliased_pairs", n)
		c.SeenEnum(n)
	}
	// very large pairs: the product of the lengths passes 2^24, 2^26, 2^27
	for k := 0; k < 6; k++ {
		if (k+3)%c.NBlocks != c.Block || !c.Begin(idx+950000+k) {
			continue
		}
		n := []int{4100, 8200, 11700}[k%3]
		r := c.Rng()
		lhs := make([]int, n)
		for i := range lhs {
			lhs[i] = r.IntN(30)
		}
		var rhs []int
		if k < 3 { // one of two adjacent identical blocks removed
			rhs = append(append([]int(nil), lhs[:n/2]...), lhs[n/2+n/8:]...)
			copy(lhs[n/2+n/8:], lhs[n/2:n/2+n/8])
		} else { // scattered point edits and a replaced middle
			rhs = append([]int(nil), lhs...)
			for i := 17; i < len(rhs); i += 501 {
				rhs[i] = 99
			}
			rhs = append(rhs[:n/3], rhs[n/3+100:]...)
		}
		a, nrep := c11check(c, lhs, rhs)
		c.Add("pairs", 1)
		c.Add("very_large_pairs", 1)
		c.Add("replace_edits", int64(nrep))
		if a {
			c.Add("ambiguous_pairs", 1)
		}
	}
	// pairs whose common subsequence is longer than 2^16 (seeded change C11w:
	// a 16-bit path length): pairwise different elements with a fresh value
	// substituted at a few positions, so the optimum is known by construction
	// (n minus the number of substitutions) and no quadratic table is needed
	for k := 0; k < 2; k++ {
		if (k*7+5)%c.NBlocks != c.Block || !c.Begin(idx+952000+k) {
			continue
		}
		n := []int{65536 + 9, 66000}[k]
		step := []int{8191, 1000}[k]
		lhs, rhs := make([]int, n), make([]int, n)
		for i := range lhs {
			lhs[i] = i
			rhs[i] = i
		}
		subs := 0
		for i := step / 2; i < n; i += step {
			rhs[i] = n + i
			subs++
		}
		var es []slice.Edit[int]
		in := map[string]any{"lhs": fmt.Sprintf("0..%d", n-1), "rhs": fmt.Sprintf("the same with n+i at every position i = %d + j*%d", step/2, step)}
		ok, pv, stack := fw.Try(func() { es = slice.EditScript(lhs, rhs) })
		c.Step()
		if !ok {
			c.FailKind("panic", in, "EditScript panicked: %v\n%s", pv, stack)
			continue
		}
		if pr, _, _ := c11verifyCore(lhs, rhs, es, n-subs, 1); pr != "" {
			if len(pr) > 400 {
				pr = pr[:400] + "..."
			}
			c.Fail(in, "%d pairwise different elements, %d substituted: %s", n, subs, pr)
		}
		c.Add("pairs", 1)
		c.Add("common_subsequence_beyond_2_to_the_16_pairs", 1)
	}
	// 32-bit build, thorough tier: a pair whose length product passes 2^31 (46341 x 46341)
	if c.Flavour == "386" && c.Thorough() && c.Block == 0 && c.Begin(idx+955000) {
		n := 46341
		lhs, rhs := make([]int, n), make([]int, n)
		for i := range lhs {
			lhs[i] = i % 1000
			rhs[i] = (i + 7) % 1000
		}
		c11check(c, lhs, rhs)
		c.Add("pairs", 1)
		c.Add("length_product_beyond_2_to_the_31_pairs", 1)
	}
	// wrap-around schedule: a larger call, then exactly N one-element calls, then
	// a larger call on unrelated content, for N around 2^8 and 2^16 (one N per
	// block): whatever is numbered per call (generation stamps, sequence
	// numbers in recycled work areas) meets its own earlier value again
	if c.Begin(idx + 960000 + c.Block) {
		var gaps []int // windows of +-5 around 2^8, 2^9, 2^16, 2^17: 44 values over 16 blocks x 3 rounds
		for _, centre := range []int{255, 510, 65535, 131071} {
			for d := -5; d <= 5; d++ {
				gaps = append(gaps, centre+d)
			}
		}
		old := runtime.GOMAXPROCS(1) // one P: one pool-local cache
		func() {
			defer runtime.GOMAXPROCS(old)
			// the call before the gap leaves long paths behind (the two sides
			// are nearly equal); the call after it has nothing, or two elements
			// at other positions, in common — stale state cannot pass for valid
			rich := func(base, n int) ([]int, []int) {
				l := make([]int, n)
				for i := range l {
					l[i] = base + i
				}
				r := append(append(append([]int(nil), l[:n/2]...), base-7), l[n/2:]...)
				return l, r
			}
			poor := func(base, n, common int) ([]int, []int) {
				l, r := make([]int, n), make([]int, n+1)
				for i := range l {
					l[i] = base + i
				}
				for i := range r {
					r[i] = base + 100 + i
				}
				if common > 0 {
					r[1], r[n-2] = l[1], l[n-2]
				}
				return l, r
			}
			for round := 0; round < 3; round++ {
				gap := gaps[(3*c.Block+round)%len(gaps)]
				l, r := rich(1000*round+10, 8+round)
				c11check(c, l, r)
				one, two := []int{1}, []int{2}
				for i := 0; i < gap; i++ {
					if (c.Block+round)%2 == 0 { // one kind of small call per round
						slice.EditScript(one, two)
					} else {
						slice.LCS(one, one)
					}
					if i%4096 == 0 {
						c.Step()
					}
				}
				l2, r2 := poor(1000*round+500, 8+round, round%2)
				c11check(c, l2, r2)
				l3, r3 := poor(1000*round+700, 8+round, 1-round%2)
				c11check(c, l3, r3)
			}
		}()
		c.Add("wraparound_schedules", 1)
		c.Add("pairs", 6)
	}
	// one input is a subsequence of the other (pure deletions / pure insertions):
	// the longer one has n elements, the shorter one m, and the last element of
	// the shorter one matches at position p of the longer one; every p within 6
	// of each multiple of 100 up to 1200 and of 1000 up to 5000, with 0..3
	// elements after it. Checks that work in rows, blocks or batches of a round
	// decimal size meet their boundaries here.
	if c.Begin(idx + 970000 + c.Block) {
		var ps []int
		for m := 100; m <= 1200; m += 100 {
			for d := -6; d <= 6; d++ {
				ps = append(ps, m+d)
			}
		}
		for m := 2000; m <= 5000; m += 1000 {
			for d := -6; d <= 6; d++ {
				ps = append(ps, m+d)
			}
		}
		cnt := 0
		for pi, p := range ps {
			if pi%c.NBlocks != c.Block {
				continue
			}
			for _, trail := range []int{0, 1, 3} {
				for _, m := range []int{1, 30, min(300, p)} {
					n := p + 1 + trail
					long := make([]int, n)
					for i := range long {
						long[i] = 1000 + i
					}
					short := make([]int, 0, m)
					for j := 0; j < m-1; j++ {
						short = append(short, long[j*(p-1)/max(1, m-1)])
					}
					short = append(short, long[p])
					// remove accidental repeats (positions may coincide for small p)
					short = slices.Compact(short)
					c11check(c, long, short)
					c11check(c, short, long)
					cnt += 2
				}
			}
			c.Step()
		}
		c.Add("pairs", int64(cnt))
		c.Add("subsequence_boundary_pairs", int64(cnt))
	}
	// random long pairs
	nr := c.Pick(150, 3000)
	for k := 0; k < nr; k++ {
		if !c.Begin(idx + k) {
			continue
		}
		r := c.Rng()
		lhs, rhs := c11randomPair(r)
		c11abandon(c, k+13*c.Block)
		a, nrep := c11check(c, lhs, rhs)
		c.Add("pairs", 1)
		c.Add("random_pairs", 1)
		c.Add("replace_edits", int64(nrep))
		if a {
			c.Add("ambiguous_pairs", 1)
			h := fw.NewH()
			h.Ints(lhs)
			h.Ints(rhs)
			c.Seen(h.Sum())
		}
	}
}

func c11randomPair(r *rand.Rand) (lhs, rhs []int) {
	alpha := []int{2, 3, 5, 12, 50}[r.IntN(5)]
	n := 1 + r.IntN(400)
	lhs = make([]int, n)
	for i := range lhs {
		if i > 0 && r.IntN(3) == 0 {
			lhs[i] = lhs[i-1] // runs of repeats
		} else {
			lhs[i] = r.IntN(alpha)
		}
	}
	rhs = append([]int(nil), lhs...)
	muts := r.IntN(12)
	for m := 0; m < muts && len(rhs) > 0; m++ {
		p := r.IntN(len(rhs))
		switch r.IntN(5) {
		case 0: // point mutation
			rhs[p] = r.IntN(alpha)
		case 1: // insertion of a short run
			ins := make([]int, 1+r.IntN(5))
			for i := range ins {
				ins[i] = r.IntN(alpha)
			}
			rhs = append(rhs[:p:p], append(ins, rhs[p:]...)...)
		case 2: // deletion
			q := min(len(rhs), p+1+r.IntN(6))
			rhs = append(rhs[:p:p], rhs[q:]...)
		case 3: // block move
			q := min(len(rhs), p+1+r.IntN(10))
			blk := append([]int(nil), rhs[p:q]...)
			rest := append(rhs[:p:p], rhs[q:]...)
			at := 0
			if len(rest) > 0 {
				at = r.IntN(len(rest) + 1)
			}
			rhs = append(rest[:at:at], append(blk, rest[at:]...)...)
		case 4: // duplicate a block in place
			q := min(len(rhs), p+1+r.IntN(6))
			blk := append([]int(nil), rhs[p:q]...)
			rhs = append(rhs[:q:q], append(blk, rhs[q:]...)...)
		}
	}
	if r.IntN(2) == 0 {
		lhs, rhs = rhs, lhs
	}
	return lhs, rhs
}

// c11abandon makes calls that fail half-way and are recovered by the caller:
// EditScript over interface elements panics when it compares two values of
// the same uncomparable dynamic type, LCSFunc when its equality callback
// panics. Nothing is asserted about the abandoned call itself; the verified
// calls that follow in the same goroutine must not be affected by it.
func c11abandon(c *fw.Ctx, seed int) {
	n := 3 + seed%23
	at := seed % n
	lhs := make([]any, n)
	ints := make([]int, n)
	for i := range lhs {
		lhs[i] = i % 5
		ints[i] = i % 5
	}
	lhs[at] = []int{4}
	rhs := append([]any(nil), lhs...)
	m := 1 + seed%(n*n)
	cnt := 0
	calls := []func(){
		func() { slice.EditScript(lhs, rhs) },
		func() { slice.LCS(lhs, rhs) },
		func() {
			slice.LCSFunc(ints, ints, func(a, b int) bool {
				if cnt++; cnt > m {
					panic("abandoned by the equality function")
				}
				return a == b
			})
		},
	}
	for _, f := range calls {
		cnt = 0
		if p, _ := fw.Panics(f); p {
			c.Add("abandoned_calls", 1)
		}
	}
}
