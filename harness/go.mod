module verif/harness

go 1.23

require (
	github.com/anishathalye/porcupine v1.3.0
	github.com/creachadair/mds v0.0.0-00010101000000-000000000000
)

replace github.com/creachadair/mds => /repo
