#!/bin/bash
# Run once after a fresh restore, offline. Builds the driver and warms the Go
# build cache (plain, -race and -asan standard library) so that the first check
# is not slow. Nothing is fetched.
set -eu
ROOT="$(cd "$(dirname "$0")" && pwd)"
export GOFLAGS=-mod=mod GOPROXY=off GOSUMDB=off GOTOOLCHAIN=local GOWORK=off
mkdir -p "$ROOT/bin" "$ROOT/evidence" "$ROOT/replays"
cd "$ROOT/harness"
go build -o "$ROOT/bin/vcheck" ./cmd/vcheck
tmp="$ROOT/.build/setup.$$"
mkdir -p "$tmp"
trap 'rm -rf "$tmp"' EXIT
# Warm the caches; failures here are not fatal (checks rebuild what they need).
go build -tags "verif pall" -o "$tmp/w-plain" ./cmd/worker || echo "setup: plain worker did not build (checks will report inconclusive)"
go build -race -tags "verif pall" -o "$tmp/w-race" ./cmd/worker || echo "setup: race worker did not build"
go build -asan -tags "verif pall" -o "$tmp/w-asan" ./cmd/worker || echo "setup: asan worker did not build"
echo "setup: ok"
